#!/venv/bin/python
"""Regenerates MANIFEST.json from the table below (kept in one place so that it stays valid)."""
import json, os
HERE = os.path.dirname(os.path.abspath(__file__))
CHECKS = json.load(open(os.path.join(HERE, "manifest_checks.json")))
m = {
    "version": 1,
    "setup_cmd": "./setup.sh",
    "hooks": {
        "guard": "RSK_POWHSM_VERIF",
        "enable": "no source hooks are needed: every seam is a module attribute replaced from outside; checks export RSK_POWHSM_VERIF=1 anyway",
        "baseline_off_cmd": "cd /repo && /venv/bin/python -m pytest -ra -q -p no:cacheprovider --timeout=900 --continue-on-collection-errors",
        "source_commits": [],
        "add_only": True,
    },
    "engines": [
        {"name": "xplore", "path": "verif/xplore.py",
         "serves_properties": [c["property_id"] for c in CHECKS["checks"]],
         "kind_free_text": "stateless choice-point explorer: re-runs a closed driver (real middleware code + simulated environment) for every choice sequence, optionally deviation-bounded; fork pool over top-level cases"},
    ],
    "checks": CHECKS["checks"],
    "not_applicable": CHECKS["not_applicable"],
    "notes": CHECKS.get("notes", ""),
}
json.dump(m, open(os.path.join(HERE, "MANIFEST.json"), "w"), indent=1)
print("MANIFEST.json written:", len(m["checks"]), "checks,", len(m["not_applicable"]), "not applicable")
