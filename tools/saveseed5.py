#!/venv/bin/python
"""tools/saveseed4.py -- copy the confirmed round-4 seeded changes (/tmp/seed-out5/<ID>/m1,m2) into
/verif/seeded/<ID>-m7,-m8 with meta.json (first-run result and what was strengthened)."""
import glob, json, os, re, shutil
SRC = "/tmp/seed-out5"
DETECTED = {"C02-m1", "C04-m1", "C05-m2", "C06-m2", "C07-m1", "C07-m2", "C08-m1", "C10-m2", "C13-m2", "C16-m2",
            "C17-m1", "C17-m2"}
FIX = {
    "C01-m1": "parts that take thousands of messages (3000-byte receipt byte by byte, a 90 kB transaction, the largest proof) with the request size forced",
    "C01-m2": "NOT COUNTED: a hash message together with an auth object is a request docs/protocol.md does not define (the spec classifier leaves acceptance and -101/-102 open); no check is expected to report it",
    "C02-m2": "caught by the sibling C03 (the change is in comm/server.py, outside C02's anchors): the line layer only transports - answer over the line == answer of the protocol object; well-formed lines of 1, 4, 16 MiB",
    "C03-m1": "digits that are not ASCII (Arabic-Indic, fullwidth, Devanagari) in every hex field (C02 menus, C03 hostile lines)",
    "C03-m2": "every well-formed DER shape a device may return (r, s of 1/31/32/33 bytes, 0x31 tag, trailing bytes) for every command that carries a signature",
    "C04-m2": "caught by the sibling C11 (legacy sign meeting a reconnection that fails: a connection matter, not a device answer)",
    "C05-m1": "headers of one block hash with different coinbase transactions, one request after the other on a long-lived manager, and as block + brother",
    "C06-m1": "derived values with a leading zero byte, found by search at generation time (builder-certs)",
    "C08-m2": "files that ship an element named like the root word / a foreign root under several names (builder-attest; C07/C16: builder-certs)",
    "C09-m1": "versions with multi-digit components (5.4.10, 5.4.100, 5.10.0, 5.3.200 ...): orders that differ between numbers, strings and decimal fractions",
    "C09-m2": "C09 relink scenario (the bring-up repeated in mid-life with an obstacle) and C10: the client of the request that meets the reconnection is reset / gone when the reply is written (the shutdown decision must survive)",
    "C10-m1": "randomness sources kept as class attributes are owned too; after a digits-only draw every continuation of two more draws",
    "C11-m1": "the device comes back LOCKED: the repair is the long bring-up through the bootloader, each of its exchanges failing in turn",
    "C11-m2": "the managers' -D/--iodebug option on the dongle object",
    "C12-m1": "the transport model checks the timeout argument as ledgerblue's HID transport does (not a number: TypeError after the write, the unread answer is read by the next exchange)",
    "C12-m2": "NOT COUNTED: SO_REUSEADDR set after bind shows only on a restarted manager while old connections are in TIME_WAIT: real-kernel behaviour outside the model and a restart history outside C12's quantifier (the seeding agent says so)",
    "C13-m1": "the same signer behind the TCP dongle class (Platform.X86, as manager_tcp wires it)",
    "C14-m1": "every transaction of the alphabet also through the segwit sub-format",
    "C14-m2": "version / lock time / leading and trailing bytes that are ASCII whitespace",
    "C15-m1": "the SGX device model encodes DER as the firmware's der_utils.c does; genuine devices with each r/s shape (builder-attest)",
    "C15-m2": "algebraic alterations of signatures: (r, N-s), (N-r, s), (s, r), superfluous leading zero (builder-attest)",
    "C16-m1": "names with non-ASCII / astral / lone-surrogate characters, save and load through real files also under an ASCII locale (builder-certs)",
    "C19-m1": "signatures of one run compared with each other: equal r between two signatures means the one-time key is recoverable; it is recovered and checked against the public key (builder-admin)",
    "C19-m2": "area lengths at k*B-1, k*B, k*B+1 for the block sizes of the code base and its libraries (224 = ledgerblue's loader chunk among them), sweep of every length 1..600 (builder-admin)",
    "C18-m1": "every admin command also with -v/--verbose (debug dongle) (builder-admin)",
    "C18-m2": "PINs with a trailing line feed on the command line, short forms under --anypin (builder-admin)",
}
NEEDS_RE = re.compile(r"(?is)(?:what )?(?:is |it )?(?:need(?:ed|s)?|trigger|manifest)[^\n]*\n(.*?)(?:\n#|\n\*\*[A-Z]|\Z)")
n = 0
for d in sorted(glob.glob(SRC + "/C*/m[12]")):
    pid, m = d.split("/")[-2:]
    new = "m9" if m == "m1" else "m10"
    dst = "/verif/seeded/%s-%s" % (pid, new)
    os.makedirs(dst, exist_ok=True)
    for f in glob.glob(d + "/*"):
        if os.path.isfile(f):
            shutil.copy(f, dst)
    notes = open(d + "/notes.md").read()
    title = notes.strip().splitlines()[0].lstrip("# ").strip()
    title = re.sub(r"^C\d\d\s*[/-]\s*m\d\s*[-—:]+\s*", "", title)
    mm = NEEDS_RE.search(notes)
    needs = " ".join(mm.group(1).split())[:380] if mm else ""
    key = "%s-%s" % (pid, m)
    missed = key not in DETECTED
    meta = {
        "id": "%s-%s" % (pid, new), "round": 5, "property": pid,
        "files_changed": sorted(set(l[6:].strip() for l in open(dst + "/patch.diff") if l.startswith("+++ b/"))),
        "needs_to_manifest": (title + ". " + needs).strip(),
        "confirmed": {"pinned_suite_with_change": "468 passed, 25 errors",
                      "demo": "exit 0 on the clean tree, exit 1 with the change (REPO_DIR=<worktree> /venv/bin/python demo.py)",
                      "how": "tools/seedtest.sh %s %s (scratch worktree under /var/tmp, removed afterwards)" % (pid, new)},
        "detected_by": ("%s quick at first run" % pid) if not missed else ("%s quick: silent" % pid),
        "detected_by_after_strengthening": (pid + " quick after: " + FIX.get(key, "?")) if missed else "-",
        "note": ("missed at first run; " + FIX.get(key, "")) if missed else "detected at first run",
        "origin": "round 5: fresh sub-agent that saw the property text, a scratch worktree and a DESCRIPTION of how the harness works (small alphabets, device models, reference implementations), and was asked for bugs such a harness would miss; nothing from /verif",
    }
    json.dump(meta, open(dst + "/meta.json", "w"), indent=1)
    n += 1
print("saved", n)
