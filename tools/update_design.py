#!/venv/bin/python
"""Regenerates the measured tables of DESIGN.md section 8 between the TABLE markers, from evidence/*.json
(quick tier), measurements/thorough_runs.json (recorded thorough runs) and seeded/*/meta.json."""
import glob, json, os, re
H = "/verif"
thor = {}
tp = H + "/measurements/thorough_runs.json"
if os.path.exists(tp):
    thor = json.load(open(tp))
rows = ["| id | level | quick: executions / states / transitions / classes / dont_care / wall | thorough: executions / states / transitions / classes / wall |", "|---|---|---|---|"]
for f in sorted(glob.glob(H + "/evidence/C*.json")):
    e = json.load(open(f)); c = e["coverage"]; pid = e["property_id"]
    if e["tier"] != "quick":
        continue
    t = thor.get(pid)
    ts = "%s / %s / %s / %s / %ss" % (t["executions"], t["states"], t["transitions"], t["classes"], t["wall"]) if t else "n/a"
    rows.append("| %s | %s | %d / %d / %d / %d / %d / %.0fs | %s |" % (pid, e["level"], c["evaluations"], c.get("states", 0), c.get("transitions", 0), c["distinct_nontrivial"], c.get("dont_care", 0), e["wall_s"], ts))
t1 = "\n".join(rows)
rows = ["| seeded change (file) | what it needs to manifest | first run | after strengthening |", "|---|---|---|---|"]
for d in sorted(glob.glob(H + "/seeded/*/meta.json")):
    m = json.load(open(d))
    missed = m["note"].lower().startswith("missed") or "missed" in m["note"].lower()
    first = ("**missed**" if missed else "detected") + ": " + m["detected_by"]
    rows.append("| %s (%s) | %s | %s | %s |" % (m["id"], ", ".join(os.path.basename(x) for x in m["files_changed"]), m["needs_to_manifest"].replace("|", "/").replace("\n", " "), first, m.get("detected_by_after_strengthening", "-")))
t2 = "\n".join(rows)
p = H + "/DESIGN.md"
s = open(p).read()
s = re.sub(r"<!-- TABLE1 -->.*?<!-- /TABLE1 -->", lambda m: "<!-- TABLE1 -->\n" + t1 + "\n<!-- /TABLE1 -->", s, flags=re.S)
s = re.sub(r"<!-- TABLE2 -->.*?<!-- /TABLE2 -->", lambda m: "<!-- TABLE2 -->\n" + t2 + "\n<!-- /TABLE2 -->", s, flags=re.S)
open(p, "w").write(s)
print("DESIGN.md tables updated:", len(t1.splitlines()) - 2, "checks,", len(t2.splitlines()) - 2, "seeded changes")
