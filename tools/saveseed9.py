#!/venv/bin/python
"""tools/saveseed4.py -- copy the confirmed round-4 seeded changes (/tmp/seed-out9/<ID>/m1,m2) into
/verif/seeded/<ID>-m7,-m8 with meta.json (first-run result and what was strengthened)."""
import glob, json, os, re, shutil
SRC = "/tmp/seed-out9"
MISSED = {"C01-m2", "C04-m1", "C04-m2", "C05-m2", "C06-m2", "C08-m1", "C08-m2", "C10-m2", "C11-m2", "C12-m2", "C14-m2",
          "C16-m1", "C17-m1", "C19-m1"}
DETECTED = {"%s-%s" % (p, m) for p in ["C%02d" % i for i in range(1, 20)] for m in ("m1", "m2")} - MISSED
FIX = {
    "C01-m2": "long shapes also over the TCP and SGX dongle classes with the largest chunk size (255)",
    "C04-m1": "caught at once by the siblings C13 and C01; C04 itself now lets the device report success with signatures of every DER size (short / tiny / sign-byte integers) for every command that returns one",
    "C04-m2": "first and last exchange of every command also over the SGX and TCP dongle classes",
    "C05-m2": "long block lists (9, 12, 17; thorough: 33, 130 blocks)",
    "C06-m2": "declared but void tweaks (builder-certs)",
    "C08-m1": "caught at once by the siblings C06 (19 keys) and C07 (13): the slip is in the chain validation they own",
    "C08-m2": "caught at once by the siblings C07 and C16 (bytes after the signed part of a quote)",
    "C10-m2": "the in-memory file system has the descriptor-level door too (os.open / fdopen / write / fsync / close): the staging write had failed on the REAL file system and the change was given up before doing harm",
    "C11-m2": "first and last exchange of every command over the TCP and SGX dongle classes (their own connect / disconnect), reconnection failing k times; caught at once by the sibling C09",
    "C12-m2": "stream transports: an answer that comes after the time limit somebody put on the socket stays in the stream and is what the next exchange reads (no limit on the unchanged tree: the exchange waits)",
    "C14-m2": "caught at once by the sibling C01 (the framing of the transaction sent to the device is C01's clause; get_unsigned_tx itself is untouched)",
    "C16-m1": "white-space-only hex fields, load - save - load (builder-certs)",
    "C17-m1": "hash spellings with blanks: 64 characters but fewer digits; 64 digits plus blanks (builder-admin)",
    "C19-m1": "an image whose SHA-256 starts with a zero byte (builder-admin)",
}
NEEDS_RE = re.compile(r"(?is)(?:what )?(?:is |it )?(?:need(?:ed|s)?|trigger|manifest)[^\n]*\n(.*?)(?:\n#|\n\*\*[A-Z]|\Z)")
n = 0
for d in sorted(glob.glob(SRC + "/C*/m[12]")):
    pid, m = d.split("/")[-2:]
    new = ("m17" if m == "m1" else "m18") if pid != "C12" else ("m18" if m == "m1" else "m19")
    dst = "/verif/seeded/%s-%s" % (pid, new)
    os.makedirs(dst, exist_ok=True)
    for f in glob.glob(d + "/*"):
        if os.path.isfile(f):
            shutil.copy(f, dst)
    notes = open(d + "/notes.md").read()
    title = notes.strip().splitlines()[0].lstrip("# ").strip()
    title = re.sub(r"^C\d\d\s*[/-]\s*m\d\s*[-—:]+\s*", "", title)
    mm = NEEDS_RE.search(notes)
    needs = " ".join(mm.group(1).split())[:380] if mm else ""
    key = "%s-%s" % (pid, m)
    missed = key not in DETECTED
    meta = {
        "id": "%s-%s" % (pid, new), "round": 9, "property": pid,
        "files_changed": sorted(set(l[6:].strip() for l in open(dst + "/patch.diff") if l.startswith("+++ b/"))),
        "needs_to_manifest": (title + ". " + needs).strip(),
        "confirmed": {"pinned_suite_with_change": "468 passed, 25 errors",
                      "demo": "exit 0 on the clean tree, exit 1 with the change (REPO_DIR=<worktree> /venv/bin/python demo.py)",
                      "how": "tools/seedtest.sh %s %s (scratch worktree under /var/tmp, removed afterwards)" % (pid, new)},
        "detected_by": ("%s quick at first run" % pid) if not missed else ("%s quick: silent" % pid),
        "detected_by_after_strengthening": (pid + " quick after: " + FIX.get(key, "?")) if missed else "-",
        "note": ("missed at first run; " + FIX.get(key, "")) if missed else "detected at first run",
        "origin": "round 9: fresh sub-agent (property text + scratch worktree, nothing from /verif) asked for realistic commits whose slip sits one step away from the function the property is about: m1 in a shared helper / base class / utility the anchored code depends on, m2 in a sibling variant (SGX / TCP dongle subclass, legacy protocol, the other platform's entry point, an override that must stay in step with its base class)",
    }
    json.dump(meta, open(dst + "/meta.json", "w"), indent=1)
    n += 1
print("saved", n)
import json as _j
for _id, _chk in (("C08-m17", "C06"), ("C08-m18", "C07"), ("C14-m18", "C01")):
    _p = "/verif/seeded/%s/meta.json" % _id
    _m = _j.load(open(_p)); _m["check"] = _chk; _j.dump(_m, open(_p, "w"), indent=1)
