#!/venv/bin/python
"""tools/saveseed4.py -- copy the confirmed round-4 seeded changes (/tmp/seed-out4/<ID>/m1,m2) into
/verif/seeded/<ID>-m7,-m8 with meta.json (first-run result and what was strengthened)."""
import glob, json, os, re, shutil
SRC = "/tmp/seed-out4"
DETECTED = {"C02-m1", "C03-m1", "C04-m1", "C06-m2", "C10-m1", "C11-m1", "C14-m1", "C14-m2", "C16-m1", "C16-m2",
            "C17-m1", "C17-m2", "C18-m2", "C19-m1", "C19-m2"}
FIX = {
    "C01-m1": "BIP144 (marker, flag, witness) transactions joined the request shapes; the policy signer refuses an empty chunk it is still owed bytes for (the run used to spin)",
    "C01-m2": "every hex field also spelled with blanks between the bytes (text longer than twice the byte count); 'abandoned' clause: the dialogue stops while the device is still owed bytes",
    "C02-m2": "whitespace-only strings in the menu of every hex field",
    "C03-m2": "slow clients over the socket stack: pause mid-line with socket time-outs (settimeout / default timeout) running out as a deviation; reset clients",
    "C04-m2": "total / partial success answered to the last chunk of any header (a brother's included) must be reported as 0 / 1 (was dont_care)",
    "C05-m1": "repeated entries: the same brother twice, twins of equal block hash (ties matched in either order)",
    "C05-m2": "the same block header at two positions of the list with different brother lists",
    "C06-m1": "hex fields of genuine documents in the other spellings bytes.fromhex accepts (builder-certs)",
    "C07-m1": "validity judged under two zone offsets with windows beginning / ending within hours of now (builder-certs)",
    "C07-m2": "every public-key field in every encoding the loader accepts, compressed included (builder-certs)",
    "C08-m1": "SGX verify under two zone offsets (builder-attest)",
    "C08-m2": "key sets whose lexicographic and numeric path orders differ (builder-attest)",
    "C09-m1": "echo answers with another class / instruction byte behind an intact payload, short, long, header only",
    "C09-m2": "PIN file equal to the environment PIN / no environment PIN; 'stops-without-reason': with a lazy device configuration a dimension never asked about is a step never taken",
    "C10-m2": "every command (not only getPubKey) as the request that meets the pending reconnection and with it the PIN change",
    "C11-m2": "the command's own getDongle calls (uiHeartbeat re-opens the connection itself) failing",
    "C12-m1": "TCP / SGX dongle classes (their connect() runs before the server listens), process-wide default socket timeout carried into the model, pausing clients",
    "C12-m2": "a third client whose end is reset or closed in the middle of its line while the others wait",
    "C13-m1": "every reported datum beginning and ending with byte patterns that mean something elsewhere in the stack (90 00, 6a 8f, 04, 80, 30 ...); also a DER signature ending 90 00 in the C01 menu",
    "C13-m2": "heartbeat keys whose X repeats the prefix byte (04 04.., 03 03.., 02 02..)",
    "C15-m1": "bytes after a textual header that continue the header's own grammar ('.', digits) (builder-attest)",
    "C15-m2": "operator-supplied hex arguments in every accepted spelling x leading-zero value shapes (builder-attest)",
    "C18-m1": "end of input as a member of every operator-answer menu (builder-admin)",
}
NEEDS_RE = re.compile(r"(?is)(?:what )?(?:is |it )?(?:need(?:ed|s)?|trigger|manifest)[^\n]*\n(.*?)(?:\n#|\n\*\*[A-Z]|\Z)")
n = 0
for d in sorted(glob.glob(SRC + "/C*/m[12]")):
    pid, m = d.split("/")[-2:]
    new = "m7" if m == "m1" else "m8"
    dst = "/verif/seeded/%s-%s" % (pid, new)
    os.makedirs(dst, exist_ok=True)
    for f in glob.glob(d + "/*"):
        if os.path.isfile(f):
            shutil.copy(f, dst)
    notes = open(d + "/notes.md").read()
    title = notes.strip().splitlines()[0].lstrip("# ").strip()
    title = re.sub(r"^C\d\d\s*[/-]\s*m\d\s*[-—:]+\s*", "", title)
    mm = NEEDS_RE.search(notes)
    needs = " ".join(mm.group(1).split())[:380] if mm else ""
    key = "%s-%s" % (pid, m)
    missed = key not in DETECTED
    meta = {
        "id": "%s-%s" % (pid, new), "round": 4, "property": pid,
        "files_changed": sorted(set(l[6:].strip() for l in open(dst + "/patch.diff") if l.startswith("+++ b/"))),
        "needs_to_manifest": (title + ". " + needs).strip(),
        "confirmed": {"pinned_suite_with_change": "468 passed, 25 errors",
                      "demo": "exit 0 on the clean tree, exit 1 with the change (REPO_DIR=<worktree> /venv/bin/python demo.py)",
                      "how": "tools/seedtest.sh %s %s (scratch worktree under /var/tmp, removed afterwards)" % (pid, new)},
        "detected_by": ("%s quick at first run" % pid) if not missed else ("%s quick: silent" % pid),
        "detected_by_after_strengthening": (pid + " quick after: " + FIX.get(key, "?")) if missed else "-",
        "note": ("missed at first run; " + FIX.get(key, "")) if missed else "detected at first run",
        "origin": "round 4: fresh sub-agent that saw the property text, a scratch worktree and a DESCRIPTION of how the harness works (small alphabets, device models, reference implementations), and was asked for bugs such a harness would miss; nothing from /verif",
    }
    json.dump(meta, open(dst + "/meta.json", "w"), indent=1)
    n += 1
print("saved", n)
