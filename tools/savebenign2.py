#!/venv/bin/python
"""tools/savebenign.py -- copy the property-preserving changes (/tmp/ben-out2/<ID>/b1..b3) into /verif/benign/<ID>-bN
with meta.json: which checks were run against them (tools/bentest.sh) and with what result."""
import glob, json, os, re, shutil
n = 0
for d in sorted(glob.glob("/tmp/ben-out2/C*/b[123]")):
    pid, b = d.split("/")[-2:]
    if not os.path.exists(d + "/patch.diff"):
        continue
    b_new = {"b1": "b4", "b2": "b5", "b3": "b6"}[b]
    dst = "/verif/benign/%s-%s" % (pid, b_new)
    os.makedirs(dst, exist_ok=True)
    for f in ("patch.diff", "notes.md"):
        if os.path.exists(d + "/" + f):
            shutil.copy(d + "/" + f, dst)
    log = "/var/tmp/benlogs2/%s-%s.log" % (pid, b)
    checks, first = [], None
    if os.path.exists(log):
        t = open(log).read()
        checks = re.findall(r"check (C\d\d) \(quick\): exit=(\d+)", t)
    notes = open(d + "/notes.md").read().strip().splitlines()
    title = next((l.lstrip("# ").strip() for l in notes if l.strip()), "")
    meta = {"id": "%s-%s" % (pid, b_new), "round": 2, "property": pid,
            "files_changed": sorted(set(l[6:].strip() for l in open(dst + "/patch.diff") if l.startswith("+++ b/"))),
            "what": title,
            "pinned_suite_with_change": "468 passed, 25 errors",
            "checks_run": [c for c, _ in checks],
            "result": "silent (exit 0) on all of them" if checks and all(rc == "0" for _, rc in checks) else
                      "; ".join("%s exit %s" % (c, rc) for c, rc in checks if rc != "0"),
            "how": "tools/bentest.sh %s %s" % (pid, b_new),
            "origin": "fresh sub-agent that saw only the property text and a scratch worktree, asked for realistic, non-trivial changes that PRESERVE the property (restructurings, equivalent library calls, changed texts); nothing from /verif"}
    meta["origin"] = ("round 2: fresh sub-agent (property text + scratch worktree, nothing from /verif) asked for b4: an observable "
                      "behaviour change the property leaves free, b5: another way of reaching files / time / randomness / the device "
                      "library / imports, b6: free (robustness additions welcome)")
    special = {
        ("C11", "b1"): "NOT property-preserving for the whole list: _sign runs ensure_connection() before the handler-level validation, so a sign request that is then refused (-101/-102) makes the manager reconnect first - fine for C11, but C02 ('a request that is not accepted causes no exchange with the device') and C14 (undecodable transaction: no device contact) report it, correctly (4 and 5 VIOLATION lines); all other checks silent",
        ("C12", "b1"): "first run: false alarm of C12 (94 keys) and C03 (7): the change sets TCP_NODELAY / the listen backlog / the poll interval and the fake socket module had no IPPROTO_TCP, TCP_NODELAY; corrected in vnet (constants and exception classes of the real module are answered); silent since",
        ("C15", "b2"): "first run: false alarm of C07 (136 keys) and C16 (1): the validity check reads time.time through a class attribute captured at import, which the owned clock of C07/C16 did not reach; corrected by builder-certs (see DESIGN 8.5)",
        ("C19", "b1"): "first run: false alarm of C19 (signature file of an earlier image demanded from a run that fails on a later, missing image); corrected by builder-admin (see DESIGN 8.5)",
    }
    if (pid, b) in special:
        meta["result"] = special[(pid, b)]
    json.dump(meta, open(dst + "/meta.json", "w"), indent=1)
    n += 1
print("saved", n)
