#!/venv/bin/python
"""tools/saveseed4.py -- copy the confirmed round-4 seeded changes (/tmp/seed-out10/<ID>/m1,m2) into
/verif/seeded/<ID>-m7,-m8 with meta.json (first-run result and what was strengthened)."""
import glob, json, os, re, shutil
SRC = "/tmp/seed-out10"
MISSED = {"C02-m1", "C03-m1", "C06-m1", "C06-m2", "C10-m2", "C12-m1", "C12-m2", "C15-m1", "C16-m1", "C17-m2"}
DETECTED = {"%s-%s" % (p, m) for p in ["C%02d" % i for i in range(1, 20)] for m in ("m1", "m2")} - MISSED
FIX = {
    "C02-m1": "sighashComputationMode of every JSON type (arrays and objects are unhashable: the table lookup raised)",
    "C03-m1": "the same menu entry (C03 runs C02's corpus through the server)",
    "C06-m1": "every loaded certificate object is validated two and three times and must answer the same (builder-certs, 25b1e32)",
    "C06-m2": "every bit of bytes 0 and 1 of each element's signature (tag and length) flipped (builder-certs, 25b1e32)",
    "C10-m2": "a valid PIN file made of look-alike characters (0 l I 1 O)",
    "C12-m1": "caught at once by the sibling C01 (sequence differential: a legacy sign after a segwit one on the same dongle object); in C12 the two sign requests are of the same kind",
    "C12-m2": "OPEN: one listener thread per address of a multi-address bind host - the fake socket module answers one listening socket; getaddrinfo of the bind host is outside the model (recorded under limits)",
    "C15-m1": "a re-gathering history: an earlier attestation file as the input certificate of a new gathering after the device state moved on; one element per name in every written file (builder-attest, f6b3021)",
    "C16-m1": "the field-defect menu also with target lists that leave the element off every target's path (builder-certs, 25b1e32)",
    "C17-m2": "authorization files with 8..12 signatures (around the UI's maximum of 10 authorizers) against thresholds n-2, n-1, n, never and genuine devices needing the last signature (builder-admin, bdbc7a5)",
}
NEEDS_RE = re.compile(r"(?is)(?:what )?(?:is |it )?(?:need(?:ed|s)?|trigger|manifest)[^\n]*\n(.*?)(?:\n#|\n\*\*[A-Z]|\Z)")
n = 0
for d in sorted(glob.glob(SRC + "/C*/m[12]")):
    pid, m = d.split("/")[-2:]
    new = ("m19" if m == "m1" else "m20") if pid != "C12" else ("m20" if m == "m1" else "m21")
    dst = "/verif/seeded/%s-%s" % (pid, new)
    os.makedirs(dst, exist_ok=True)
    for f in glob.glob(d + "/*"):
        if os.path.isfile(f):
            shutil.copy(f, dst)
    notes = open(d + "/notes.md").read()
    title = notes.strip().splitlines()[0].lstrip("# ").strip()
    title = re.sub(r"^C\d\d\s*[/-]\s*m\d\s*[-—:]+\s*", "", title)
    mm = NEEDS_RE.search(notes)
    needs = " ".join(mm.group(1).split())[:380] if mm else ""
    key = "%s-%s" % (pid, m)
    missed = key not in DETECTED
    meta = {
        "id": "%s-%s" % (pid, new), "round": 10, "property": pid,
        "files_changed": sorted(set(l[6:].strip() for l in open(dst + "/patch.diff") if l.startswith("+++ b/"))),
        "needs_to_manifest": (title + ". " + needs).strip(),
        "confirmed": {"pinned_suite_with_change": "468 passed, 25 errors",
                      "demo": "exit 0 on the clean tree, exit 1 with the change (REPO_DIR=<worktree> /venv/bin/python demo.py)",
                      "how": "tools/seedtest.sh %s %s (scratch worktree under /var/tmp, removed afterwards)" % (pid, new)},
        "detected_by": ("%s quick at first run" % pid) if not missed else ("%s quick: silent" % pid),
        "detected_by_after_strengthening": (pid + " quick after: " + FIX.get(key, "?")) if missed else "-",
        "note": ("missed at first run; " + FIX.get(key, "")) if missed else "detected at first run",
        "origin": "round 10 (run 3 hours before the end as a MEASUREMENT of the finished checks): fresh sub-agent (property text + scratch worktree, nothing from /verif), realistic commits as in round 8 (m1 refactoring with one slip, m2 feature with a bad interaction), told the titles of the round 8 / 9 ideas for its property and asked for something different",
    }
    json.dump(meta, open(dst + "/meta.json", "w"), indent=1)
    n += 1
print("saved", n)
import json as _j
for _id, _chk in (("C12-m20", "C01"),):
    _p = "/verif/seeded/%s/meta.json" % _id
    _m = _j.load(open(_p)); _m["check"] = _chk; _j.dump(_m, open(_p, "w"), indent=1)
for _id in ("C12-m21",):
    _p = "/verif/seeded/%s/meta.json" % _id
    _m = _j.load(open(_p)); _m["expect"] = "open-miss"; _j.dump(_m, open(_p, "w"), indent=1)
