#!/venv/bin/python
"""tools/saveseed3.py -- copy the confirmed round-3 seeded changes (/tmp/seed-out3/<ID>/m1,m2) into
/verif/seeded/<ID>-m5,-m6 with their meta.json (first-run result and what was strengthened)."""
import glob, json, os, re, shutil
SRC = "/tmp/seed-out3"
MISSED = {
    "C04-m1": "missed by C04 quick: no dialogue started with the device already in UI-heartbeat mode; C04 after the in-place uiHeartbeat dialogue joined the nominal dialogues",
    "C05-m1": "missed by C05 quick: no coinbase midstate counter of 2^29 bytes or more; C05 after large byte counters joined the block shapes (reference SHA-256 finishes from the midstate)",
    "C07-m1": "missed by C07 quick: reported values were read once, through attributes only; C07 after every reported quote is read through attributes / to_dict / repr / raw data in several orders against an independent parse",
    "C07-m2": "missed by C07 quick: no integer field with the top bit set; C07 after boundary values (0, 1, 2^(w-1)-1, 2^(w-1), 2^w-1) in all 11 integer fields of genuinely signed quotes",
    "C08-m1": "missed by C08 quick: seeded field values never began with a zero nibble; C08 (and C15) after value shapes first byte 00 / first nibble 0 / all zero / all ff for every printed field",
    "C10-m1": "missed by C10 quick: load_pin of the manager modules opened the PIN file outside the in-memory file layer (append mode not modelled); C10 after the manager modules' open / os / shutil were bound to memfs",
    "C10-m2": "missed by C10 quick: shutil / os.rename in the manager modules acted outside the in-memory file layer; C10 after the manager modules' open / os / shutil were bound to memfs",
    "C12-m1": "missed by C12 quick (harness error instead of a violation): join(timeout) never timed out and the C buffered reader's hidden lock hung the schedule; C12 after timed waits became a choice (the time-out is a deviation) and locks / buffered-reader lock became scheduler-owned",
    "C16-m1": "missed by C16 quick: version-2 documents were only refused, never required to load; C16 after genuine certificates (v1 and v2) must load through from_jsonfile with the reference's verdicts",
    "C18-m1": "missed by C18 quick: interactive PIN answers had no surrounding whitespace; C18 after the operator's answers include compliant PINs with leading / trailing blanks, tabs, CR, VT, FF",
}
NEEDS_RE = re.compile(r"(?is)(?:what is )?need(?:ed|s)?[^\n]*manifest[^\n]*\n(.*?)(?:\n#|\n\*\*[A-Z]|\Z)")
n = 0
for d in sorted(glob.glob(SRC + "/C*/m[12]")):
    pid, m = d.split("/")[-2:]
    new = "m5" if m == "m1" else "m6"
    dst = "/verif/seeded/%s-%s" % (pid, new)
    os.makedirs(dst, exist_ok=True)
    for f in glob.glob(d + "/*"):
        if os.path.isfile(f):
            shutil.copy(f, dst)
    notes = open(d + "/notes.md").read()
    title = notes.strip().splitlines()[0].lstrip("# ").strip()
    title = re.sub(r"^C\d\d\s*[/-]\s*m\d\s*[-—:]+\s*", "", title)
    mm = NEEDS_RE.search(notes)
    needs = " ".join(mm.group(1).split())[:420] if mm else ""
    key = "%s-%s" % (pid, m)
    missed = key in MISSED
    log = "/var/tmp/r3/%s-%s.log" % (pid, m)
    nv = ""
    if os.path.exists(log):
        g = re.search(r"(\d+) VIOLATION lines", open(log).read())
        nv = " (%s VIOLATION lines)" % g.group(1) if g else ""
    meta = {
        "id": "%s-%s" % (pid, new),
        "round": 3,
        "property": pid,
        "files_changed": sorted(set(l[6:].strip() for l in open(dst + "/patch.diff") if l.startswith("+++ b/"))),
        "needs_to_manifest": (title + ". " + needs).strip(),
        "confirmed": {
            "pinned_suite_with_change": "468 passed, 25 errors",
            "demo": "exit 0 on the clean tree, exit 1 with the change (REPO_DIR=<worktree> /venv/bin/python demo.py)",
            "how": "tools/seedtest.sh %s %s (scratch worktree under /var/tmp, removed afterwards)" % (pid, new),
        },
        "detected_by": ("%s quick at first run" % pid) if not missed else MISSED[key].split(";")[0].replace("missed by ", "", 1),
        "detected_by_after_strengthening": (MISSED[key].split(";", 1)[1].strip() + nv) if missed else "-",
        "note": ("missed at first run; " + MISSED[key]) if missed else "detected at first run" + nv,
        "origin": "round 3: fresh sub-agent that saw only the property text and a scratch worktree, told to change anchor files no earlier round had changed; nothing from /verif",
    }
    json.dump(meta, open(dst + "/meta.json", "w"), indent=1)
    n += 1
print("saved", n)
