#!/bin/bash
# usage: tools/mut.sh <check-id> <file-relative-to-middleware> <python-regex> <replacement> [tier]
# applies one textual mutation to a scratch copy of /repo/middleware and runs the check on it
set -e
ID=$1; F=$2; PAT=$3; REP=$4; TIER=${5:-quick}
S=/var/tmp/verif-mut-$$
rm -rf $S; mkdir -p $S
cp -r /repo/middleware $S/middleware; ln -s /repo/firmware $S/firmware; ln -s /repo/docs $S/docs
/venv/bin/python - "$S/middleware/$F" "$PAT" "$REP" <<'PY'
import re,sys
p,pat,rep=sys.argv[1:4]
s=open(p).read()
n=len(re.findall(pat,s,flags=re.M))
if n==0: print("MUTATION DID NOT APPLY"); sys.exit(3)
s=re.sub(pat,rep,s,count=1,flags=re.M)
open(p,'w').write(s)
print("mutation applied (%d candidate sites, first taken)"%n)
PY
cd /verif
VERIF_REPO=$S timeout 600 ./vf check $ID --tier $TIER --quiet 2>&1 | tail -4
rm -rf $S
