#!/venv/bin/python
"""tools/addcheck.py ID category 'technique' 'level text' 'level note' [design_ref]  -- registers a check"""
import json, sys, subprocess
pid, cat, tech, text, note = sys.argv[1:6]
ref = sys.argv[6] if len(sys.argv) > 6 else "DESIGN.md 3/" + pid
p = '/verif/manifest_checks.json'
d = json.load(open(p))
d["checks"] = [c for c in d["checks"] if c["property_id"] != pid]
d["checks"].append({
 "property_id": pid,
 "quick_cmd": "./vf check %s --tier quick" % pid,
 "thorough_cmd": "./vf check %s --tier thorough" % pid,
 "evidence_file": "/verif/evidence/%s.json" % pid,
 "replay_cmd_template": "./vf replay {path}",
 "engine": "xplore",
 "level_claimed": {"category": cat, "text": text, "design_ref": ref},
 "level_note": note,
 "technique": tech})
d["checks"].sort(key=lambda c: c["property_id"])
d["not_applicable"] = [n for n in d["not_applicable"] if n["property_id"] != pid]
json.dump(d, open(p, 'w'), indent=1)
subprocess.check_call(['/verif/gen_manifest.py'])
subprocess.check_call(['python3-vt', '-c', "import json,jsonschema;jsonschema.validate(json.load(open('/verif/MANIFEST.json')),json.load(open('/root/.vp/MANIFEST.schema.json')));print('manifest valid')"])
