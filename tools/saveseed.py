#!/venv/bin/python
"""tools/saveseed.py ID mN 'needs' 'detected_by' 'status note'  -- copy a confirmed seeded change into /verif/seeded"""
import json, os, shutil, sys, glob
pid, m, needs, detected, note = sys.argv[1:6]
src = "/tmp/seed-out/%s/%s" % (pid, m)
dst = "/verif/seeded/%s-%s" % (pid, m)
os.makedirs(dst, exist_ok=True)
for f in glob.glob(src + "/*"):
    if os.path.isfile(f):
        shutil.copy(f, dst)
meta = {
    "id": "%s-%s" % (pid, m),
    "property": pid,
    "files_changed": sorted(set(l[6:].strip() for l in open(dst + "/patch.diff") if l.startswith("+++ b/"))),
    "needs_to_manifest": needs,
    "confirmed": {
        "pinned_suite_with_change": "468 passed, 25 errors (cd <worktree> && /venv/bin/python -m pytest -q -p no:cacheprovider --timeout=900 --continue-on-collection-errors)",
        "demo": "exit 0 on the clean tree, exit 1 with the change (REPO_DIR=<worktree> /venv/bin/python demo.py)",
        "how": "tools/seedtest.sh %s %s (scratch worktree under /var/tmp, removed afterwards)" % (pid, m),
    },
    "detected_by": detected,
    "note": note,
    "origin": "written by a fresh sub-agent that saw only the property text and a scratch worktree (plus the bitcoin.core stand-in); nothing from /verif",
}
json.dump(meta, open(dst + "/meta.json", "w"), indent=1)
print("saved", dst)
