#!/venv/bin/python
"""prints the as-built tables for DESIGN.md from evidence/, seeded/ and known_findings.json"""
import glob, json, os, re, sys
H = "/verif"
thor = {}
log = "/root/.vp/runs/1/log"
if len(sys.argv) > 1:
    log = sys.argv[1]
if os.path.exists(log):
    for l in open(log):
        m = re.match(r"(C\d\d) tier=thorough seed=\d+: executions=(\d+) states=(\d+) transitions=(\d+) classes=(\d+) dont_care=(\d+) cases=(\d+)/(\d+) violations\(new keys\)=(\d+) known=(\d+) wall=([\d.]+)s(.*)", l)
        if m:
            thor[m.group(1)] = m.groups()
print("| id | level | quick: executions / states / transitions / classes / dont_care / wall | thorough: executions / states / transitions / classes / wall |")
print("|---|---|---|---|")
for f in sorted(glob.glob(H + "/evidence/C*.json")):
    e = json.load(open(f))
    c = e["coverage"]
    pid = e["property_id"]
    t = thor.get(pid)
    ts = "%s / %s / %s / %s / %ss%s" % (t[1], t[2], t[3], t[4], t[10], " (cap hit)" if "CAP" in t[11] else "") if t else "n/a"
    print("| %s | %s | %d / %d / %d / %d / %d / %.0fs | %s |" % (pid, e["level"], c["evaluations"], c.get("states", 0), c.get("transitions", 0), c["distinct_nontrivial"], c.get("dont_care", 0), e["wall_s"], ts))
print()
print("| seeded change | what it needs to manifest | first run | after strengthening |")
print("|---|---|---|---|")
for d in sorted(glob.glob(H + "/seeded/*/meta.json")):
    m = json.load(open(d))
    print("| %s (%s) | %s | %s | %s |" % (m["id"], ", ".join(os.path.basename(x) for x in m["files_changed"]), m["needs_to_manifest"], m["detected_by"] if not m["note"].startswith("missed") else "**missed** (" + m["note"] + ")", m.get("detected_by_after_strengthening", "-")))
