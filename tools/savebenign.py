#!/venv/bin/python
"""tools/savebenign.py -- copy the property-preserving changes (/tmp/ben-out/<ID>/b1..b3) into /verif/benign/<ID>-bN
with meta.json: which checks were run against them (tools/bentest.sh) and with what result."""
import glob, json, os, re, shutil
n = 0
for d in sorted(glob.glob("/tmp/ben-out/C*/b[123]")):
    pid, b = d.split("/")[-2:]
    if not os.path.exists(d + "/patch.diff"):
        continue
    dst = "/verif/benign/%s-%s" % (pid, b)
    os.makedirs(dst, exist_ok=True)
    for f in ("patch.diff", "notes.md"):
        if os.path.exists(d + "/" + f):
            shutil.copy(d + "/" + f, dst)
    log = "/var/tmp/benlogs/%s-%s.log" % (pid, b)
    checks, first = [], None
    if os.path.exists(log):
        t = open(log).read()
        checks = re.findall(r"check (C\d\d) \(quick\): exit=(\d+)", t)
    notes = open(d + "/notes.md").read().strip().splitlines()
    title = next((l.lstrip("# ").strip() for l in notes if l.strip()), "")
    meta = {"id": "%s-%s" % (pid, b), "property": pid,
            "files_changed": sorted(set(l[6:].strip() for l in open(dst + "/patch.diff") if l.startswith("+++ b/"))),
            "what": title,
            "pinned_suite_with_change": "468 passed, 25 errors",
            "checks_run": [c for c, _ in checks],
            "result": "silent (exit 0) on all of them" if checks and all(rc == "0" for _, rc in checks) else
                      "; ".join("%s exit %s" % (c, rc) for c, rc in checks if rc != "0"),
            "how": "tools/bentest.sh %s %s" % (pid, b),
            "origin": "fresh sub-agent that saw only the property text and a scratch worktree, asked for realistic, non-trivial changes that PRESERVE the property (restructurings, equivalent library calls, changed texts); nothing from /verif"}
    if pid == "C10" and b == "b3":
        meta["result"] = ("first run: C10 harness error (AttributeError: the seam was the module attribute ledger.pin.random, "
                          "the change draws PINs with secrets.choice); after env.bind_random (every door to randomness): silent")
    json.dump(meta, open(dst + "/meta.json", "w"), indent=1)
    n += 1
print("saved", n)
