#!/venv/bin/python
"""tools/savebenign.py -- copy the property-preserving changes (/tmp/ben-out3/<ID>/b1..b3) into /verif/benign/<ID>-bN
with meta.json: which checks were run against them (tools/bentest.sh) and with what result."""
import glob, json, os, re, shutil
n = 0
for d in sorted(glob.glob("/tmp/ben-out3/C*/b[123]")):
    pid, b = d.split("/")[-2:]
    if not os.path.exists(d + "/patch.diff"):
        continue
    b_new = {"b1": "b7", "b2": "b8", "b3": "b9"}[b]
    dst = "/verif/benign/%s-%s" % (pid, b_new)
    os.makedirs(dst, exist_ok=True)
    for f in ("patch.diff", "notes.md"):
        if os.path.exists(d + "/" + f):
            shutil.copy(d + "/" + f, dst)
    log = "/var/tmp/benlogs3/%s-%s.log" % (pid, b)
    checks, first = [], None
    if os.path.exists(log):
        t = open(log).read()
        checks = re.findall(r"check (C\d\d) \(quick\): exit=(\d+)", t)
    notes = open(d + "/notes.md").read().strip().splitlines()
    title = next((l.lstrip("# ").strip() for l in notes if l.strip()), "")
    meta = {"id": "%s-%s" % (pid, b_new), "round": 3, "property": pid,
            "files_changed": sorted(set(l[6:].strip() for l in open(dst + "/patch.diff") if l.startswith("+++ b/"))),
            "what": title,
            "pinned_suite_with_change": "468 passed, 25 errors",
            "checks_run": [c for c, _ in checks],
            "result": "silent (exit 0) on all of them" if checks and all(rc == "0" for _, rc in checks) else
                      "; ".join("%s exit %s" % (c, rc) for c, rc in checks if rc != "0"),
            "how": "tools/bentest.sh %s %s" % (pid, b_new),
            "origin": "fresh sub-agent that saw only the property text and a scratch worktree, asked for realistic, non-trivial changes that PRESERVE the property (restructurings, equivalent library calls, changed texts); nothing from /verif"}
    meta["origin"] = ("round 3: fresh sub-agent (property text + scratch worktree, nothing from /verif) asked for b7: hardening of "
                      "error handling and resource management, b8: modernisation with a deep restructuring of the property's main "
                      "mechanism (match, dataclasses, NamedTuple, walrus, type hints), b9: a small new feature that is off by default")
    special = {
        ("C05", "b3"): "first run: false alarm of C05, C02, C03, C04, C11, C12 (AttributeError: the stand-in for the time module inside ledger.protocol had no monotonic); corrected in harness.py / opstub.py (stand-in modules fall back to the real ones); silent since",
        ("C04", "b1"): "first run: false alarm of C11 (2 keys, failed-reconnect-code): the oracle wanted -905 from a uiHeartbeat whose own reconnection fails once, where the change tries again, gets the device back and completes the nominal dialogue; the statement's device-error code is for a connection that cannot be re-established - corrected in c11.py (such runs are dont_care; the same for a repair that retries within its request, benign C11-e1); all other checks silent",
        ("C10", "b3"): "first run: false alarm of C10 (5 keys, AttributeError: the stand-in for os inside ledger.pin / the managers had no stat); corrected in memfs.py (falls back to the real os, routed to the in-memory files; stat reports the modelled mode); silent since",
    }
    if (pid, b) in special:
        meta["result"] = special[(pid, b)]
    json.dump(meta, open(dst + "/meta.json", "w"), indent=1)
    n += 1
print("saved", n)
