#!/bin/bash
# tools/bentest.sh <ID> <bN>  -- a property-PRESERVING change (written by a fresh sub-agent) must leave the checks silent.
# Scratch worktree of /repo HEAD under /var/tmp; apply, pinned suite, then every check whose property is anchored in a
# changed file (plus the property's own) with VERIF_REPO pointing there.  Prints one line per check; exit 1 if any alarm.
ID=$1; B=$2; TIER=${3:-quick}
SRC=${BEN_SRC:-/tmp/ben-out}/$ID/$B
[ -d "$SRC" ] || SRC=/verif/benign/$ID-$B
WT=/var/tmp/benwt-$ID-$B-$$
export PYTHONDONTWRITEBYTECODE=1
git -C /repo worktree add -q --detach $WT HEAD || exit 9
trap 'git -C /repo worktree remove --force $WT >/dev/null 2>&1; rm -rf $WT /var/tmp/verif-out/$(basename $WT)' EXIT
if ! git -C $WT apply $SRC/patch.diff 2>/dev/null; then
  if ! (cd $WT && patch -p1 -s --fuzz=3 < $SRC/patch.diff >/dev/null 2>&1); then echo "ben $ID/$B: PATCH-DOES-NOT-APPLY"; exit 8; fi
fi
suite=$(cd $WT && /venv/bin/python -m pytest -q -p no:cacheprovider --timeout=900 --continue-on-collection-errors 2>&1 | tail -1)
files=$(grep '^+++ b/' $SRC/patch.diff | cut -c7- | tr '\n' ' ')
ids=$(/venv/bin/python - $ID $files <<'PY'
import json,sys
own=sys.argv[1]; files=set(sys.argv[2:])
out=[own]
for l in open('/verif/properties.jsonl'):
    d=json.loads(l)
    if d['id']!=own and files & set(d['anchors']['files']): out.append(d['id'])
print(" ".join(out))
PY
)
echo "ben $ID/$B: suite='$suite' files=[$files] checks=[$ids]"
bad=0
cd /verif
for id in ${CHECK_IDS:-$ids}; do
  out=$(VERIF_REPO=$WT timeout 1500 ./vf check $id --tier $TIER --quiet 2>&1)
  rc=$?
  nv=$(echo "$out" | grep -c '^VIOLATION')
  echo "  check $id ($TIER): exit=$rc, $nv VIOLATION lines; $(echo "$out" | tail -1 | cut -c1-250)"
  if [ $rc -ne 0 ]; then bad=1; echo "$out" | grep -v '^KNOWN' | head -5 | cut -c1-300; fi
done
exit $bad
