#!/bin/bash
# tools/seedtest.sh <ID> <mN> [tier]   -- confirm a seeded change and run the property's check against it.
# Everything happens in a scratch worktree of /repo HEAD under /var/tmp (never in /repo itself, so that
# concurrent work on /repo is not disturbed): apply the patch, run the pinned suite (must be 468 passed),
# run the demo with and without the change, then run ./vf check with VERIF_REPO pointing at the worktree.
ID=$1; M=$2; TIER=${3:-quick}
SRC=${SEED_SRC:-/tmp/seed-out}/$ID/$M
[ -d "$SRC" ] || SRC=/verif/seeded/$ID-$M
WT=/var/tmp/seedwt-$ID-$M-$$
export PYTHONDONTWRITEBYTECODE=1
git -C /repo worktree add -q --detach $WT HEAD || exit 9
trap 'git -C /repo worktree remove --force $WT >/dev/null 2>&1; rm -rf $WT /var/tmp/verif-out/$(basename $WT)' EXIT
DEMO=$(ls $SRC/demo*.py | head -1)
clean=$(cd $WT && REPO_DIR=$WT timeout 300 /venv/bin/python $DEMO >/dev/null 2>&1; echo $?)
if ! git -C $WT apply $SRC/patch.diff 2>/dev/null; then
  if ! (cd $WT && patch -p1 -s --fuzz=3 < $SRC/patch.diff >/dev/null 2>&1); then echo "PATCH-DOES-NOT-APPLY"; exit 8; fi
fi
suite=$(cd $WT && /venv/bin/python -m pytest -q -p no:cacheprovider --timeout=900 --continue-on-collection-errors 2>&1 | tail -1)
mut=$(cd $WT && REPO_DIR=$WT timeout 300 /venv/bin/python $DEMO >/dev/null 2>&1; echo $?)
echo "seed $ID/$M: demo clean-exit=$clean mutated-exit=$mut suite='$suite'"
cd /verif
for id in ${CHECK_IDS:-$ID}; do
  out=$(VERIF_REPO=$WT timeout 1500 ./vf check $id --tier $TIER --quiet 2>&1)
  rc=$?
  nv=$(echo "$out" | grep -c '^VIOLATION')
  echo "  check $id ($TIER): exit=$rc, $nv VIOLATION lines; $(echo "$out" | tail -1 | cut -c1-300)"
  echo "$out" | grep '^VIOLATION' | head -3
done
