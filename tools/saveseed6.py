#!/venv/bin/python
"""tools/saveseed4.py -- copy the confirmed round-4 seeded changes (/tmp/seed-out6/<ID>/m1,m2) into
/verif/seeded/<ID>-m7,-m8 with meta.json (first-run result and what was strengthened)."""
import glob, json, os, re, shutil
SRC = "/tmp/seed-out6"
MISSED = {"C04-m1", "C05-m2", "C12-m1", "C12-m2", "C18-m2"}
DETECTED = {"%s-%s" % (p, m) for p in ["C%02d" % i for i in range(1, 20)] for m in ("m1", "m2")} - MISSED
FIX = {
    "C04-m1": "history differential: every (command, exchange, fault) cell met by a manager that served another command before must be answered as by fresh manager objects over the same device",
    "C05-m2": "histories in which each request is first refused by the device at some exchange (nothing in flight may leak into the next request); the same in C01",
    "C12-m1": "caught by the sibling C05 (a memo keyed by the block hash across requests: the coinbase twins of round 5); in C12 itself the clients' requests do not share a block hash",
    "C12-m2": "a uiHeartbeat that fails inside the device (error status from the UI heartbeat application) next to requests that must not notice",
    "C18-m2": "pre-existing output files x a failure at each key exchange: what is on disk afterwards is the old content or the complete new content (builder-admin)",
}
NEEDS_RE = re.compile(r"(?is)(?:what )?(?:is |it )?(?:need(?:ed|s)?|trigger|manifest)[^\n]*\n(.*?)(?:\n#|\n\*\*[A-Z]|\Z)")
n = 0
for d in sorted(glob.glob(SRC + "/C*/m[12]")):
    pid, m = d.split("/")[-2:]
    new = "m11" if m == "m1" else "m12"
    dst = "/verif/seeded/%s-%s" % (pid, new)
    os.makedirs(dst, exist_ok=True)
    for f in glob.glob(d + "/*"):
        if os.path.isfile(f):
            shutil.copy(f, dst)
    notes = open(d + "/notes.md").read()
    title = notes.strip().splitlines()[0].lstrip("# ").strip()
    title = re.sub(r"^C\d\d\s*[/-]\s*m\d\s*[-—:]+\s*", "", title)
    mm = NEEDS_RE.search(notes)
    needs = " ".join(mm.group(1).split())[:380] if mm else ""
    key = "%s-%s" % (pid, m)
    missed = key not in DETECTED
    meta = {
        "id": "%s-%s" % (pid, new), "round": 6, "property": pid,
        "files_changed": sorted(set(l[6:].strip() for l in open(dst + "/patch.diff") if l.startswith("+++ b/"))),
        "needs_to_manifest": (title + ". " + needs).strip(),
        "confirmed": {"pinned_suite_with_change": "468 passed, 25 errors",
                      "demo": "exit 0 on the clean tree, exit 1 with the change (REPO_DIR=<worktree> /venv/bin/python demo.py)",
                      "how": "tools/seedtest.sh %s %s (scratch worktree under /var/tmp, removed afterwards)" % (pid, new)},
        "detected_by": ("%s quick at first run" % pid) if not missed else ("%s quick: silent" % pid),
        "detected_by_after_strengthening": (pid + " quick after: " + FIX.get(key, "?")) if missed else "-",
        "note": ("missed at first run; " + FIX.get(key, "")) if missed else "detected at first run",
        "origin": "round 6: fresh sub-agent (property text + scratch worktree, nothing from /verif) asked for two bugs from different families of: (A) shared mutable state, (B) cursor / offset / length logic, (C) ordering of effects, (D) error-path asymmetry - the kind that review and a sample-based suite let through",
    }
    json.dump(meta, open(dst + "/meta.json", "w"), indent=1)
    n += 1
print("saved", n)
