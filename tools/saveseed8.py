#!/venv/bin/python
"""tools/saveseed4.py -- copy the confirmed round-4 seeded changes (/tmp/seed-out8/<ID>/m1,m2) into
/verif/seeded/<ID>-m7,-m8 with meta.json (first-run result and what was strengthened)."""
import glob, json, os, re, shutil
SRC = "/tmp/seed-out8"
MISSED = {"C02-m1", "C04-m1", "C04-m2", "C06-m1", "C10-m2", "C11-m2", "C12-m1", "C12-m2", "C17-m2", "C18-m2"}
DETECTED = {"%s-%s" % (p, m) for p in ["C%02d" % i for i in range(1, 20)] for m in ("m1", "m2")} - MISSED
FIX = {
    "C02-m1": "keyId spellings with white space and look-alikes at every position (a line feed after an element); the reference's own pattern ended in $ and accepted the trailing line feed too - corrected",
    "C04-m1": "NOT COUNTED: PROT_INVALID at the brother-list step is a protocol error (unexpected operation / wrong size, bc_advance.c:769-790), not one of the causes the documentation names; -205 and -905 are both in the documented set, so the oracle leaves it free",
    "C04-m2": "status words that stay: every later exchange of the request is answered the same way (an application that is gone), so that diagnostics sent after a failure cannot change the verdict",
    "C06-m1": "genuinely signed element messages of every length around header + key (builder-certs)",
    "C10-m2": "the in-memory file system answers os.path.isdir of the modelled directory (the probe gave up before) and append-mode opens that append nothing leave the file alone",
    "C11-m2": "the link failure as a restart of the device (back in the bootloader, locked) at every exchange of every command; device model: leaving a locked bootloader does not start the signer",
    "C12-m1": "a request the manager does not survive (device answer cut short) before / after answered ones: everybody gets his own reply or none",
    "C12-m2": "the real bring-up inside the scheduled run; sleeping threads and time limits of waits are environment actions that can be taken at any later scheduling point; exchanges of no request may lie between blocks, never inside",
    "C17-m2": "valid signatures with short r / s (builder-admin)",
    "C18-m2": "the answer to each destructive exchange lost after the device applied it (builder-admin)",
}
NEEDS_RE = re.compile(r"(?is)(?:what )?(?:is |it )?(?:need(?:ed|s)?|trigger|manifest)[^\n]*\n(.*?)(?:\n#|\n\*\*[A-Z]|\Z)")
n = 0
for d in sorted(glob.glob(SRC + "/C*/m[12]")):
    pid, m = d.split("/")[-2:]
    new = ("m15" if m == "m1" else "m16") if pid != "C12" else ("m16" if m == "m1" else "m17")
    dst = "/verif/seeded/%s-%s" % (pid, new)
    os.makedirs(dst, exist_ok=True)
    for f in glob.glob(d + "/*"):
        if os.path.isfile(f):
            shutil.copy(f, dst)
    notes = open(d + "/notes.md").read()
    title = notes.strip().splitlines()[0].lstrip("# ").strip()
    title = re.sub(r"^C\d\d\s*[/-]\s*m\d\s*[-—:]+\s*", "", title)
    mm = NEEDS_RE.search(notes)
    needs = " ".join(mm.group(1).split())[:380] if mm else ""
    key = "%s-%s" % (pid, m)
    missed = key not in DETECTED
    meta = {
        "id": "%s-%s" % (pid, new), "round": 8, "property": pid,
        "files_changed": sorted(set(l[6:].strip() for l in open(dst + "/patch.diff") if l.startswith("+++ b/"))),
        "needs_to_manifest": (title + ". " + needs).strip(),
        "confirmed": {"pinned_suite_with_change": "468 passed, 25 errors",
                      "demo": "exit 0 on the clean tree, exit 1 with the change (REPO_DIR=<worktree> /venv/bin/python demo.py)",
                      "how": "tools/seedtest.sh %s %s (scratch worktree under /var/tmp, removed afterwards)" % (pid, new)},
        "detected_by": ("%s quick at first run" % pid) if not missed else ("%s quick: silent" % pid),
        "detected_by_after_strengthening": (pid + " quick after: " + FIX.get(key, "?")) if missed else "-",
        "note": ("missed at first run; " + FIX.get(key, "")) if missed else "detected at first run",
        "origin": "round 8: fresh sub-agent (property text + scratch worktree, nothing from /verif) asked for realistic COMMITS of 20-100 changed lines: m1 a refactoring of the code the property is about with one slip, m2 a legitimate new feature / robustness improvement whose interaction with the existing behaviour breaks the property",
    }
    json.dump(meta, open(dst + "/meta.json", "w"), indent=1)
    n += 1
print("saved", n)
# C04-m15 is outside the property as the oracle reads it
import json as _j
_p = "/verif/seeded/C04-m15/meta.json"
_m = _j.load(open(_p)); _m["expect"] = "not-a-violation"; _j.dump(_m, open(_p, "w"), indent=1)
