#!/venv/bin/python
"""tools/saveseed4.py -- copy the confirmed round-4 seeded changes (/tmp/seed-out7/<ID>/m1,m2) into
/verif/seeded/<ID>-m7,-m8 with meta.json (first-run result and what was strengthened)."""
import glob, json, os, re, shutil
SRC = "/tmp/seed-out7"
MISSED = {"C02-m2", "C05-m1", "C06-m2", "C08-m2", "C09-m1", "C09-m2", "C10-m1", "C10-m2", "C11-m1", "C11-m2", "C13-m1",
          "C14-m1", "C15-m2", "C16-m1", "C16-m2", "C18-m1", "C18-m2", "C19-m1", "C19-m2"}
DETECTED = {"%s-%s" % (p, m) for p in ["C%02d" % i for i in range(1, 20)] for m in ("m1", "m2")} - MISSED
FIX = {
    "C02-m2": "JSON objects whose member names look like valid elements, for every list-typed field",
    "C05-m1": "the policy device may ask for zero bytes (once per header); the empty chunk is the right answer",
    "C06-m2": "binary fields of genuine chains followed / preceded by extra bytes (builder-certs)",
    "C08-m2": "quotes genuinely signed with the binding hash displaced inside the report data (builder-certs, builder-attest)",
    "C09-m1": "PINs whose characters repeat (their positions matter); the PIN the device received at unlock is the one the manager holds (C09 and C10)",
    "C09-m2": "NOT COUNTED: SO_REUSEADDR set after bind shows only on a restart while old connections are in TIME_WAIT (real kernel state, outside the model; same as C12-m10)",
    "C10-m1": "permission bits in the in-memory file system (chmod; the process is not root) and a change forced at every start (two and three changes on one file)",
    "C10-m2": "cases also run in a child interpreter under python -O (assert statements compiled away)",
    "C11-m1": "two faults in a row: a time-out in one request, a link failure at the first exchange of the next",
    "C11-m2": "HID stack model (a device that went away is found again only by a getDongle() after hidapi_exit()); the reconnection must succeed once the device is back",
    "C13-m1": "total and minimum difficulty of every byte length 0..36 (the firmware strips leading zeros on the wire)",
    "C14-m1": "cases also run in a child interpreter under python -O",
    "C15-m2": "UI and Signer reporting different versions, every printed value distinguishable by source (builder-attest)",
    "C16-m1": "spellings combined with defects, every load under a time budget (builder-certs)",
    "C18-m1": "PINs with a non-alphanumeric byte at each position before / after the first letter (builder-admin)",
    "C18-m2": "non-ASCII answers that Unicode transformations map to yes (long s, fullwidth), then no (builder-admin)",
    "C19-m1": "an image given through a symbolic link: the signature belongs next to the path as given (builder-admin)",
    "C19-m2": "image paths that look like other kinds of argument (64 hex characters, 0x-prefixed) (builder-admin)",
    "C16-m2": "element names that are not strings (numbers, null, booleans) in cyclic graphs, under a time budget (builder-certs)",
}
NEEDS_RE = re.compile(r"(?is)(?:what )?(?:is |it )?(?:need(?:ed|s)?|trigger|manifest)[^\n]*\n(.*?)(?:\n#|\n\*\*[A-Z]|\Z)")
n = 0
for d in sorted(glob.glob(SRC + "/C*/m[12]")):
    pid, m = d.split("/")[-2:]
    new = "m13" if m == "m1" else "m14"
    dst = "/verif/seeded/%s-%s" % (pid, new)
    os.makedirs(dst, exist_ok=True)
    for f in glob.glob(d + "/*"):
        if os.path.isfile(f):
            shutil.copy(f, dst)
    notes = open(d + "/notes.md").read()
    title = notes.strip().splitlines()[0].lstrip("# ").strip()
    title = re.sub(r"^C\d\d\s*[/-]\s*m\d\s*[-—:]+\s*", "", title)
    mm = NEEDS_RE.search(notes)
    needs = " ".join(mm.group(1).split())[:380] if mm else ""
    key = "%s-%s" % (pid, m)
    missed = key not in DETECTED
    meta = {
        "id": "%s-%s" % (pid, new), "round": 7, "property": pid,
        "files_changed": sorted(set(l[6:].strip() for l in open(dst + "/patch.diff") if l.startswith("+++ b/"))),
        "needs_to_manifest": (title + ". " + needs).strip(),
        "confirmed": {"pinned_suite_with_change": "468 passed, 25 errors",
                      "demo": "exit 0 on the clean tree, exit 1 with the change (REPO_DIR=<worktree> /venv/bin/python demo.py)",
                      "how": "tools/seedtest.sh %s %s (scratch worktree under /var/tmp, removed afterwards)" % (pid, new)},
        "detected_by": ("%s quick at first run" % pid) if not missed else ("%s quick: silent" % pid),
        "detected_by_after_strengthening": (pid + " quick after: " + FIX.get(key, "?")) if missed else "-",
        "note": ("missed at first run; " + FIX.get(key, "")) if missed else "detected at first run",
        "origin": "round 7: fresh sub-agent (property text + scratch worktree, nothing from /verif) told how the harness works and what rounds 1-6 had tried, asked for yet another kind (interactions of two features, structure rather than value of inputs, Python numeric edge semantics, Unicode, environment dependence, resource lifetime)",
    }
    json.dump(meta, open(dst + "/meta.json", "w"), indent=1)
    n += 1
print("saved", n)
