#!/venv/bin/python
"""tools/savebenign.py -- copy the property-preserving changes (/tmp/ben-out4/<ID>/b1..b3) into /verif/benign/<ID>-bN
with meta.json: which checks were run against them (tools/bentest.sh) and with what result."""
import glob, json, os, re, shutil
n = 0
for d in sorted(glob.glob("/tmp/ben-out4/C*/b[1234]")):
    pid, b = d.split("/")[-2:]
    if not os.path.exists(d + "/patch.diff"):
        continue
    b_new = {"b1": "b10", "b2": "b11", "b3": "b12", "b4": "b13"}[b]
    dst = "/verif/benign/%s-%s" % (pid, b_new)
    os.makedirs(dst, exist_ok=True)
    for f in ("patch.diff", "notes.md"):
        if os.path.exists(d + "/" + f):
            shutil.copy(d + "/" + f, dst)
    log = "/var/tmp/benlogs5/%s-%s.log" % (pid, b)
    checks, first = [], None
    if os.path.exists(log):
        t = open(log).read()
        checks = re.findall(r"check (C\d\d) \(quick\): exit=(\d+)", t)
    notes = open(d + "/notes.md").read().strip().splitlines()
    title = next((l.lstrip("# ").strip() for l in notes if l.strip()), "")
    meta = {"id": "%s-%s" % (pid, b_new), "round": 4, "property": pid,
            "files_changed": sorted(set(l[6:].strip() for l in open(dst + "/patch.diff") if l.startswith("+++ b/"))),
            "what": title,
            "pinned_suite_with_change": "468 passed, 25 errors",
            "checks_run": [c for c, _ in checks],
            "result": "silent (exit 0) on all of them" if checks and all(rc == "0" for _, rc in checks) else
                      "; ".join("%s exit %s" % (c, rc) for c, rc in checks if rc != "0"),
            "how": "tools/bentest.sh %s %s" % (pid, b_new),
            "origin": "fresh sub-agent that saw only the property text and a scratch worktree, asked for realistic, non-trivial changes that PRESERVE the property (restructurings, equivalent library calls, changed texts); nothing from /verif"}
    meta["origin"] = ("round 4: fresh sub-agent (property text + scratch worktree, nothing from /verif) given the four buggy commits "
                      "of seeded rounds 8 and 9 for its property (patch, notes naming the slip, demo) and asked for the CORRECTED commit: "
                      "the same refactoring / feature fully kept, the slip repaired as a careful maintainer would have written it; "
                      "b10 <- m15, b11 <- m16, b12 <- m17, b13 <- m18 (C12: m16..m19)")
    special = {
        ("C09", "b2"): "first run: false alarm of C11 (116 keys, repair-not-retried): the change sends IS_ONBOARD once per connection, the bring-up is one exchange shorter, and C11's 'second fault at exchange 3 of the bring-up' hit the command's own exchange; corrected in c11.py (the index stays inside the bring-up of the tree under test); silent since",
        ("C10", "b2"): "first run: false alarm of C10 (8 keys): the corrected writability probe uses a scratch file <pinfile>.probe, and the oracle took every write in the directory for a change of the PIN file; corrected in c10.py (the statement is about the PIN file itself); silent since",
        ("C10", "b4"): "first run: false alarm of C10 (4 keys): staging file <pinfile>.new written before the acknowledgement and renamed over the PIN file after it - same correction as C10-b11, and a rename is now recorded at its destination; silent since",
        ("C12", "b4"): "first run: false alarm of C12 (2 keys): after the time-out the corrected change drops the connection and repairs it at the next request, but the harness had stubbed initialize_device in these cases, so the repair reconnected nothing; corrected in c12.py (late-answer cases run with the real bring-up); silent since",
        ("C18", "b2"): "first run: false alarm of C18 (2 keys: a mode query between two transfers on DIFFERENT connections taken for an interrupted transfer; the retry's fresh seed looked for in the first window of the random stream only); corrected by builder-admin in c18.py",
    }
    if (pid, b) in special:
        meta["result"] = special[(pid, b)]
    json.dump(meta, open(dst + "/meta.json", "w"), indent=1)
    n += 1
print("saved", n)
