#!/bin/bash
# Offline setup: nothing to build (pure Python); validates the bitcoin.core shim against the
# repository's own recorded vectors and checks that the tables parse from the firmware headers.
set -e
HERE="$(cd "$(dirname "$0")" && pwd)"
cd "$HERE"
mkdir -p evidence replays
export PYTHONHASHSEED=0 PYTHONDONTWRITEBYTECODE=1
REPO="${VERIF_REPO:-/repo}"
# conformance vectors for the shim: the repository's recorded pegout transactions
if ! PYTHONPATH="$HERE/shims" /venv/bin/python -m pytest -q -p no:cacheprovider \
      "$REPO/middleware/tests/comm/test_bitcoin.py" >/tmp/verif_setup_shim.log 2>&1; then
  cat /tmp/verif_setup_shim.log; echo "shim conformance vectors FAILED"; rm -f /tmp/verif_setup_shim.log; exit 2
fi
rm -f /tmp/verif_setup_shim.log
/venv/bin/python -c "
import sys; sys.path.insert(0, '$HERE')
from verif import env; env.install()
import verif.harness
print('setup ok: shim conformance vectors pass, middleware imports with the shim')
"
