"""Version-1 (Ledger) attestation certificates with a real secp256k1 hierarchy
issuer(root) -> device -> attestation -> {ui, signer}; every element really signed,
each link breakable on request (signed by an unrelated key / wrong tweak handling)."""
import json

from . import k1
from . import layout as L

ROLE_DEVICE, ROLE_ENDORSEMENT = 0x02, 0xFF
CHAIN_VARIANTS = ["genuine", "device-link", "attestation-link", "ui-link", "signer-link",
                  "ui-untweaked", "signer-foreign-tweak",
                  # the genuine signature of one element with s replaced by N - s (re-encoded)
                  "device-high-s", "attestation-high-s", "ui-high-s", "signer-high-s"]


def high_s(der):
    from ecdsa.util import sigdecode_der, sigencode_der
    r, s = sigdecode_der(der, k1.N)
    return sigencode_der(r, k1.N - s, k1.N)


class LedgerGen:
    def __init__(self, rng, profile="seeded"):
        self.issuer = k1.Key.from_rng(rng)
        self.other_root = k1.Key.from_rng(rng)
        self.device = k1.Key.from_rng(rng)
        self.attestation = k1.Key.from_rng(rng)
        self.stranger = k1.Key.from_rng(rng)
        self.wallet = [k1.Key.from_rng(rng) for _ in L.PATHS]
        self.alt_wallet = k1.Key.from_rng(rng)
        self.extra_wallet = k1.Key.from_rng(rng)
        self.cert_header = rng.nz_bytes(12)
        # per-field distinct values
        self.ud_ui = rng.nz_bytes(32)
        self.ud_signer = rng.nz_bytes(32)
        self.signer_hash_authorized = rng.nz_bytes(32)
        self.iteration = 0x0100 + (rng.bytes(1)[0] | 1)        # two different bytes
        self.ui_hash = rng.nz_bytes(32)
        self.signer_hash_installed = rng.nz_bytes(32)
        self.best_block = rng.nz_bytes(32)
        self.last_tx = rng.nz_bytes(8)
        self.timestamp = int.from_bytes(rng.nz_bytes(8), "big")
        self.filler = rng.nz_bytes(64)
        sh = lambda x: L.shape(x, profile)       # noqa: E731
        self.ud_ui, self.ud_signer = sh(self.ud_ui), sh(self.ud_signer)
        self.signer_hash_authorized = sh(self.signer_hash_authorized)
        self.iteration = sh((self.iteration, 2))
        self.ui_hash, self.signer_hash_installed = sh(self.ui_hash), sh(self.signer_hash_installed)
        self.best_block, self.last_tx = sh(self.best_block), sh(self.last_tx)
        self.timestamp = sh((self.timestamp, 8))
        self.keys_hash = L.pubkeys_hash({p: k.pub65 for p, k in zip(L.PATHS, self.wallet)})
        self._sigs = {}

    def sign(self, key, msg):
        k = (key.d, msg)
        if k not in self._sigs:
            self._sigs[k] = key.sign(msg)
        return self._sigs[k]

    # -- messages -------------------------------------------------------------------
    def ui_msg(self, header=L.UI_HEADER, key="own", lenmod=0, ud=None, iteration=None):
        pub = self.wallet[0].pub33 if key == "own" else self.alt_wallet.pub33
        m = L.ui_message(header, ud or self.ud_ui, pub, self.signer_hash_authorized,
                         self.iteration if iteration is None else iteration)
        return self.resize(m, lenmod)

    def signer_msg(self, fmt, header, lenmod=0, platform=b"led", keys_hash=None, fill=None,
                   timestamp=None):
        kh = keys_hash or self.keys_hash
        if fmt == "legacy":
            m = L.legacy_message(header, kh)
        else:
            m = L.powhsm_message(header, platform, self.ud_signer, kh, self.best_block,
                                 self.last_tx, self.timestamp if timestamp is None else timestamp)
        return self.resize(m, lenmod, fill)

    def resize(self, m, lenmod, fill=None):
        """lenmod < 0: cut; > 0: append ``fill`` (seeded filler bytes in front if shorter)"""
        if lenmod < 0:
            return m[:lenmod]
        fill = fill or b""
        return m + self.filler[:lenmod - len(fill)] + fill[:lenmod] if lenmod else m

    def edge_keysets(self, rng, edge_bytes, edge_pairs=()):
        """Key sets: name -> (paths, wallet, keys hash carried by the device's message).
        * wallets (differing in the last key only) whose public-keys hash starts / ends with each
          of ``edge_bytes``, or starts with a two-byte prefix matched by ``edge_pairs``
          (name -> predicate on the digest);
        * a wider set whose paths sort differently as strings and as numbers (60' / 137',
          9' / 10'): once with the documented (lexicographic) hash, once with the hash taken in
          numeric component order."""
        out = {"base": (L.PATHS, self.wallet, self.keys_hash)}
        import hashlib
        h = hashlib.sha256()
        for k in self.wallet[:-1]:
            h.update(k.pub65)
        wanted = {}
        for b in edge_bytes:
            wanted["kh-first-%02x" % b] = lambda dg, b=b: dg[0] == b
            wanted["kh-last-%02x" % b] = lambda dg, b=b: dg[-1] == b
        wanted.update(edge_pairs)
        for name, (d, dg) in k1.search_last_key(h, rng.bytes, wanted).items():
            w = self.wallet[:-1] + [k1.Key(d)]
            if L.pubkeys_hash({p: x.pub65 for p, x in zip(L.PATHS, w)}) != dg:
                raise RuntimeError("edge_keysets: libsecp256k1 and ecdsa disagree on a key")
            out[name] = (L.PATHS, w, dg)
        paths = L.PATHS + ["m/44'/60'/0'/0/0", "m/44'/9'/0'/0/0", "m/44'/10'/0'/0/0"]
        wallet = self.wallet + [k1.Key.from_rng(rng) for _ in range(3)]
        keymap = {p: k.pub65 for p, k in zip(paths, wallet)}
        import re

        def numeric(p):
            return [int(c) if c.isdecimal() else c for c in re.split(r"(\d+)", p)]
        hn = hashlib.sha256()
        for p in sorted(paths, key=numeric):
            hn.update(keymap[p])
        if sorted(paths, key=numeric) == sorted(paths):
            raise RuntimeError("the wide key set does not tell the two orders apart")
        out["wide-lexicographic"] = (paths, wallet, L.pubkeys_hash(keymap))
        out["wide-numeric"] = (paths, wallet, hn.digest())
        return out

    # -- certificate ----------------------------------------------------------------
    def elements(self, chain, ui_msg, signer_msg):
        dev_msg = bytes([ROLE_DEVICE]) + self.cert_header + self.device.pub65
        att_msg = bytes([ROLE_ENDORSEMENT]) + self.attestation.pub65
        dev_signer = self.stranger if chain == "device-link" else self.issuer
        att_signer = self.stranger if chain == "attestation-link" else self.device
        base = self.stranger if chain == "ui-link" else self.attestation
        ui_signer = base if chain == "ui-untweaked" else base.tweaked(self.ui_hash)
        base = self.stranger if chain == "signer-link" else self.attestation
        tw = self.ui_hash if chain == "signer-foreign-tweak" else self.signer_hash_installed
        sg_signer = base.tweaked(tw)
        sigs = {"device": self.sign(dev_signer, dev_msg), "attestation": self.sign(att_signer, att_msg),
                "ui": self.sign(ui_signer, ui_msg), "signer": self.sign(sg_signer, signer_msg)}
        if chain.endswith("-high-s"):
            sigs[chain[:-7]] = high_s(sigs[chain[:-7]])
        return {
            "device": {"name": "device", "message": dev_msg.hex(),
                       "signature": sigs["device"].hex(), "signed_by": "root"},
            "attestation": {"name": "attestation", "message": att_msg.hex(),
                            "signature": sigs["attestation"].hex(),
                            "signed_by": "device"},
            "ui": {"name": "ui", "message": ui_msg.hex(),
                   "signature": sigs["ui"].hex(), "signed_by": "attestation",
                   "tweak": self.ui_hash.hex()},
            "signer": {"name": "signer", "message": signer_msg.hex(),
                       "signature": sigs["signer"].hex(),
                       "signed_by": "attestation", "tweak": self.signer_hash_installed.hex()},
        }

    def certificate(self, chain, targets, ui_msg, signer_msg):
        """targets: 'both' | 'both-reversed' | 'no-ui' | 'no-signer' | 'ui-untargeted' |
        'signer-untargeted'."""
        e = self.elements(chain, ui_msg, signer_msg)
        names = ["attestation", "device", "ui", "signer"]
        tg = ["ui", "signer"]
        if targets == "both-reversed":
            tg = ["signer", "ui"]
        elif targets == "no-ui":
            names.remove("ui")
            tg = ["signer"]
        elif targets == "no-signer":
            names.remove("signer")
            tg = ["ui"]
        elif targets == "ui-untargeted":
            tg = ["signer"]
        elif targets == "signer-untargeted":
            tg = ["ui"]
        return {"version": 1, "targets": tg, "elements": [e[n] for n in names]}

    def reference_chain_ok(self, cert, target, root_pub):
        """Independent walk (ecdsa package) root -> device -> attestation -> target."""
        e = {x["name"]: x for x in cert["elements"]}
        if target not in cert["targets"] or target not in e:
            return False
        dev = bytes.fromhex(e["device"]["message"])
        att = bytes.fromhex(e["attestation"]["message"])
        tm = bytes.fromhex(e[target]["message"])
        return (k1.verify(root_pub, dev, bytes.fromhex(e["device"]["signature"]))
                and k1.verify(dev[-65:], att, bytes.fromhex(e["attestation"]["signature"]))
                and k1.verify(att[1:], tm, bytes.fromhex(e[target]["signature"]),
                              bytes.fromhex(e[target]["tweak"])))


def pubkeys_variants(gen, wallet=None, paths=None):
    """name -> (file text | None for 'no such file', reference key map | None, open?)
    The key map is what the file means: path -> raw key bytes."""
    paths = paths or L.PATHS
    wallet = wallet or gen.wallet
    base = {p: k.pub65 for p, k in zip(paths, wallet)}

    def dump(items, enc=lambda p, b: b.hex()):
        return "{\n" + ",\n".join('  %s: "%s"' % (json.dumps(p), enc(p, b)) for p, b in items) + "\n}\n"

    out = {}
    out["same"] = (dump(base.items()), dict(base), False)
    comp = {p: k.pub33 for p, k in zip(paths, wallet)}
    out["compressed"] = (dump(comp.items()), comp, False)
    out["reordered"] = (dump(list(base.items())[::-1]), dict(base), False)
    mixed = {p: (k.pub33 if i % 2 else k.pub65) for i, (p, k) in enumerate(zip(paths, wallet))}
    order = [3, 0, 5, 1, 4, 2] + list(range(6, len(paths)))[::-1]
    out["mixed-shuffled"] = (dump([(paths[i], mixed[paths[i]]) for i in order]), mixed, False)
    out["uppercase-hex"] = (dump(base.items(), lambda p, b: b.hex().upper()), dict(base), False)
    d = dict(base)
    d[paths[4]] = gen.alt_wallet.pub65
    out["one-different"] = (dump(d.items()), d, False)
    d = dict(base)
    d[paths[0]] = gen.alt_wallet.pub65
    out["btc-different"] = (dump(d.items()), d, False)
    d = dict(base)
    del d[paths[5]]
    out["one-missing"] = (dump(d.items()), d, False)
    d = dict(base)
    del d[paths[0]]
    out["btc-missing"] = (dump(d.items()), d, False)
    d = dict(base)
    d["m/44'/2'/0'/0/0"] = gen.extra_wallet.pub65
    out["one-extra"] = (dump(d.items()), d, False)
    d = {("m/44'/137'/9'/0/0" if p == paths[5] else p): b for p, b in base.items()}
    out["renamed-same-order"] = (dump(d.items()), d, False)
    d = dict(base)
    d[paths[4]], d[paths[5]] = base[paths[5]], base[paths[4]]
    out["paths-swapped"] = (dump(d.items()), d, False)
    d = {("m/44'/9'/0'/0/0" if p == paths[1] else p): b for p, b in base.items()}
    out["renamed-order-changed"] = (dump(d.items()), d, False)
    d = dict(base)
    d[paths[2]] = b"\x04" + bytes([0x11]) * 64
    out["key-not-on-curve"] = (dump(d.items()), None, False)
    out["top-level-list"] = (json.dumps([b.hex() for b in base.values()]), None, False)
    out["empty-object"] = ("{}\n", None, False)
    out["not-json"] = ("m/44'/0'/0'/0/0 = 04...\n", None, False)
    out["no-file"] = (None, None, False)
    d = {("m/44h/0h/0h/0/0" if p == paths[0] else p): b for p, b in base.items()}
    out["btc-path-other-spelling"] = (dump(d.items()), d, True)
    return out
