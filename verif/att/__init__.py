"""Generators and reference oracles for the attestation properties (C08, C15).

Nothing in this package imports a middleware module.  Key material, messages,
certificates and envelopes are produced with other libraries than the ones the
code under test uses for the same step:

* version-1 (Ledger, secp256k1): code under test = libsecp256k1 binding,
  here = the pure-python ``ecdsa`` package;
* version-2 (SGX, NIST P-256 / X.509): code under test = ``ecdsa`` for the two SGX
  elements, here = ``cryptography`` (OpenSSL, RFC-6979 deterministic signing).
"""
