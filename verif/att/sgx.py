"""SGX DCAP material: reference envelope codec (sgx_quote_t | signature_len |
sgx_quote_auth_data_t | qe_auth_data | qe_cert_data | custom message -- openenclave
sgxtypes.h / common/sgx/quote.c, firmware hal/sgx/src/trusted/endorsement.c), quote and
report-body builders with per-field distinct values, P-256 / X.509 hierarchies made with
``cryptography`` (the code under test verifies the two SGX elements with ``ecdsa``).
"""
import base64
import datetime
import hashlib
import os
import re
import struct

from cryptography import x509
from cryptography.x509.oid import NameOID
from cryptography.hazmat.primitives import hashes, serialization
from cryptography.hazmat.primitives.asymmetric import ec, utils as asym_utils

from .. import env
from ..xplore import HarnessError
from . import layout as L
from . import seams

P256_N = 0xFFFFFFFF00000000FFFFFFFFFFFFFFFFBCE6FAADA7179E84F3B9CAC2FC632551

# The "now" of every SGX execution: noon (UTC) of the current day, owned through
# admin.certificate_v2's datetime (seams.install_clock) and, because all validity windows keep a
# margin of at least a day around it, equally true for any real clock the code might consult.
CLOCK = seams.today_noon_utc()

AUTH_DATA_LEN = 64 + 64 + L.REPORT_BODY_LEN + 64       # sgx_quote_auth_data_t = 576
PEM_BEGIN = b"-----BEGIN CERTIFICATE-----\n"
PEM_END = b"-----END CERTIFICATE-----\n"


FixedClock = seams.FixedClock
FixedClock.current = CLOCK


# -- keys -----------------------------------------------------------------------------
class P256Key:
    def __init__(self, d, curve=None):
        self.curve = curve or ec.SECP256R1()
        self.priv = ec.derive_private_key(d, self.curve)
        nums = self.priv.public_key().public_numbers()
        self.x = nums.x.to_bytes(32, "big")
        self.y = nums.y.to_bytes(32, "big")
        self.xy = self.x + self.y

    @classmethod
    def from_rng(cls, rng, curve=None):
        return cls(int.from_bytes(rng.bytes(32), "big") % (P256_N - 1) + 1, curve)

    def sign_rs(self, msg):
        """ECDSA-SHA256 over msg, RFC 6979 -> (r, s)."""
        der = self.priv.sign(msg, ec.ECDSA(hashes.SHA256(), deterministic_signing=True))
        return asym_utils.decode_dss_signature(der)

    def sign_raw(self, msg):
        r, s = self.sign_rs(msg)
        return r.to_bytes(32, "big") + s.to_bytes(32, "big")


def verify_raw(xy, msg, rs):
    """Reference check of a raw r||s signature under a raw x||y key (cryptography)."""
    try:
        pub = ec.EllipticCurvePublicNumbers(int.from_bytes(xy[:32], "big"),
                                            int.from_bytes(xy[32:], "big"),
                                            ec.SECP256R1()).public_key()
        pub.verify(asym_utils.encode_dss_signature(int.from_bytes(rs[:32], "big"),
                                                   int.from_bytes(rs[32:], "big")),
                   msg, ec.ECDSA(hashes.SHA256()))
        return True
    except Exception:   # noqa
        return False


def der_sig(rs):
    """raw r||s -> DER (what the firmware's der_encode_signature / the middleware's
    sigencode_der produce: minimal positive INTEGERs)."""
    return asym_utils.encode_dss_signature(int.from_bytes(rs[:32], "big"),
                                           int.from_bytes(rs[32:], "big"))


# -- X.509 ----------------------------------------------------------------------------
def _name(cn):
    return x509.Name([x509.NameAttribute(NameOID.COUNTRY_NAME, "US"),
                      x509.NameAttribute(NameOID.ORGANIZATION_NAME, "Verif SGX"),
                      x509.NameAttribute(NameOID.COMMON_NAME, cn)])


def make_cert(subject_cn, subject_key, issuer_cn, issuer_key, serial, ca,
              not_before=None, not_after=None):
    nb = not_before or (CLOCK - datetime.timedelta(days=400))
    na = not_after or (CLOCK + datetime.timedelta(days=2000))
    b = (x509.CertificateBuilder()
         .subject_name(_name(subject_cn)).issuer_name(_name(issuer_cn))
         .public_key(subject_key.priv.public_key()).serial_number(serial)
         .not_valid_before(nb.replace(tzinfo=None)).not_valid_after(na.replace(tzinfo=None))
         .add_extension(x509.BasicConstraints(ca=ca, path_length=None), critical=True))
    cert = b.sign(issuer_key.priv, hashes.SHA256(), ecdsa_deterministic=True)
    return cert.public_bytes(serialization.Encoding.DER)


def pem_body(der):
    """base64 in 64-column lines (what a .pem file holds between the markers)."""
    b = base64.b64encode(der)
    return b"\n".join(b[i:i + 64] for i in range(0, len(b), 64)) + b"\n"


def pem(der):
    return PEM_BEGIN + pem_body(der) + PEM_END


def pem_chain(ders, terminator=b"\x00"):
    """The qe_cert_data payload as Open Enclave emits it (type 5): PEM certificates, leaf
    first, NUL terminated (cf. the recorded envelope of tests/sgx/test_envelope.py)."""
    return b"".join(pem(d) for d in ders) + terminator


def der_regions(der):
    """Byte ranges of a DER certificate: {'tbs': (a,b), 'alg': (a,b), 'sigbits': (a,b),
    'sigval': (a,b)}; tbs = the whole TBSCertificate TLV, sigval = content of the BIT
    STRING after the unused-bits octet.  Everything else is framing."""
    def tlv(o):
        tag = der[o]
        ln = der[o + 1]
        h = 2
        if ln & 0x80:
            k = ln & 0x7f
            ln = int.from_bytes(der[o + 2:o + 2 + k], "big")
            h = 2 + k
        return tag, o + h, o + h + ln
    _, c0, c1 = tlv(0)
    if c1 != len(der):
        raise HarnessError("der_regions: trailing bytes")
    _, t0, t1 = tlv(c0)
    _, a0, a1 = tlv(t1)
    _, s0, s1 = tlv(a1)
    if s1 != c1:
        raise HarnessError("der_regions: unexpected certificate structure")
    return {"tbs": (c0, t1), "alg": (t1, a1), "sigbits": (a1, s0 + 1), "sigval": (s0 + 1, s1)}


class Hierarchy:
    """root (self-signed) -> [extra intermediates] -> platform CA -> PCK leaf."""

    def __init__(self, rng, extra_intermediates=0, not_before=None, not_after=None):
        """not_before / not_after: validity window of the platform CA and PCK certificates
        (default: wide margins around CLOCK)"""
        nb, na = not_before, not_after
        self.root_key = P256Key.from_rng(rng)
        self.root_der = make_cert("Verif SGX Root CA", self.root_key, "Verif SGX Root CA",
                                  self.root_key, 1, True)
        parent_cn, parent_key = "Verif SGX Root CA", self.root_key
        self.chain = []                        # top-down below the root: (cn, key, der)
        for i in range(extra_intermediates):
            k = P256Key.from_rng(rng)
            cn = "Verif Intermediate %d" % i
            self.chain.append((cn, k, make_cert(cn, k, parent_cn, parent_key, 10 + i, True)))
            parent_cn, parent_key = cn, k
        self.ca_key = P256Key.from_rng(rng)
        self.ca_der = make_cert("Verif SGX PCK Platform CA", self.ca_key, parent_cn, parent_key,
                                2, True, nb, na)
        self.pck_key = P256Key.from_rng(rng)
        self.pck_der = make_cert("Verif SGX PCK Certificate", self.pck_key,
                                 "Verif SGX PCK Platform CA", self.ca_key, 3, False, nb, na)

    def root_pem(self):
        return pem(self.root_der)


# -- structures ---------------------------------------------------------------------
def report_body(rng, mrenclave, mrsigner, report_data):
    """sgx_report_body_t (384 bytes), every field with its own seeded value."""
    rb = (rng.nz_bytes(16)                 # cpusvn
          + rng.nz_bytes(4)                # miscselect
          + rng.nz_bytes(12)               # reserved1
          + rng.nz_bytes(16)               # isvextprodid
          + rng.nz_bytes(16)               # attributes (flags, xfrm)
          + mrenclave
          + rng.nz_bytes(32)               # reserved2
          + mrsigner
          + rng.nz_bytes(32)               # reserved3
          + rng.nz_bytes(64)               # configid
          + rng.nz_bytes(2) + rng.nz_bytes(2) + rng.nz_bytes(2)   # isvprodid, isvsvn, configsvn
          + rng.nz_bytes(42)               # reserved4
          + rng.nz_bytes(16)               # isvfamilyid
          + report_data)
    assert len(rb) == L.REPORT_BODY_LEN, len(rb)
    return rb


def quote_header(rng):
    # version 3, sign_type 2 (ECDSA-256), tee_type 0, qe_svn, pce_svn, uuid, user_data
    return struct.pack("<HHIHH", 3, 2, 0, 10, 15) + rng.nz_bytes(16) + rng.nz_bytes(20)


def build_envelope(f):
    """fields -> bytes.  f: quote(432) signature_len(int) signature(64) attestation_key(64)
    qe_report_body(384) qe_report_body_signature(64) qe_auth_data(bytes) cert_type(int)
    cert_data(bytes) custom_message(bytes)."""
    return (f["quote"] + struct.pack("<I", f["signature_len"]) + f["signature"]
            + f["attestation_key"] + f["qe_report_body"] + f["qe_report_body_signature"]
            + struct.pack("<H", len(f["qe_auth_data"])) + f["qe_auth_data"]
            + struct.pack("<HI", f["cert_type"], len(f["cert_data"])) + f["cert_data"]
            + f["custom_message"])


def parse_envelope(raw, msg_len):
    """Reference parser (inverse of build_envelope).  Raises ValueError."""
    def take(n):
        nonlocal o
        if o + n > len(raw):
            raise ValueError("envelope too short at %d (+%d)" % (o, n))
        v = raw[o:o + n]
        o += n
        return v
    o = 0
    f = {"quote": take(L.QUOTE_LEN)}
    f["signature_len"] = struct.unpack("<I", take(4))[0]
    f["signature"] = take(64)
    f["attestation_key"] = take(64)
    f["qe_report_body"] = take(L.REPORT_BODY_LEN)
    f["qe_report_body_signature"] = take(64)
    f["qe_auth_data"] = take(struct.unpack("<H", take(2))[0])
    f["cert_type"], n = struct.unpack("<HI", take(6))
    f["cert_data"] = take(n)
    f["custom_message"] = take(msg_len)
    if o != len(raw):
        raise ValueError("trailing bytes in envelope")
    return f


def regions(f):
    """name -> (start, end) of every envelope field in build_envelope(f) order."""
    out, o = {}, 0
    for name, n in (("quote", L.QUOTE_LEN), ("signature_len", 4), ("signature", 64),
                    ("attestation_key", 64), ("qe_report_body", L.REPORT_BODY_LEN),
                    ("qe_report_body_signature", 64), ("qe_auth_size", 2),
                    ("qe_auth_data", len(f["qe_auth_data"])), ("cert_type", 2), ("cert_size", 4),
                    ("cert_data", len(f["cert_data"])),
                    ("custom_message", len(f["custom_message"]))):
        out[name] = (o, o + n)
        o += n
    return out


def split_pem_chain(cert_data):
    """-> list of DER certificates in a PEM blob (reference: cryptography's PEM reader)."""
    return [c.public_bytes(serialization.Encoding.DER)
            for c in x509.load_pem_x509_certificates(cert_data.rstrip(b"\x00"))]


def calibrate_recorded_envelope():
    """The builder must reproduce the recorded envelope of tests/sgx/test_envelope.py byte
    for byte from its parsed fields, and the relations this module relies on must hold in it
    (quote signed by the attestation key; QE report signed by the first certificate and
    committing to key||auth data; certificate chain leaf -> CA -> self-signed root)."""
    src = open(os.path.join(env.MIDDLEWARE, "tests", "sgx", "test_envelope.py")).read()
    m = re.search(r'TEST_ENVELOPE = """(.*?)"""', src, re.S)
    m2 = re.search(r'TEST_MESSAGE = "([0-9a-fA-F]+)"', src)
    if m is None or m2 is None:
        raise HarnessError("recorded envelope not found in tests/sgx/test_envelope.py")
    raw = bytes.fromhex("".join(m.group(1).split()))
    msg = bytes.fromhex(m2.group(1))
    f = parse_envelope(raw, len(msg))
    if build_envelope(f) != raw:
        raise HarnessError("envelope builder does not reproduce the recorded envelope")
    if f["custom_message"] != msg:
        raise HarnessError("recorded envelope: custom message is not the tail")
    if f["signature_len"] != len(raw) - L.QUOTE_LEN - 4 - len(msg):
        raise HarnessError("recorded envelope: signature_len")
    probs = []
    if not verify_raw(f["attestation_key"], f["quote"], f["signature"]):
        probs.append("quote signature")
    ders = split_pem_chain(f["cert_data"])
    certs = [x509.load_der_x509_certificate(d) for d in ders]
    n0 = certs[0].public_key().public_numbers()
    if not verify_raw(n0.x.to_bytes(32, "big") + n0.y.to_bytes(32, "big"),
                      f["qe_report_body"], f["qe_report_body_signature"]):
        probs.append("QE report signature")
    rd = f["qe_report_body"][L.RB_REPORT_DATA[0]:L.RB_REPORT_DATA[0] + 32]
    if rd != hashlib.sha256(f["attestation_key"] + f["qe_auth_data"]).digest():
        probs.append("QE report data")
    for i, c in enumerate(certs):
        issuer = certs[min(i + 1, len(certs) - 1)]
        try:
            issuer.public_key().verify(c.signature, c.tbs_certificate_bytes,
                                       ec.ECDSA(c.signature_hash_algorithm))
        except Exception:   # noqa
            probs.append("certificate %d" % i)
        r = der_regions(ders[i])
        if ders[i][r["tbs"][0]:r["tbs"][1]] != c.tbs_certificate_bytes \
                or ders[i][r["sigval"][0]:r["sigval"][1]] != c.signature:
            probs.append("der_regions of certificate %d" % i)
    if pem_chain(ders) != f["cert_data"]:
        probs.append("pem_chain does not reproduce the recorded certificate data")
    if probs:
        raise HarnessError("recorded envelope calibration: " + ", ".join(probs))
    return f


class Enclave:
    """A genuine platform: PCK hierarchy, quoting enclave (attestation key), powHSM enclave
    identity.  ``quote(message)`` yields the envelope Open Enclave would return."""

    def __init__(self, rng, hierarchy, auth_len=32, chain_len=3):
        self.h = hierarchy
        self.att_key = P256Key.from_rng(rng)
        self.auth_data = rng.nz_bytes(auth_len)
        self.chain_len = chain_len
        self.mrenclave = rng.nz_bytes(32)
        self.mrsigner = rng.nz_bytes(32)
        self.qe_mrenclave = rng.nz_bytes(32)
        self.qe_mrsigner = rng.nz_bytes(32)
        self.header = quote_header(rng)
        self.rb_rng_label = rng.bytes(8).hex()
        qe_rd = hashlib.sha256(self.att_key.xy + self.auth_data).digest() + bytes(32)
        self.qe_report_body = report_body(env.Rng("qerb" + self.rb_rng_label), self.qe_mrenclave,
                                          self.qe_mrsigner, qe_rd)
        self.qe_report_sig = self.h.pck_key.sign_raw(self.qe_report_body)
        ders = [self.h.pck_der, self.h.ca_der] + [c[2] for c in reversed(self.h.chain)]
        if chain_len >= 3:
            ders.append(self.h.root_der)
        self.cert_ders = ders
        self.cert_data = pem_chain(ders)

    def fields(self, message):
        rd = hashlib.sha256(message).digest() + bytes(32)
        quote = self.header + report_body(env.Rng("rb" + self.rb_rng_label), self.mrenclave,
                                          self.mrsigner, rd)
        f = {"quote": quote, "signature": self.att_key.sign_raw(quote),
             "attestation_key": self.att_key.xy, "qe_report_body": self.qe_report_body,
             "qe_report_body_signature": self.qe_report_sig, "qe_auth_data": self.auth_data,
             "cert_type": 5, "cert_data": self.cert_data, "custom_message": message}
        f["signature_len"] = AUTH_DATA_LEN + 2 + len(self.auth_data) + 6 + len(self.cert_data)
        return f
