"""secp256k1 keys for the version-1 (Ledger) hierarchy, on the pure-python ``ecdsa``
package (the code under test uses the libsecp256k1 binding).

Endorsement scheme two (docs/attestation.md, "Attestation keypair setup"; Ledger's
endorsementSetup.py): an application signs with
``attestation_private + HMAC-SHA256(key=app_hash, msg=uncompressed attestation pubkey)``.
"""
import hashlib
import hmac

import ecdsa
from ecdsa import SECP256k1, SigningKey, VerifyingKey
from ecdsa.util import sigencode_der_canonize, sigdecode_der

N = SECP256k1.order
G = SECP256k1.generator


class Key:
    def __init__(self, d):
        assert 0 < d < N
        self.d = d
        self.sk = SigningKey.from_secret_exponent(d, SECP256k1, hashfunc=hashlib.sha256)
        vk = self.sk.get_verifying_key()
        self.pub65 = vk.to_string("uncompressed")
        self.pub33 = vk.to_string("compressed")

    @classmethod
    def from_rng(cls, rng):
        return cls(int.from_bytes(rng.bytes(32), "big") % (N - 1) + 1)

    def sign(self, msg):
        """ECDSA over SHA-256(msg), RFC 6979 nonce, strict DER, low S."""
        return self.sk.sign_deterministic(msg, hashfunc=hashlib.sha256,
                                          sigencode=sigencode_der_canonize)

    def tweaked(self, app_hash):
        return Key((self.d + tweak_scalar(self.pub65, app_hash)) % N)


def tweak_scalar(pub65, app_hash):
    return int.from_bytes(hmac.new(app_hash, pub65, hashlib.sha256).digest(), "big")


def parse_pub(raw):
    """-> VerifyingKey or None.  Accepts compressed and uncompressed SEC1 encodings only."""
    if len(raw) == 65 and raw[0] == 4 or len(raw) == 33 and raw[0] in (2, 3):
        try:
            return VerifyingKey.from_string(raw, SECP256k1, hashfunc=hashlib.sha256)
        except Exception:   # noqa  (MalformedPointError)
            return None
    return None


def uncompressed(raw):
    vk = parse_pub(raw)
    return None if vk is None else vk.to_string("uncompressed")


def compressed(raw):
    vk = parse_pub(raw)
    return None if vk is None else vk.to_string("compressed")


def verify(pub, msg, der_sig, tweak=None):
    """Reference verification of one version-1 link.  True / False."""
    vk = parse_pub(pub)
    if vk is None:
        return False
    if tweak is not None:
        t = tweak_scalar(vk.to_string("uncompressed"), tweak)
        if t >= N:
            return False
        pt = vk.pubkey.point + G * t
        vk = VerifyingKey.from_public_point(pt, SECP256k1, hashfunc=hashlib.sha256)
    try:
        return bool(vk.verify(der_sig, msg, hashfunc=hashlib.sha256, sigdecode=sigdecode_der))
    except (ecdsa.BadSignatureError, ecdsa.der.UnexpectedDER, ValueError, AssertionError):
        return False


def fast_pub65(d):
    """uncompressed public key of private value d through libsecp256k1: only for SEARCHES over
    many candidate keys in the generators (the result is re-derived with ``ecdsa`` by Key)"""
    import secp256k1 as lib
    return lib.PrivateKey(d.to_bytes(32, "big"), raw=True).pubkey.serialize(compressed=False)


def search_last_key(prefix_hash, rng_bytes, wanted, limit=400000):
    """Find private values d such that sha256(prefix || pub65(d)) satisfies the predicates in
    ``wanted`` (name -> predicate(digest)); prefix_hash is a hashlib object over the other
    keys.  -> name -> (d, digest)"""
    need = dict(wanted)
    out = {}
    n = 0
    while need:
        n += 1
        if n > limit:
            raise RuntimeError("search_last_key: %r not found" % sorted(need))
        d = int.from_bytes(rng_bytes(32), "big") % (N - 1) + 1
        h = prefix_hash.copy()
        h.update(fast_pub65(d))
        dg = h.digest()
        for name in [k for k, pred in need.items() if pred(dg)]:
            out[name] = (d, dg)
            del need[name]
    return out
