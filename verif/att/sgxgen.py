"""Version-2 (SGX) attestation certificates: root -> platform CA -> PCK (quoting enclave)
-> attestation key -> quote, every element really signed, each link breakable."""
import base64
import datetime
import hashlib

from .. import env
from . import sgx as S
from . import layout as L

CHAIN_VARIANTS = ["genuine", "quote-link", "quote-custom-data", "attestation-link",
                  "attestation-report-data", "qe-cert-link", "ca-cert-link",
                  "qe-cert-expired", "qe-cert-not-yet-valid", "ca-cert-expired",
                  # genuinely signed quotes whose report data carries the custom-data hash
                  # somewhere else than in its first 32 bytes
                  "quote-hash-at-7", "quote-hash-second-half", "quote-hash-second-half-first-other"]


EXTRAS = ["root-word:own-root", "root-word:other-root", "root-word-first:own-root",
          "other-name:own-root", "other-name-linked:own-root", "v1-root-word:own-root",
          "empty-name:own-root"]


def add_extra(cert, extra, own_root_der, other_root_der):
    """An additional element whose name collides with a reserved word of the format (or not):
    'root-word' = named "sgx_root" ('-first': listed before the others); 'v1-root-word' =
    "root"; 'empty-name' = ""; 'other-name' = "shipped_root"; 'other-name-linked' = as before and
    the platform CA names it as its certifier.  ':own-root' = the self-signed root of the
    hierarchy the chain was signed under, ':other-root' = the root of the other hierarchy."""
    if extra is None:
        return cert
    kind, _, which = extra.partition(":")
    der = other_root_der if which == "other-root" else own_root_der
    name = {"root-word": "sgx_root", "root-word-first": "sgx_root", "v1-root-word": "root",
            "other-name": "shipped_root", "other-name-linked": "shipped_root",
            "empty-name": ""}[kind]
    el = {"name": name, "type": "x509_pem", "message": S.pem_body(der).decode().strip(),
          "signed_by": "sgx_root"}
    els = [dict(e) for e in cert["elements"]]
    if kind == "other-name-linked":
        for e in els:
            if e["name"] == "platform_ca":
                e["signed_by"] = name
    els = [el] + els if kind == "root-word-first" else els + [el]
    return dict(cert, elements=els)


class SgxGen:
    def __init__(self, rng, hierarchy=None, profile="seeded"):
        self.h = hierarchy or S.Hierarchy(rng)
        self.other = S.Hierarchy(rng)                 # unrelated hierarchy ("wrong root")
        self.stranger = S.P256Key.from_rng(rng)
        self.enclave = S.Enclave(rng, self.h, auth_len=32, chain_len=3)
        self.ud = rng.nz_bytes(32)
        self.best_block = rng.nz_bytes(32)
        self.last_tx = rng.nz_bytes(8)
        self.timestamp = int.from_bytes(rng.nz_bytes(8), "big")
        self.filler = rng.nz_bytes(64)
        sh = lambda x: L.shape(x, profile)       # noqa: E731
        self.ud, self.best_block, self.last_tx = sh(self.ud), sh(self.best_block), sh(self.last_tx)
        self.timestamp = sh((self.timestamp, 8))
        self.enclave.mrenclave = sh(self.enclave.mrenclave)
        self.enclave.mrsigner = sh(self.enclave.mrsigner)
        h = self.h
        day = datetime.timedelta(days=1)
        self.certs = {
            "pck": h.pck_der, "ca": h.ca_der,
            "pck-stranger-ca": S.make_cert("Verif SGX PCK Certificate", h.pck_key,
                                           "Verif SGX PCK Platform CA", self.stranger, 3, False),
            "ca-stranger-root": S.make_cert("Verif SGX PCK Platform CA", h.ca_key,
                                            "Verif SGX Root CA", self.stranger, 2, True),
            "pck-expired": S.make_cert("Verif SGX PCK Certificate", h.pck_key,
                                       "Verif SGX PCK Platform CA", h.ca_key, 3, False,
                                       S.CLOCK - 30 * day, S.CLOCK - day),
            "pck-future": S.make_cert("Verif SGX PCK Certificate", h.pck_key,
                                      "Verif SGX PCK Platform CA", h.ca_key, 3, False,
                                      S.CLOCK + day, S.CLOCK + 30 * day),
            "ca-expired": S.make_cert("Verif SGX PCK Platform CA", h.ca_key,
                                      "Verif SGX Root CA", h.root_key, 2, True,
                                      S.CLOCK - 30 * day, S.CLOCK - day),
        }
        # a certificate for the right root key that is not self-signed
        self.root_not_selfsigned = S.make_cert("Verif SGX Root CA", h.root_key,
                                               "Verif SGX Root CA", self.stranger, 1, True)

    def message(self, header=L.POWHSM_HEADER, lenmod=0, platform=b"sgx", keys_hash=None, fill=None,
                timestamp=None):
        m = L.powhsm_message(header, platform, self.ud, keys_hash, self.best_block, self.last_tx,
                             self.timestamp if timestamp is None else timestamp)
        if lenmod < 0:
            return m[:lenmod]
        fill = fill or b""
        return m + self.filler[:lenmod - len(fill)] + fill[:lenmod] if lenmod else m

    def certificate(self, chain, targets, message):
        """targets: 'quote' | 'none' | 'attestation-only' | 'no-quote-element'."""
        en = self.enclave
        rd_msg = message if chain != "quote-custom-data" else message[:-1] + bytes([message[-1] ^ 1])
        rd = hashlib.sha256(rd_msg).digest() + bytes(32)
        if chain == "quote-hash-at-7":
            rd = (bytes(7) + hashlib.sha256(message).digest() + bytes(25))
        elif chain == "quote-hash-second-half":
            rd = bytes(32) + hashlib.sha256(message).digest()
        elif chain == "quote-hash-second-half-first-other":
            # commits to another message in the documented place
            other = message[:-1] + bytes([message[-1] ^ 1])
            rd = hashlib.sha256(other).digest() + hashlib.sha256(message).digest()
        quote = en.header + S.report_body(env.Rng("rb" + en.rb_rng_label), en.mrenclave,
                                          en.mrsigner, rd)
        qkey = self.stranger if chain == "quote-link" else en.att_key
        qsig = S.der_sig(qkey.sign_raw(quote))
        qerb = en.qe_report_body
        if chain == "attestation-report-data":
            rd = hashlib.sha256(en.att_key.xy + en.auth_data[:-1] + b"\x00").digest() + bytes(32)
            qerb = qerb[:L.RB_REPORT_DATA[0]] + rd
        akey = self.stranger if chain == "attestation-link" else self.h.pck_key
        asig = S.der_sig(akey.sign_raw(qerb))
        pck = self.certs[{"qe-cert-link": "pck-stranger-ca", "qe-cert-expired": "pck-expired",
                          "qe-cert-not-yet-valid": "pck-future"}.get(chain, "pck")]
        ca = self.certs[{"ca-cert-link": "ca-stranger-root", "ca-cert-expired": "ca-expired"}
                        .get(chain, "ca")]
        els = [
            {"name": "quote", "type": "sgx_quote", "message": quote.hex(),
             "custom_data": message.hex(), "signature": qsig.hex(), "signed_by": "attestation"},
            {"name": "attestation", "type": "sgx_attestation_key", "message": qerb.hex(),
             "key": "04" + en.att_key.xy.hex(), "auth_data": en.auth_data.hex(),
             "signature": asig.hex(), "signed_by": "quoting_enclave"},
            {"name": "quoting_enclave", "type": "x509_pem",
             "message": S.pem_body(pck).decode().strip(), "signed_by": "platform_ca"},
            {"name": "platform_ca", "type": "x509_pem",
             "message": S.pem_body(ca).decode().strip(), "signed_by": "sgx_root"},
        ]
        tg = ["quote"]
        if targets == "none":
            tg = []
        elif targets == "attestation-only":
            tg = ["attestation"]
        elif targets == "no-quote-element":
            els = els[1:]
            tg = ["attestation"]
        return {"version": 2, "targets": tg, "elements": els}, quote

    def roots(self):
        """name -> (file content | None, kind) ; kind: right | wrong | malformed | open"""
        return {
            "right": (S.pem(self.h.root_der), "right"),
            "wrong": (S.pem(self.other.root_der), "wrong"),
            "ca-as-root": (S.pem(self.h.ca_der), "wrong"),
            "garbage-pem": (S.PEM_BEGIN + base64.b64encode(b"not a certificate" * 10) + b"\n"
                            + S.PEM_END, "malformed"),
            "empty-file": (b"", "malformed"),
            "right-key-not-selfsigned": (S.pem(self.root_not_selfsigned), "open"),
        }
