"""Seams of the attestation checks (C08, C15), owned at the level of the LIBRARY as well as at
the level of the names a middleware module happens to import today, so that an equivalent
rewrite of the code under test (``os.urandom`` -> ``secrets.token_bytes`` / ``from os import
urandom``; ``from getpass import getpass`` -> ``import getpass``; ``requests.get`` under another
name; ``datetime.now(UTC)`` -> ``utcnow()`` / ``time.time()``; ``sys.stdin.readline`` ->
``input()``) neither escapes the harness nor makes it raise AttributeError.

Nothing here replaces a module object by a partial stand-in: a stand-in that lacks an
attribute the code starts using tomorrow would be a false alarm.
"""
import contextlib
import datetime
import os
import sys

from .. import env
from ..xplore import HarnessError


# -- randomness -------------------------------------------------------------------------------
class ByteSrc:
    """deterministic source for env.RandomFacade / the os.urandom door: one seeded byte per
    draw below 256, so that urandom(n), token_bytes(n), randbits(8n) give the same bytes"""

    def __init__(self, label):
        self.rng = env.Rng(label)

    def bytes(self, n):
        return self.rng.bytes(n)

    def index(self, n):
        if n <= 256:
            return self.rng.bytes(1)[0] % n
        k = (n.bit_length() + 7) // 8 + 1
        return int.from_bytes(self.rng.bytes(k), "big") % n

    def choice(self, pool):
        pool = list(pool)
        return pool[self.index(len(pool))]


_REAL_URANDOM = os.urandom
_URANDOM = {"streams": None, "default": None}


def _urandom(n):
    """os.urandom: deterministic when some frame of the calling chain is code under test (also
    through libraries it calls: secp256k1.PrivateKey(), ecdsa.SigningKey.generate()), and a run
    has declared its streams; the real thing for everybody else."""
    streams = _URANDOM["streams"]
    if streams is not None:
        f = sys._getframe(1)
        depth = 0
        while f is not None and depth < 12:
            name = f.f_code.co_filename
            if name.startswith(env.MIDDLEWARE):
                base = os.path.splitext(os.path.basename(name))[0]
                src = streams.get(base, _URANDOM["default"])
                if src is not None:
                    return src.bytes(n)
                break
            f = f.f_back
            depth += 1
    return _REAL_URANDOM(n)


def install_urandom():
    """once per process, before the middleware modules are imported"""
    if os.urandom is not _urandom:
        os.urandom = _urandom


@contextlib.contextmanager
def owned_randomness(streams, default, modules):
    """streams: basename of the middleware file that asks -> ByteSrc; ``modules``: (module,
    ByteSrc) whose other doors (random, secrets, from-imports) are bound to the same source"""
    install_urandom()
    saved = dict(_URANDOM)
    _URANDOM["streams"], _URANDOM["default"] = streams, default
    restores = []
    try:
        for mod, src in modules:
            # a name imported from os before the door was installed
            for name, val in list(vars(mod).items()):
                if val is _REAL_URANDOM:
                    setattr(mod, name, src.bytes)
                    restores.append(lambda m=mod, k=name, v=val: setattr(m, k, v))
            restores.append(env.bind_random(mod, src))
        yield
    finally:
        for r in reversed(restores):
            r()
        _URANDOM.update(saved)


# -- names bound to a library object --------------------------------------------------------------
def rebound(modules, original, replacement):
    """(module, name, replacement) for every name in the modules' namespaces that IS ``original``
    (``from getpass import getpass``, ``from sys import stdin``), for env.patched"""
    out = []
    for mod in modules:
        for name, val in list(vars(mod).items()):
            if val is original:
                out.append((mod, name, replacement))
    return out


def operator_patches(modules, stdin, getpass_fn):
    """the operator's terminal: sys.stdin (also for input()), getpass.getpass, and whatever
    names the modules bound to them at import"""
    import getpass as _getpass
    real_stdin = sys.stdin
    return ([(sys, "stdin", stdin), (_getpass, "getpass", getpass_fn)]
            + rebound(modules, real_stdin, stdin) + rebound(modules, sys.__stdin__, stdin)
            + rebound(modules, _getpass.getpass, getpass_fn))


# -- network ----------------------------------------------------------------------------------
class NetworkDown(ConnectionError):
    pass


NETWORK_CALLS = []


def _refuse(*a, **k):
    NETWORK_CALLS.append(repr(a[-1:])[:80])
    raise NetworkDown("network access is not available to the checks")


def install_no_network():
    """every HTTP door raises at once (requests through any name, urllib, http.client), so a root
    of trust given as a URL is an error case whichever client fetches it"""
    import http.client
    import socket
    import urllib.request
    import requests
    import requests.api
    import requests.sessions
    requests.sessions.Session.request = _refuse
    requests.sessions.Session.send = _refuse
    for name in ("get", "post", "request", "head", "put"):
        setattr(requests, name, _refuse)
        setattr(requests.api, name, _refuse)
    urllib.request.urlopen = _refuse
    http.client.HTTPConnection.connect = _refuse
    socket.create_connection = _refuse


# -- clock ------------------------------------------------------------------------------------
def today_noon_utc():
    """The reference instant of the X.509 material: noon (UTC) of the current day.  Certificates
    are generated around it with margins of at least a day, so that a validity test reads the
    same verdict through the owned clock and through any real one (time.time(), a library's own
    notion of now)."""
    now = datetime.datetime.now(datetime.timezone.utc)
    return now.replace(hour=12, minute=0, second=0, microsecond=0)


class FixedClock(datetime.datetime):
    """Stand-in for the ``datetime`` class inside a module: a real subclass, only the doors to
    'now' are answered from ``current``."""
    current = None
    local_offset = datetime.timedelta(0)      # UTC offset of the process time zone

    @classmethod
    def now(cls, tz=None):
        c = cls.current
        if tz is None:
            # naive LOCAL wall clock, as the real datetime.now() gives it
            return (c.astimezone(datetime.timezone.utc) + cls.local_offset).replace(tzinfo=None)
        return c.astimezone(tz)

    @classmethod
    def utcnow(cls):
        return cls.current.astimezone(datetime.timezone.utc).replace(tzinfo=None)

    @classmethod
    def today(cls):
        return cls.now()


class _DatetimeModule:
    """``import datetime`` inside the module: everything of the real module, class replaced"""

    def __init__(self, cls):
        self.datetime = cls

    def __getattr__(self, name):
        return getattr(datetime, name)


def install_clock(module, current):
    """own 'now' in ``module`` whatever form its import of datetime has; no-op if it has none
    (the material is valid around the real time as well)"""
    FixedClock.current = current
    for name, val in list(vars(module).items()):
        if val is datetime.datetime:
            setattr(module, name, FixedClock)
        elif val is datetime:
            setattr(module, name, _DatetimeModule(FixedClock))
    if abs((datetime.datetime.now(datetime.timezone.utc) - current).total_seconds()) > 20 * 3600:
        raise HarnessError("the reference instant is more than 20 h away from the real clock")


ZONES = {"UTC": ("UTC0", datetime.timedelta(0)),
         "UTC-3": ("<-03>3", datetime.timedelta(hours=-3)),
         "UTC+5:30": ("<+0530>-5:30", datetime.timedelta(hours=5, minutes=30))}


@contextlib.contextmanager
def process_zone(name):
    """run with the process time zone ``name`` (TZ + tzset, so that every real door to local
    time agrees with the owned clock's naive now())"""
    import time
    tz, off = ZONES[name]
    old = os.environ.get("TZ")
    old_off = FixedClock.local_offset
    os.environ["TZ"] = tz
    time.tzset()
    FixedClock.local_offset = off
    if abs(-time.timezone - off.total_seconds()) > 1:
        raise HarnessError("time zone %s not in effect (offset %s)" % (tz, -time.timezone))
    try:
        yield
    finally:
        if old is None:
            os.environ.pop("TZ", None)
        else:
            os.environ["TZ"] = old
        time.tzset()
        FixedClock.local_offset = old_off
