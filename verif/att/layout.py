"""Documented layouts of the signed messages (docs/attestation.md) as offset tables,
builders for genuine / deviating messages, the reference public-keys hash and a parser
of what the verify commands print.  Calibrated against the samples of the document.
"""
import hashlib
import json
import os
import re

from .. import env
from ..xplore import HarnessError
from . import k1

# -- docs/attestation.md "UI Attestation" -----------------------------------------
UI_HEADER = b"HSM:UI:5.4"
UI_FIELDS = [("ud_value", 32), ("public_key", 33), ("signer_hash", 32), ("signer_iteration", 2)]
UI_PATH = "m/44'/0'/0'/0/0"

# -- docs/attestation.md "powHSM attestation contents" ------------------------------
POWHSM_HEADER = b"POWHSM:5.4::"
POWHSM_FIELDS = [("platform", 3), ("ud_value", 32), ("public_keys_hash", 32),
                 ("best_block", 32), ("last_signed_tx", 8), ("timestamp", 8)]
POWHSM_LENGTH = len(POWHSM_HEADER) + sum(n for _, n in POWHSM_FIELDS)       # 127

# -- legacy signer message: header + public keys hash (only source: the upstream test
#    tests/admin/test_verify_ledger_attestation.py, LEGACY_SIGNER_HEADER) ------------
LEGACY_HEADER = b"HSM:SIGNER:5.3"
LEGACY_FIELDS = [("public_keys_hash", 32)]

# -- sgx_quote_t / sgx_report_body_t (openenclave sgxtypes.h, referenced by the doc) --
QUOTE_HEADER_LEN = 48
REPORT_BODY_LEN = 384
QUOTE_LEN = QUOTE_HEADER_LEN + REPORT_BODY_LEN
RB_MRENCLAVE = (64, 96)
RB_MRSIGNER = (128, 160)
RB_REPORT_DATA = (320, 384)

# Authorized paths in the firmware's hashing order (pathAuth.c: ordered_paths) ==
# lexicographic order of the path strings (docs/attestation.md).
PATHS = ["m/44'/0'/0'/0/0", "m/44'/1'/0'/0/0", "m/44'/1'/1'/0/0", "m/44'/1'/2'/0/0",
         "m/44'/137'/0'/0/0", "m/44'/137'/1'/0/0"]
PATH_NAMES = {"btc": PATHS[0], "tbtc": PATHS[1], "trsk": PATHS[2], "tmst": PATHS[3],
              "rsk": PATHS[4], "mst": PATHS[5]}


VALUE_PROFILES = ["seeded", "lead00", "lead0n", "zero", "ff"]


def shape(value, profile):
    """boundary shapes of a printed field value (bytes, or (int, width) for numbers):
    first byte 00, first nibble 0, all zero, all ff"""
    if isinstance(value, tuple):
        n, width = value
        return int.from_bytes(shape(n.to_bytes(width, "big"), profile), "big")
    if profile == "lead00":
        return b"\x00" + value[1:]
    if profile == "lead0n":
        return bytes([(value[0] & 0x0f) or 0x07]) + value[1:]
    if profile == "zero":
        return bytes(len(value))
    if profile == "ff":
        return b"\xff" * len(value)
    return value


def offsets(header_len, fields):
    out, o = {}, header_len
    for name, n in fields:
        out[name] = (o, o + n)
        o += n
    return out


def field(msg, header_len, fields, name):
    a, b = offsets(header_len, fields)[name]
    return msg[a:b]


def ui_message(header, ud, pub33, signer_hash, iteration):
    return header + ud + pub33 + signer_hash + iteration.to_bytes(2, "big")


def powhsm_message(header, platform, ud, pkhash, best_block, last_tx, timestamp):
    return header + platform + ud + pkhash + best_block + last_tx + timestamp.to_bytes(8, "big")


def legacy_message(header, pkhash):
    return header + pkhash


def path_binary(path):
    """BIP32 path -> the 21 bytes the firmware keeps (count + 5 little-endian words)."""
    parts = path.split("/")[1:]
    out = bytes([len(parts)])
    for p in parts:
        v = int(p.rstrip("'"))
        if p.endswith("'"):
            v |= 0x80000000
        out += v.to_bytes(4, "little")
    return out


def pubkeys_hash(keymap):
    """Reference of 'SHA-256 of the operator's public keys (uncompressed, in path order)':
    docs/attestation.md: 'lexicographically ordered by their UTF-encoded derivation path'.
    keymap: path(str) -> raw SEC1 key bytes (any of the two standard encodings).
    None if a key is not a valid point."""
    h = hashlib.sha256()
    for path in sorted(keymap, key=lambda p: p.encode("utf-8")):
        u = k1.uncompressed(keymap[path])
        if u is None:
            return None
        h.update(u)
    return h.digest()


# -- what the verify commands print -------------------------------------------------
def parse_output(text):
    """-> list of sections; a section = (title line, {label: [values]}, [raw lines])."""
    sections = []
    cur = None
    for line in text.splitlines():
        if re.fullmatch(r"[-#*]+", line):
            continue
        if cur is None or line.endswith(":") and ("verified with" in line):
            cur = (line, {}, [])
            sections.append(cur)
            if line.endswith(":") and "verified with" in line:
                continue
        cur[2].append(line)
        if ": " in line:
            k, v = line.split(": ", 1)
            cur[1].setdefault(k.strip(), []).append(v.strip())
    return sections


def section(sections, title_part):
    for s in sections:
        if title_part in s[0]:
            return s
    return None


# -- calibration on the document's own samples -----------------------------------------
def doc_samples():
    md = open(os.path.join(env.REPO, "docs", "attestation.md")).read()
    blocks = re.findall(r"```json\n(.*?)```", md, re.S)
    outs = re.findall(r"```\n(#+\n### -> Verify.*?)```", md, re.S)
    if len(blocks) != 2 or len(outs) != 2:
        raise HarnessError("docs/attestation.md: samples not found")
    return json.loads(blocks[0]), json.loads(blocks[1]), outs[0], outs[1]


def calibrate_docs():
    """The offset tables must reproduce, from the document's sample certificates, the values
    of the document's sample outputs wherever the two samples stem from the same run."""
    v1, v2, out1, out2 = doc_samples()
    e1 = {e["name"]: e for e in v1["elements"]}
    e2 = {e["name"]: e for e in v2["elements"]}
    s1 = section(parse_output(out1), "Signer verified")[1]
    s2 = section(parse_output(out2), "powHSM verified")[1]
    problems = []

    def eq(what, a, b):
        if a != b:
            problems.append("%s: %r != %r" % (what, a, b))

    sg = bytes.fromhex(e1["signer"]["message"])
    hl = len(POWHSM_HEADER)
    eq("v1 signer length", len(sg), POWHSM_LENGTH)
    eq("v1 signer header", sg[:hl], POWHSM_HEADER)
    eq("v1 platform", field(sg, hl, POWHSM_FIELDS, "platform").decode(), s1["Platform"][0])
    eq("v1 ud", field(sg, hl, POWHSM_FIELDS, "ud_value").hex(), s1["UD value"][0])
    eq("v1 best block", field(sg, hl, POWHSM_FIELDS, "best_block").hex(), s1["Best block"][0])
    eq("v1 last tx", field(sg, hl, POWHSM_FIELDS, "last_signed_tx").hex(),
       s1["Last transaction signed"][0])
    eq("v1 timestamp", str(int.from_bytes(field(sg, hl, POWHSM_FIELDS, "timestamp"), "big")),
       s1["Timestamp"][0])
    ui = bytes.fromhex(e1["ui"]["message"])
    eq("v1 ui length", len(ui), len(UI_HEADER) + sum(n for _, n in UI_FIELDS))
    eq("v1 ui header family", ui[:7], UI_HEADER[:7])
    eq("v1 ui signer hash == signer tweak",
       field(ui, len(UI_HEADER), UI_FIELDS, "signer_hash").hex(), e1["signer"]["tweak"])
    # chain of the version-1 sample under Ledger's published root (ui valid, see DESIGN 1.3)
    root = bytes.fromhex(re.search(r"-r (04[0-9a-f]{128})", open(
        os.path.join(env.REPO, "docs", "attestation.md")).read()).group(1))
    dev = bytes.fromhex(e1["device"]["message"])
    att = bytes.fromhex(e1["attestation"]["message"])
    eq("v1 device link", k1.verify(root, dev, bytes.fromhex(e1["device"]["signature"])), True)
    eq("v1 attestation link",
       k1.verify(dev[-65:], att, bytes.fromhex(e1["attestation"]["signature"])), True)
    eq("v1 ui link", k1.verify(att[1:], ui, bytes.fromhex(e1["ui"]["signature"]),
                               bytes.fromhex(e1["ui"]["tweak"])), True)

    q = bytes.fromhex(e2["quote"]["message"])
    cd = bytes.fromhex(e2["quote"]["custom_data"])
    eq("v2 quote length", len(q), QUOTE_LEN)
    rb = q[QUOTE_HEADER_LEN:]
    eq("v2 mrenclave", rb[RB_MRENCLAVE[0]:RB_MRENCLAVE[1]].hex(), s2["Installed powHSM MRENCLAVE"][0])
    eq("v2 mrsigner", rb[RB_MRSIGNER[0]:RB_MRSIGNER[1]].hex(), s2["Installed powHSM MRSIGNER"][0])
    eq("v2 report data", rb[RB_REPORT_DATA[0]:RB_REPORT_DATA[0] + 32], hashlib.sha256(cd).digest())
    eq("v2 keys hash", field(cd, hl, POWHSM_FIELDS, "public_keys_hash").hex(), s2["Hash"][0])
    eq("v2 best block", field(cd, hl, POWHSM_FIELDS, "best_block").hex(), s2["Best block"][0])
    eq("v2 platform", field(cd, hl, POWHSM_FIELDS, "platform").decode(), s2["Platform"][0])
    keys = {p: bytes.fromhex(s2[p][0]) for p in PATHS}
    eq("v2 keys hash = sha256(uncompressed keys in path order)", pubkeys_hash(keys).hex(), s2["Hash"][0])
    if problems:
        raise HarnessError("calibration on docs/attestation.md failed: " + "; ".join(problems))


def calibrate_firmware_order():
    """PATHS must be the order in which the firmware hashes the keys (pathAuth.c)."""
    src = open(os.path.join(env.REPO, "firmware", "src", "powhsm", "src", "pathAuth.c")).read()
    names = {}
    for arr in ("authPaths", "noAuthPaths"):
        m = re.search(r"%s\[[^\]]*\]\[[^\]]*\]\s*=\s*\{(.*?)\};" % arr, src, re.S)
        if m is None:
            raise HarnessError("pathAuth.c: %s not found" % arr)
        items = re.findall(r'((?:"[^"]*"\s*)+),?\s*//\s*(\w+)', m.group(1))
        lst = []
        for lit, name in items:
            s = "".join(re.findall(r'"([^"]*)"', lit))
            raw = bytes(int(x, 16) for x in re.findall(r"\\x([0-9a-fA-F]{2})", s))
            lst.append((name, raw))
        names[arr] = lst
    m = re.search(r"ordered_paths\[[^\]]*\]\s*=\s*\{(.*?)\};", src, re.S)
    order = [int(x, 16) for x in re.findall(r"0x([0-9a-fA-F]{4})", m.group(1))]
    got = []
    for o in order:
        arr = names["noAuthPaths" if o & 0xFF00 else "authPaths"]
        got.append(arr[o & 0xFF][1])
    want = [path_binary(p) for p in PATHS]
    if got != want:
        raise HarnessError("firmware key order differs from PATHS: %r" % ([g.hex() for g in got],))
