"""Scripted operator and process environment for the command-line tools of the middleware:
sys.argv, sys.stdin, sys.stdout/stderr, getpass, os.urandom, time.sleep, SystemExit, temp dirs.
Everything is restored afterwards."""
import contextlib
import io
import os
import shutil
import sys
import tempfile

from . import env


class OperatorGone(BaseException):
    """The script of operator input is exhausted (the operator walked away).  BaseException so
    that the tools' ``except Exception`` handlers do not turn it into an ordinary failure."""


class Result:
    __slots__ = ("code", "out", "err", "exc", "gone")

    def __repr__(self):
        return "Result(code=%r exc=%r gone=%r)" % (self.code, self.exc, self.gone)


class ScriptedStdin:
    """readline() answers from a list / callable; raises OperatorGone when exhausted"""

    def __init__(self, lines=(), on_read=None):
        self.lines = list(lines)
        self.read = []
        self.on_read = on_read

    def readline(self, *a):
        if self.on_read is not None:
            self.on_read(self)
        if not self.lines:
            # the script is used up: the input is at end of file ("" for ever); a tool that
            # keeps reading is cut after a few reads
            self.eof_reads = getattr(self, "eof_reads", 0) + 1
            if self.eof_reads > 3:
                raise OperatorGone("stdin at end of file, tool keeps reading")
            self.read.append("")
            return ""
        v = self.lines.pop(0)
        self.read.append(v)
        return v

    def isatty(self):
        return False

    # the other ways of reading a line: input() (uses readline of a non-console stdin),
    # iteration, read()
    def __iter__(self):
        return self

    def __next__(self):
        return self.readline()

    def read(self, *a):
        return self.readline()

    def fileno(self):
        raise OSError("scripted stdin has no file descriptor")


class ByteStream:
    """Recording replacement of os.urandom fed from a seeded generator."""

    def __init__(self, label):
        self.rng = env.Rng(label)
        self.calls = []
        self.origins = []        # per call: file names (relative) of the middleware frames on the stack

    def __call__(self, n):
        b = self.rng.bytes(n)
        self.calls.append(b)
        files = []
        f = sys._getframe(1)
        while f is not None:
            fn = f.f_code.co_filename
            if fn.startswith(env.MIDDLEWARE):
                files.append(fn[len(env.MIDDLEWARE) + 1:])
            f = f.f_back
        self.origins.append(tuple(files))
        return b

    def produced_under(self, include, exclude=()):
        """concatenation of the bytes handed out while a frame of file ``include`` was on the
        stack and none of ``exclude`` was"""
        return b"".join(b for b, o in zip(self.calls, self.origins)
                        if include in o and not any(x in o for x in exclude))


class OsProxy:
    """stands in for the ``os`` module inside one middleware module: only urandom differs"""

    def __init__(self, urandom):
        self.urandom = urandom

    def __getattr__(self, name):
        return getattr(os, name)


class NoSleep:
    def __init__(self):
        self.slept = []

    def sleep(self, n):
        self.slept.append(n)

    def time(self):
        return 1700000000.0

    def __getattr__(self, name):
        import time as _t
        return getattr(_t, name)


# ---------------------------------------------------------------------------
# seams that hold whichever way the code under test spells the call
# ---------------------------------------------------------------------------
_REAL_URANDOM = os.urandom
_REAL_STDOUT = sys.__stdout__
_scan_cache = {}


def _middleware_modules():
    return [m for m in list(sys.modules.values())
            if (getattr(m, "__file__", None) or "").startswith(env.MIDDLEWARE)]


def names_where(tag, pred):
    """(module, name) pairs of the loaded middleware modules whose value satisfies pred; cached
    per number of loaded modules"""
    key = (tag, len(sys.modules))
    if key not in _scan_cache:
        out = []
        for m in _middleware_modules():
            for n, v in list(vars(m).items()):
                try:
                    if pred(n, v):
                        out.append((m, n))
                except Exception:   # noqa
                    pass
        _scan_cache[key] = out
    return _scan_cache[key]


def seam_urandom(stream):
    """os.urandom, the copy the random / secrets modules keep (SystemRandom, token_bytes,
    randbelow...), and every name a middleware module bound to os.urandom (from os import urandom)"""
    import random
    t = [(os, "urandom", stream)]
    if "_urandom" in vars(random):
        t.append((random, "_urandom", stream))
    t += [(m, n, stream) for m, n in names_where("urandom", lambda n, v: v is _REAL_URANDOM)]
    return t


def seam_getpass(fn):
    """getpass.getpass itself and every name bound to it (from getpass import getpass)"""
    import getpass as G
    real = {id(getattr(G, a)) for a in ("getpass", "unix_getpass", "fallback_getpass", "win_getpass")
            if hasattr(G, a)}
    t = [(G, "getpass", fn)]
    t += [(m, n, fn) for m, n in names_where(
        "getpass", lambda n, v: callable(v) and (id(v) in real or
                                                 getattr(v, "__module__", None) == "getpass"))]
    return t


def seam_dongle(get_dongle):
    """ledgerblue.comm.getDongle / commTCP.getDongle and every name bound to one of them"""
    import ledgerblue.comm as LC
    import ledgerblue.commTCP as LCT
    t = [(LC, "getDongle", get_dongle), (LCT, "getDongle", get_dongle)]
    t += [(m, n, get_dongle) for m, n in names_where(
        "getDongle", lambda n, v: callable(v) and getattr(v, "__name__", "") in
        ("getDongle", "_global_get_dongle") and not isinstance(v, type))]
    try:
        import hid

        class _Hid:
            def __getattr__(self, name):
                return (lambda *a, **k: 0) if name == "hidapi_exit" else getattr(hid, name)
        t += [(m, n, _Hid()) for m, n in names_where("hid", lambda n, v: v is hid)]
    except Exception:   # noqa
        pass
    return t


def seam_stdout_names(buf):
    """names a middleware module bound to the real stdout (from sys import stdout)"""
    return [(m, n, buf) for m, n in names_where("stdout", lambda n, v: v is _REAL_STDOUT)]


def run_main(main, argv, stdin=None, patches=(), cwd=None):
    """Call a tool's main() with scripted argv/stdin, capture stdout/stderr and the exit code.
    cwd: working directory for the call (paths given relative to it), restored afterwards."""
    if cwd is not None:
        here = os.getcwd()
        os.chdir(cwd)
        try:
            return run_main(main, argv, stdin, patches)
        finally:
            os.chdir(here)
    r = Result()
    r.code, r.exc, r.gone = None, None, False
    out, err = io.StringIO(), io.StringIO()
    stdin = stdin if stdin is not None else ScriptedStdin([])
    with env.patched((sys, "argv", list(argv)), (sys, "stdin", stdin), *patches,
                     *seam_stdout_names(out)):
        with contextlib.redirect_stdout(out), contextlib.redirect_stderr(err):
            try:
                main()
            except SystemExit as e:
                r.code = e.code if isinstance(e.code, int) else (0 if e.code is None else 1)
            except OperatorGone:
                r.gone = True
            except Exception as e:   # noqa
                r.exc = "%s: %s" % (type(e).__name__, str(e)[:300])
    r.out, r.err = out.getvalue(), err.getvalue()
    return r


def call(fn, *args, patches=(), stdin=None):
    """Call a middleware function with stdout captured; returns (value, exception)."""
    out = io.StringIO()
    stdin = stdin if stdin is not None else ScriptedStdin([])
    with env.patched((sys, "stdin", stdin), *patches):
        with contextlib.redirect_stdout(out):
            try:
                return fn(*args), None, out.getvalue()
            except OperatorGone as e:
                return None, e, out.getvalue()
            except Exception as e:   # noqa
                return None, e, out.getvalue()


_SESSION = {"dir": None, "pid": None}


def _base():
    return "/dev/shm" if os.path.isdir("/dev/shm") and os.access("/dev/shm", os.W_OK) \
        else "/var/tmp"


def init_session(tag):
    """Called once in the parent (Check.prepare): every TempDir of this run lives below one
    directory that the parent removes at exit, also when workers are terminated mid-case."""
    import atexit
    if _SESSION["dir"] is not None and _SESSION["pid"] == os.getpid():
        return _SESSION["dir"]
    d = tempfile.mkdtemp(prefix="vf-%s-session-" % tag, dir=_base())
    _SESSION["dir"], _SESSION["pid"] = d, os.getpid()

    def cleanup(path=d, pid=os.getpid()):
        if os.getpid() == pid:
            shutil.rmtree(path, ignore_errors=True)
    atexit.register(cleanup)
    return d


class TempDir:
    def __init__(self, tag):
        base = _SESSION["dir"] if _SESSION["dir"] and os.path.isdir(_SESSION["dir"]) else _base()
        self.path = tempfile.mkdtemp(prefix="vf-%s-" % tag, dir=base)

    def file(self, name):
        return os.path.join(self.path, name)

    def write(self, name, content):
        p = self.file(name)
        mode = "wb" if isinstance(content, (bytes, bytearray)) else "w"
        with open(p, mode) as f:
            f.write(content)
        return p

    def read(self, name, binary=False):
        try:
            with open(self.file(name), "rb" if binary else "r") as f:
                return f.read()
        except FileNotFoundError:
            return None

    def listing(self):
        return sorted(os.listdir(self.path))

    def walk(self):
        """relative paths of every regular file and symbolic link below the directory"""
        out = []
        for root, dirs, files in os.walk(self.path):
            for n in files:
                out.append(os.path.relpath(os.path.join(root, n), self.path))
        return sorted(out)

    def symlink(self, target_rel, name):
        os.symlink(os.path.join(self.path, target_rel), self.file(name))
        return self.file(name)

    def write_in(self, rel, content):
        p = self.file(rel)
        os.makedirs(os.path.dirname(p), exist_ok=True)
        return self.write(rel, content)

    def clear(self):
        for n in os.listdir(self.path):
            p = os.path.join(self.path, n)
            if os.path.islink(p):
                os.unlink(p)
            elif os.path.isdir(p):
                shutil.rmtree(p, ignore_errors=True)
            else:
                os.unlink(p)

    def close(self):
        shutil.rmtree(self.path, ignore_errors=True)

    def __enter__(self):
        return self

    def __exit__(self, *a):
        self.close()
        return False
