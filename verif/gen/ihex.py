"""Own Intel-HEX writer (from the Intel Hexadecimal Object File Format Specification, rev A)
and the image layouts enumerated by C19.  Never imports middleware or ledgerblue code.

An *image* is a list of (address, bytes) areas, pairwise disjoint.  ``write`` serialises it
with a record-length policy, an emission order for the areas and a few format options.
``reference_hash`` is the oracle: SHA-256 over the area bytes in address order."""
import hashlib


def record(rtype, addr16, data=b""):
    body = bytes([len(data), (addr16 >> 8) & 0xFF, addr16 & 0xFF, rtype]) + bytes(data)
    cks = (-sum(body)) & 0xFF
    return ":" + (body + bytes([cks])).hex().upper()


def reference_hash(areas):
    h = hashlib.sha256()
    for addr, data in sorted(areas, key=lambda a: a[0]):
        h.update(data)
    return h.digest()


def chunk_lengths(total, policy):
    """policy: int (fixed record length) or tuple (cyclic pattern of lengths)"""
    pat = (policy,) if isinstance(policy, int) else tuple(policy)
    out, i = [], 0
    while total > 0:
        n = min(pat[i % len(pat)], total)
        out.append(n)
        total -= n
        i += 1
    return out


def area_records(addr, data, policy):
    """[(absolute address, bytes)] never crossing a 64 KiB border"""
    recs = []
    off = 0
    for n in chunk_lengths(len(data), policy):
        while n > 0:
            a = addr + off
            room = 0x10000 - (a & 0xFFFF)
            m = min(n, room)
            recs.append((a, data[off:off + m]))
            off += m
            n -= m
    return recs


def write(areas, policy=16, order=None, eol="\n", addressing="linear", redundant_zone=False,
          lower=False, reverse_records=False, start_record=False, implicit_zone0=False,
          blank_lines=False, no_final_eol=False):
    """Returns the text of an Intel-HEX file.
    addressing: "linear" (type 04 records) or "segment" (type 02 records, 20-bit addresses).
    redundant_zone: emit the upper-address record before every area even when unchanged.
    reverse_records: records of each area are emitted last-to-first.
    implicit_zone0: no upper-address record while the upper half is 0 (allowed by the format)."""
    order = list(range(len(areas))) if order is None else list(order)
    lines = []
    upper = None
    if implicit_zone0:
        upper = 0
    for idx in order:
        addr, data = areas[idx]
        pol = policy[idx] if isinstance(policy, list) else policy
        recs = area_records(addr, data, pol)
        if reverse_records:
            recs = recs[::-1]
        first = True
        for a, chunk in recs:
            if addressing == "linear":
                up = a >> 16
                if up != upper or (first and redundant_zone):
                    lines.append(record(0x04, 0, up.to_bytes(2, "big")))
                    upper = up
                lines.append(record(0x00, a & 0xFFFF, chunk))
            else:
                seg = (a >> 4) & 0xF000
                if seg != upper or (first and redundant_zone):
                    lines.append(record(0x02, 0, seg.to_bytes(2, "big")))
                    upper = seg
                lines.append(record(0x00, a - (seg << 4), chunk))
            first = False
    if start_record:
        lines.append(record(0x05, 0, (areas[0][0]).to_bytes(4, "big")))
    lines.append(record(0x01, 0))
    if blank_lines:
        lines = [x for ln in lines for x in (ln, "")]
    text = eol.join(lines) + ("" if no_final_eol else eol)
    return text.lower() if lower else text


LENGTHS = [1, 15, 16, 17, 255, 256, 300]
GAPS = [0, 1, 4096]
POLICIES = [1, 2, 16, 32, 255, (16, 1, 32, 2, 255)]
ZONE = 0xC0D0                       # where Ledger apps live; zone border at ZONE+1


def layouts(nareas, lengths=LENGTHS, gaps=GAPS):
    """All (lengths tuple, gaps tuple, placement) of ``nareas`` areas.
    placement: "low"   everything inside one zone (starts at offset 0x0100),
               "cross" the LAST area straddles the zone border,
               "gap"   the zone border lies between the last two areas (single area: area
                       starts exactly at the border),
               "end"   the last area ends exactly at the zone border."""
    import itertools
    for ls in itertools.product(lengths, repeat=nareas):
        for gs in itertools.product(gaps, repeat=nareas - 1):
            for pl in ("low", "cross", "gap", "end"):
                if pl == "cross" and ls[-1] < 2:
                    continue
                yield ls, gs, pl


def place(ls, gs, placement, zone=ZONE):
    """start addresses of the areas of a layout"""
    rel = [0]
    for i in range(1, len(ls)):
        rel.append(rel[-1] + ls[i - 1] + gs[i - 1])
    border = (zone + 1) << 16
    if placement == "low":
        base = (zone << 16) + 0x0100
    elif placement == "cross":
        base = border - rel[-1] - (ls[-1] // 2)
    elif placement == "gap":
        base = border - rel[-1]          # last area starts exactly at the border
    else:
        base = border - rel[-1] - ls[-1]
    return [base + r for r in rel]


def build(ls, gs, placement, rng_bytes, zone=ZONE):
    """image = [(addr, data)]; rng_bytes(n) supplies content"""
    addrs = place(ls, gs, placement, zone)
    return [(a, rng_bytes(n)) for a, n in zip(addrs, ls)]
