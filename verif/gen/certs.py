"""Generators of attestation certificates whose private keys the harness controls
(shared by C06, C07, C16).  Nothing here imports a middleware module.

Version 1: secp256k1 hierarchy  root -> device -> attestation -> ui / signer  (or any other
parent relation): every element E owns a *certifier key* K_E whose public key is embedded in E's
message at the place docs/attestation.md ``extract`` takes it from; E's message is signed by the
key of its ``signed_by`` (the root key for "root"), tweaked as Ledger's endorsement scheme two
does when E declares a tweak:  d' = d + HMAC-SHA256(tweak, uncompressed_pub(d))  mod n.

Version 2: P-256 (or other curve) X.509 chain built with `cryptography` (deterministic ECDSA),
sgx_attestation_key element (report body whose report data starts with SHA-256(x||y||auth data))
signed by the leaf certificate's key, sgx_quote element (report data starts with
SHA-256(custom data)) signed by the attestation key.
"""
import base64
import copy
import hashlib
import hmac
import io
from datetime import datetime, timedelta, timezone

import secp256k1 as _k1

from ..env import Rng

N_K1 = 0xFFFFFFFFFFFFFFFFFFFFFFFFFFFFFFFEBAAEDCE6AF48A03BBFD25E8CD0364141
V1_NAMES = ("device", "attestation", "ui", "signer")


# --------------------------------------------------------------------------------------
# in-memory files for the module-level ``open`` of admin.certificate_v1
# --------------------------------------------------------------------------------------
class _WFile(io.StringIO):
    def __init__(self, fs, path):
        super().__init__()
        self._fs, self._path = fs, path

    def close(self):
        if not self.closed:
            self._fs.files[self._path] = self.getvalue()
        super().close()


class MemFS:
    def __init__(self):
        self.files = {}

    def open(self, path, mode="r", *a, **k):
        if "w" in mode:
            return _WFile(self, path)
        if path not in self.files:
            raise FileNotFoundError(path)
        return io.StringIO(self.files[path])


# --------------------------------------------------------------------------------------
# version 1
# --------------------------------------------------------------------------------------
def k1_priv(d):
    return _k1.PrivateKey(d.to_bytes(32, "big"), raw=True)


def k1_pub(d, compressed=False):
    return k1_priv(d).pubkey.serialize(compressed=compressed)


def k1_sign(d, message, digest=hashlib.sha256):
    pk = k1_priv(d)
    return pk.ecdsa_serialize(pk.ecdsa_sign(message, digest=digest))


def k1_tweaked(d, tweak):
    t = int.from_bytes(hmac.new(tweak, k1_pub(d), hashlib.sha256).digest(), "big")
    return (d + t) % N_K1


class V1World:
    """Keys, messages and tweaks of one seeded version-1 universe."""

    def __init__(self, label="v1"):
        rng = Rng("certs-" + label)
        self.priv = {}
        for who in V1_NAMES + ("root", "stranger", "stranger2"):
            self.priv[who] = int.from_bytes(rng.bytes(32), "big") % (N_K1 - 1) + 1
        self.tweak = {n: rng.bytes(32) for n in V1_NAMES}
        self.prefix = rng.bytes(8)
        self.leafmsg = {
            "ui": b"HSM:UI:5.4" + rng.bytes(32) + b"\x02" + rng.bytes(32) + rng.bytes(32) + b"\x00\x01",
            "signer": b"POWHSM:5.4::led" + rng.bytes(32) + rng.bytes(32) + rng.bytes(32)
                      + rng.bytes(8) + bytes(8),
        }
        self._sig = {}

    def pub(self, who, compressed=False):
        return k1_pub(self.priv[who], compressed)

    def message(self, name, certifies):
        """Message of element `name`; `certifies` = some element names it as signed_by."""
        pub = self.pub(name)
        if name == "device":
            return self.prefix + pub
        if name == "attestation":
            return b"\xff" + pub
        if certifies:
            return pub
        return self.leafmsg[name]

    def sign(self, signer, tweak, message):
        """signer: a key name; tweak: bytes or None."""
        k = (signer, tweak, message)
        s = self._sig.get(k)
        if s is None:
            d = self.priv[signer]
            if tweak is not None:
                d = k1_tweaked(d, tweak)
            s = k1_sign(d, message)
            self._sig[k] = s
        return s

    def element(self, name, signed_by, tweaked, certifies, signer=None, sign_tweaked=None,
                message=None):
        """One genuine element (or one signed by `signer` / with the opposite tweak use)."""
        msg = self.message(name, certifies) if message is None else message
        tw = self.tweak[name] if tweaked else None
        skey = signer if signer is not None else (signed_by if signed_by in self.priv else "stranger")
        use_tw = tweaked if sign_tweaked is None else sign_tweaked
        sig = self.sign(skey, self.tweak[name] if use_tw else None, msg)
        e = {"name": name, "message": msg.hex(), "signature": sig.hex(), "signed_by": signed_by}
        if tw is not None:
            e["tweak"] = tw.hex()
        return e

    def doc(self, shape, targets):
        """shape: list of (name, signed_by, tweaked) in file order."""
        parents = {sb for _, sb, _ in shape}
        els = [self.element(n, sb, tw, n in parents) for n, sb, tw in shape]
        return {"version": 1, "targets": list(targets), "elements": els}


# spellings of a hex string that bytes.fromhex (hence the loader) accepts for the same bytes
HEX_SPELLINGS = {
    "upper": str.upper,
    "spaced": lambda h: " ".join(h[i:i + 2] for i in range(0, len(h), 2)),
    "lead2": lambda h: "  " + h,
    "trail": lambda h: h + " ",
    "mixed": lambda h: "\t" + h[:2].upper() + " " + h[2:4] + "\n" + h[4:] + "\r\n",
}

# spellings of a base64 string that the standard (non-validating) decoder accepts for the same bytes
B64_SPELLINGS = {
    "lines64": lambda b: "\n".join(b[i:i + 64] for i in range(0, len(b), 64)),
    "lead-trail": lambda b: "  " + b + " \n",
    "crlf76": lambda b: "\r\n".join(b[i:i + 76] for i in range(0, len(b), 76)) + "\r\n",
}


def k1_hybrid(pub65):
    """hybrid SEC1 encoding (06 / 07 by the parity of y) of an uncompressed secp256k1 / P-256 point"""
    return bytes([6 + (pub65[-1] & 1)]) + pub65[1:]


def flip(b, i, bit):
    b = bytearray(b)
    b[i] ^= 1 << bit
    return bytes(b)


def positions(n, thorough, stride):
    """Byte positions for single-bit corruptions: every byte (thorough) or first, last and
    every `stride`-th."""
    if thorough or n <= 2:
        return list(range(n))
    s = set(range(0, n, stride))
    s.add(n - 1)
    return sorted(s)


def high_s(sig_der, order):
    from ..refs.certref import der_sig_parse, der_sig_encode
    r, s, _ = der_sig_parse(sig_der)
    return der_sig_encode(r, order - s)


def padded_der(sig_der):
    """Same (r, s), non-canonical DER: r with one more leading zero byte."""
    from ..refs.certref import der_sig_parse
    r, s, _ = der_sig_parse(sig_der)

    def enc(v, pad):
        b = v.to_bytes((v.bit_length() + 7) // 8 or 1, "big")
        if b[0] & 0x80:
            b = b"\x00" + b
        b = b"\x00" * pad + b
        return b"\x02" + bytes([len(b)]) + b
    body = enc(r, 1) + enc(s, 0)
    return b"\x30" + bytes([len(body)]) + body


# --------------------------------------------------------------------------------------
# version 2
# --------------------------------------------------------------------------------------
T0 = datetime(2031, 5, 17, 12, 0, 0, tzinfo=timezone.utc)
V2_ROOT = "sgx_root"


def _curve(name):
    from cryptography.hazmat.primitives.asymmetric import ec
    return {"p256": ec.SECP256R1, "p384": ec.SECP384R1, "k1": ec.SECP256K1}[name]()


def _hash(name):
    from cryptography.hazmat.primitives import hashes
    return {"sha256": hashes.SHA256, "sha384": hashes.SHA384}[name]()


def pem_of(der):
    b = base64.b64encode(der).decode()
    lines = [b[i:i + 64] for i in range(0, len(b), 64)]
    return "-----BEGIN CERTIFICATE-----\n" + "\n".join(lines) + "\n-----END CERTIFICATE-----\n"


class V2World:
    """Seeded keys and cached X.509 certificates."""

    def __init__(self, label="v2"):
        self.label = "certs-" + label
        self._keys = {}
        self._certs = {}
        self.rng = Rng(self.label + "-bytes")
        self._serial = 1000

    def key(self, name, curve="p256"):
        from cryptography.hazmat.primitives.asymmetric import ec
        k = self._keys.get((name, curve))
        if k is None:
            d = int.from_bytes(Rng("%s-key-%s-%s" % (self.label, name, curve)).bytes(31), "big") | 1
            k = ec.derive_private_key(d, _curve(curve))
            self._keys[(name, curve)] = k
        return k

    def point(self, name, curve="p256", fmt="uncompressed"):
        from cryptography.hazmat.primitives.serialization import Encoding, PublicFormat
        pub = self.key(name, curve).public_key()
        if fmt == "compressed":
            return pub.public_bytes(Encoding.X962, PublicFormat.CompressedPoint)
        u = pub.public_bytes(Encoding.X962, PublicFormat.UncompressedPoint)
        if fmt == "hybrid":
            return k1_hybrid(u)
        return u[1:] if fmt == "raw" else u

    def cert(self, subject, issuer, nb, na, scurve="p256", icurve="p256", hash_name="sha256",
             subject_key=None, issuer_cn=None):
        """DER certificate for key `subject` issued (signed) by key `issuer`."""
        from cryptography import x509
        from cryptography.x509.oid import NameOID
        ck = (subject, issuer, nb, na, scurve, icurve, hash_name, subject_key, issuer_cn)
        c = self._certs.get(ck)
        if c is not None:
            return c
        from cryptography.hazmat.primitives.serialization import Encoding
        skey = self.key(subject_key or subject, scurve).public_key()
        ikey = self.key(issuer, icurve)
        serial = 1000 + int.from_bytes(hashlib.sha256(repr(ck).encode()).digest()[:6], "big")
        b = (x509.CertificateBuilder()
             .subject_name(x509.Name([x509.NameAttribute(NameOID.COMMON_NAME, "verif " + subject)]))
             .issuer_name(x509.Name([x509.NameAttribute(NameOID.COMMON_NAME,
                                                        "verif " + (issuer_cn or issuer))]))
             .public_key(skey).serial_number(serial)
             .not_valid_before(nb).not_valid_after(na)
             .add_extension(x509.BasicConstraints(ca=True, path_length=None), critical=True))
        c = b.sign(ikey, _hash(hash_name), ecdsa_deterministic=True).public_bytes(Encoding.DER)
        self._certs[ck] = c
        return c

    def ec_sign(self, name, data, curve="p256"):
        from cryptography.hazmat.primitives.asymmetric import ec
        from cryptography.hazmat.primitives import hashes
        return self.key(name, curve).sign(
            data, ec.ECDSA(hashes.SHA256(), deterministic_signing=True))

    # ---- SGX elements -----------------------------------------------------------------
    def report_body(self, report_data_head, tag):
        r = Rng("%s-rb-%s" % (self.label, tag))
        body = bytearray(r.nz_bytes(384))
        # every field differs from every other field of its size (swapped struct rows must show):
        # miscselect (uint32) vs the quote's tee_type; the three uint16 isvprodid/isvsvn/configsvn
        # get distinct high nibbles, the two uint64 attributes distinct top bytes
        body[16 + 3] = 0x5A
        body[48 + 7], body[56 + 7] = 0x11, 0x22
        body[256 + 1] = 0x10 | (body[256 + 1] & 0x0F)
        body[258 + 1] = 0x20 | (body[258 + 1] & 0x0F)
        body[260 + 1] = 0x30 | (body[260 + 1] & 0x0F)
        for i, off in enumerate((0, 32, 304)):            # 16-byte fields
            body[off] = 0xA0 + i
        for i, off in enumerate((64, 96, 128, 160)):      # 32-byte fields
            body[off] = 0xB0 + i
        body[320:384] = report_data_head + r.nz_bytes(64 - len(report_data_head))
        return bytes(body)

    def att_element(self, name, signed_by, signer, key_name="attkey", auth=None, key_fmt="uncompressed",
                    extra=b"", signer_curve="p256"):
        if auth is None:
            auth = bytes(range(32))
        raw = self.point(key_name, fmt="raw")
        msg = self.report_body(hashlib.sha256(raw + auth).digest(), "att-%s-%d" % (key_name, len(auth))) + extra
        sig = self.ec_sign(signer, msg, signer_curve)
        return {"name": name, "type": "sgx_attestation_key", "message": msg.hex(),
                "key": self.point(key_name, fmt=key_fmt).hex(), "auth_data": auth.hex(),
                "signature": sig.hex(), "signed_by": signed_by}

    def quote_element(self, name, signed_by, signer, custom=None, extra=b"", signer_curve="p256", ints=None):
        """ints: {(offset, width): value} written little-endian into the quote before signing."""
        if custom is None:
            r = Rng(self.label + "-custom")
            custom = b"POWHSM:5.4::sgx" + r.bytes(32) + r.bytes(32) + r.bytes(32) + r.bytes(8) + bytes(8)
        r = Rng(self.label + "-quotehead")
        # version, sign_type, tee_type, qe_svn, pce_svn all different; uuid / user_data non-zero
        head = b"\x03\x00\x02\x00" + b"\x81\x00\x00\x7b" + b"\x0a\x00\x0f\x00" + b"\xa9" + r.nz_bytes(15) \
            + r.nz_bytes(20)
        assert len(head) == 48
        msg = head + self.report_body(hashlib.sha256(custom).digest(), "quote-%d" % len(custom)) + extra
        if ints:
            m = bytearray(msg)
            for (off, width), val in ints.items():
                m[off:off + width] = val.to_bytes(width, "little")
            msg = bytes(m)
        sig = self.ec_sign(signer, msg, signer_curve)
        return {"name": name, "type": "sgx_quote", "message": msg.hex(), "custom_data": custom.hex(),
                "signature": sig.hex(), "signed_by": signed_by}

    @staticmethod
    def x509_element(name, signed_by, der):
        return {"name": name, "type": "x509_pem", "message": base64.b64encode(der).decode(),
                "signed_by": signed_by}

    # ---- whole chains -----------------------------------------------------------------
    X509_NAMES = ("platform_ca", "inter_ca", "quoting_enclave")

    def chain(self, depth=2, nest="wide-top", auth=None, curves=None, hashes_=None, custom=None,
              root_curve="p256", root_key="root", leaf_window=None, key_fmt="uncompressed"):
        """root -> (depth-1) CA certificates -> leaf certificate -> attestation key -> quote.

        -> (doc, root_pem, meta); meta["x509"] = [(element name, not_before, not_after)] top first.
        curves / hashes_: per X.509 level (top first) curve of the subject key / hash used by its issuer.
        """
        names = {1: ["quoting_enclave"], 2: ["platform_ca", "quoting_enclave"],
                 3: ["platform_ca", "inter_ca", "quoting_enclave"]}[depth]
        curves = curves or ["p256"] * depth
        hashes_ = hashes_ or ["sha256"] * depth
        day = timedelta(days=1)
        root_der = self.cert(root_key, root_key, T0 - 4000 * day, T0 + 4000 * day,
                             scurve=root_curve, icurve=root_curve)
        els, meta = [], []
        issuer, icurve = root_key, root_curve
        for i, n in enumerate(names):
            span = (40 - 10 * i) if nest == "wide-top" else (10 + 10 * i)
            nb, na = T0 - span * day, T0 + span * day
            if leaf_window is not None and i == len(names) - 1:
                nb, na = leaf_window
            der = self.cert(n, issuer, nb, na, scurve=curves[i], icurve=icurve, hash_name=hashes_[i])
            els.append(self.x509_element(n, V2_ROOT if i == 0 else names[i - 1], der))
            meta.append((n, nb, na))
            issuer, icurve = n, curves[i]
        att = self.att_element("attestation", names[-1], names[-1], auth=auth, signer_curve=curves[-1],
                               key_fmt=key_fmt)
        quote = self.quote_element("quote", "attestation", "attkey", custom=custom)
        doc = {"version": 2, "targets": ["quote"],
               "elements": [quote, att] + list(reversed(els))}
        return doc, pem_of(root_der), {"x509": meta, "root_der": root_der}


def clone(doc):
    return copy.deepcopy(doc)


def element_of(doc, name):
    for e in doc["elements"]:
        if e["name"] == name:
            return e
    raise KeyError(name)
