"""Generators of attestation certificates whose private keys the harness controls
(shared by C06, C07, C16).  Nothing here imports a middleware module.

Version 1: secp256k1 hierarchy  root -> device -> attestation -> ui / signer  (or any other
parent relation): every element E owns a *certifier key* K_E whose public key is embedded in E's
message at the place docs/attestation.md ``extract`` takes it from; E's message is signed by the
key of its ``signed_by`` (the root key for "root"), tweaked as Ledger's endorsement scheme two
does when E declares a tweak:  d' = d + HMAC-SHA256(tweak, uncompressed_pub(d))  mod n.

Version 2: P-256 (or other curve) X.509 chain built with `cryptography` (deterministic ECDSA),
sgx_attestation_key element (report body whose report data starts with SHA-256(x||y||auth data))
signed by the leaf certificate's key, sgx_quote element (report data starts with
SHA-256(custom data)) signed by the attestation key.
"""
import base64
import copy
import hashlib
import hmac
import io
from datetime import datetime, timedelta, timezone

import secp256k1 as _k1

from ..env import Rng

N_K1 = 0xFFFFFFFFFFFFFFFFFFFFFFFFFFFFFFFEBAAEDCE6AF48A03BBFD25E8CD0364141
V1_NAMES = ("device", "attestation", "ui", "signer")


# --------------------------------------------------------------------------------------
# in-memory files for the module-level ``open`` of admin.certificate_v1
# --------------------------------------------------------------------------------------
class _WFile(io.StringIO):
    def __init__(self, fs, path):
        super().__init__()
        self._fs, self._path = fs, path

    def close(self):
        if not self.closed:
            self._fs.files[self._path] = self.getvalue()
        super().close()


class MemFS:
    def __init__(self):
        self.files = {}

    def open(self, path, mode="r", *a, **k):
        if "w" in mode:
            return _WFile(self, path)
        if path not in self.files:
            raise FileNotFoundError(path)
        return io.StringIO(self.files[path])


# --------------------------------------------------------------------------------------
# version 1
# --------------------------------------------------------------------------------------
def k1_priv(d):
    return _k1.PrivateKey(d.to_bytes(32, "big"), raw=True)


def k1_pub(d, compressed=False):
    return k1_priv(d).pubkey.serialize(compressed=compressed)


def k1_sign(d, message, digest=hashlib.sha256):
    pk = k1_priv(d)
    return pk.ecdsa_serialize(pk.ecdsa_sign(message, digest=digest))


def k1_tweaked(d, tweak):
    t = int.from_bytes(hmac.new(tweak, k1_pub(d), hashlib.sha256).digest(), "big")
    return (d + t) % N_K1


class V1World:
    """Keys, messages and tweaks of one seeded version-1 universe."""

    def __init__(self, label="v1", zero=None):
        """zero: None, "x" or "y": every public key of the world has a leading zero byte in that
        coordinate (found by search)."""
        rng = Rng("certs-" + label)
        self.label = label
        self.priv = {}
        for who in V1_NAMES + ("root", "stranger", "stranger2"):
            while True:
                d = int.from_bytes(rng.bytes(32), "big") % (N_K1 - 1) + 1
                pub = k1_pub(d)
                if zero is None or (zero == "x" and pub[1] == 0) or (zero == "y" and pub[33] == 0):
                    break
            self.priv[who] = d
        self._zero_tweaks = {}
        self._found = {}
        self.tweak = {n: rng.bytes(32) for n in V1_NAMES}
        self.prefix = rng.bytes(8)
        self.leafmsg = {
            "ui": b"HSM:UI:5.4" + rng.bytes(32) + b"\x02" + rng.bytes(32) + rng.bytes(32) + b"\x00\x01",
            "signer": b"POWHSM:5.4::led" + rng.bytes(32) + rng.bytes(32) + rng.bytes(32)
                      + rng.bytes(8) + bytes(8),
        }
        self._sig = {}

    def pub(self, who, compressed=False):
        return k1_pub(self.priv[who], compressed)

    def message(self, name, certifies):
        """Message of element `name`; `certifies` = some element names it as signed_by."""
        pub = self.pub(name)
        if name == "device":
            return self.prefix + pub
        if name == "attestation":
            return b"\xff" + pub
        if certifies:
            return pub
        return self.leafmsg[name]

    # ---- derived values with leading zero bytes, found by search (cached) ------------------------
    def zero_tweak(self, signer, nzeros=1):
        """A tweak whose HMAC-SHA256(tweak, uncompressed key of `signer`) starts with `nzeros` zero
        bytes (the tweak scalar is then shorter than 32 bytes as an integer)."""
        k = (signer, nzeros)
        t = self._zero_tweaks.get(k)
        if t is None:
            pub = self.pub(signer)
            i = 0
            while True:
                t = hashlib.sha256(("%s|zero-tweak|%s|%d" % (self.label, signer, i)).encode()).digest()
                if hmac.digest(t, pub, "sha256")[:nzeros] == bytes(nzeros):
                    break
                i += 1
            self._zero_tweaks[k] = t
        return t

    def searched_message(self, name, signer, tweak, what, make):
        """First message make(i), i = 0.., whose derived value has a leading zero byte:
        what = "r" / "s" (of the deterministic signature by `signer`) or "digest" (SHA-256 of the
        message).  -> message or None when 2000 tries do not find one."""
        k = (name, signer, tweak, what)
        if k in self._found:
            return self._found[k]
        from ..refs.certref import der_sig_parse
        found = None
        for i in range(2000):
            m = make(i)
            if what == "digest":
                ok = hashlib.sha256(m).digest()[0] == 0
            else:
                r, s_, _ = der_sig_parse(self.sign(signer, tweak, m))
                ok = (r if what == "r" else s_) < (1 << 248)
            if ok:
                found = m
                break
        self._found[k] = found
        return found

    def sign(self, signer, tweak, message):
        """signer: a key name; tweak: bytes or None."""
        k = (signer, tweak, message)
        s = self._sig.get(k)
        if s is None:
            d = self.priv[signer]
            if tweak is not None:
                d = k1_tweaked(d, tweak)
            s = k1_sign(d, message)
            self._sig[k] = s
        return s

    def element(self, name, signed_by, tweaked, certifies, signer=None, sign_tweaked=None,
                message=None):
        """One genuine element (or one signed by `signer` / with the opposite tweak use)."""
        msg = self.message(name, certifies) if message is None else message
        tw = self.tweak[name] if tweaked else None
        skey = signer if signer is not None else (signed_by if signed_by in self.priv else "stranger")
        use_tw = tweaked if sign_tweaked is None else sign_tweaked
        sig = self.sign(skey, self.tweak[name] if use_tw else None, msg)
        e = {"name": name, "message": msg.hex(), "signature": sig.hex(), "signed_by": signed_by}
        if tw is not None:
            e["tweak"] = tw.hex()
        return e

    def doc(self, shape, targets):
        """shape: list of (name, signed_by, tweaked) in file order."""
        parents = {sb for _, sb, _ in shape}
        els = [self.element(n, sb, tw, n in parents) for n, sb, tw in shape]
        return {"version": 1, "targets": list(targets), "elements": els}


# spellings of a hex string that bytes.fromhex (hence the loader) accepts for the same bytes
HEX_SPELLINGS = {
    "upper": str.upper,
    "spaced": lambda h: " ".join(h[i:i + 2] for i in range(0, len(h), 2)),
    "lead2": lambda h: "  " + h,
    "trail": lambda h: h + " ",
    "mixed": lambda h: "\t" + h[:2].upper() + " " + h[2:4] + "\n" + h[4:] + "\r\n",
}

# spellings of a base64 string that the standard (non-validating) decoder accepts for the same bytes
B64_SPELLINGS = {
    "lines64": lambda b: "\n".join(b[i:i + 64] for i in range(0, len(b), 64)),
    "lead-trail": lambda b: "  " + b + " \n",
    "crlf76": lambda b: "\r\n".join(b[i:i + 76] for i in range(0, len(b), 76)) + "\r\n",
}


def extra_bytes_variants(b):
    """A binary field followed / preceded by bytes that belong to nothing: list of (label, bytes)."""
    b = bytes(b)
    return [("+00", b + b"\x00"), ("+9000", b + b"\x90\x00"), ("+ffffff", b + b"\xff\xff\xff"),
            ("+0000 0000", b + bytes(4)), ("+itself", b + b), ("00+", b"\x00" + b), ("30+", b"\x30" + b)]


def k1_hybrid(pub65):
    """hybrid SEC1 encoding (06 / 07 by the parity of y) of an uncompressed secp256k1 / P-256 point"""
    return bytes([6 + (pub65[-1] & 1)]) + pub65[1:]


def flip(b, i, bit):
    b = bytearray(b)
    b[i] ^= 1 << bit
    return bytes(b)


def positions(n, thorough, stride):
    """Byte positions for single-bit corruptions: every byte (thorough) or first, last and
    every `stride`-th."""
    if thorough or n <= 2:
        return list(range(n))
    s = set(range(0, n, stride))
    s.add(n - 1)
    return sorted(s)


def high_s(sig_der, order):
    from ..refs.certref import der_sig_parse, der_sig_encode
    r, s, _ = der_sig_parse(sig_der)
    return der_sig_encode(r, order - s)


def padded_der(sig_der):
    """Same (r, s), non-canonical DER: r with one more leading zero byte."""
    from ..refs.certref import der_sig_parse
    r, s, _ = der_sig_parse(sig_der)

    def enc(v, pad):
        b = v.to_bytes((v.bit_length() + 7) // 8 or 1, "big")
        if b[0] & 0x80:
            b = b"\x00" + b
        b = b"\x00" * pad + b
        return b"\x02" + bytes([len(b)]) + b
    body = enc(r, 1) + enc(s, 0)
    return b"\x30" + bytes([len(body)]) + body


# --------------------------------------------------------------------------------------
# version 2
# --------------------------------------------------------------------------------------
# reference instant of all generated validity periods.  Far from the real present as long as the
# harness owns the clock of the code under test; moved to the real present otherwise (see
# certharness.CertImpl.settle_clock)
T0 = datetime(2031, 5, 17, 12, 0, 0, tzinfo=timezone.utc)
T0_FIXED = T0


def set_reference_instant(t):
    global T0
    T0 = t.replace(microsecond=0)
V2_ROOT = "sgx_root"


def _curve(name):
    from cryptography.hazmat.primitives.asymmetric import ec
    return {"p256": ec.SECP256R1, "p384": ec.SECP384R1, "k1": ec.SECP256K1}[name]()


def _hash(name):
    from cryptography.hazmat.primitives import hashes
    return {"sha256": hashes.SHA256, "sha384": hashes.SHA384}[name]()


def pem_of(der):
    b = base64.b64encode(der).decode()
    lines = [b[i:i + 64] for i in range(0, len(b), 64)]
    return "-----BEGIN CERTIFICATE-----\n" + "\n".join(lines) + "\n-----END CERTIFICATE-----\n"


class V2World:
    """Seeded keys and cached X.509 certificates."""

    def __init__(self, label="v2"):
        self.label = "certs-" + label
        self._keys = {}
        self._certs = {}
        self.rng = Rng(self.label + "-bytes")
        self._serial = 1000

    def key(self, name, curve="p256"):
        from cryptography.hazmat.primitives.asymmetric import ec
        k = self._keys.get((name, curve))
        if k is None:
            from cryptography.hazmat.primitives.serialization import Encoding, PublicFormat
            # names ending in "@x0" / "@y0": a key whose public X / Y coordinate starts with a zero byte
            want = name[-3:] if name.endswith(("@x0", "@y0")) else None
            rng = Rng("%s-key-%s-%s" % (self.label, name, curve))
            while True:
                d = int.from_bytes(rng.bytes(31), "big") | 1
                k = ec.derive_private_key(d, _curve(curve))
                if want is None:
                    break
                u = k.public_key().public_bytes(Encoding.X962, PublicFormat.UncompressedPoint)
                half = (len(u) - 1) // 2
                if u[1 if want == "@x0" else 1 + half] == 0:
                    break
            self._keys[(name, curve)] = k
        return k

    def point(self, name, curve="p256", fmt="uncompressed"):
        from cryptography.hazmat.primitives.serialization import Encoding, PublicFormat
        pub = self.key(name, curve).public_key()
        if fmt == "compressed":
            return pub.public_bytes(Encoding.X962, PublicFormat.CompressedPoint)
        u = pub.public_bytes(Encoding.X962, PublicFormat.UncompressedPoint)
        if fmt == "hybrid":
            return k1_hybrid(u)
        return u[1:] if fmt == "raw" else u

    def cert(self, subject, issuer, nb, na, scurve="p256", icurve="p256", hash_name="sha256",
             subject_key=None, issuer_cn=None):
        """DER certificate for key `subject` issued (signed) by key `issuer`."""
        from cryptography import x509
        from cryptography.x509.oid import NameOID
        ck = (subject, issuer, nb, na, scurve, icurve, hash_name, subject_key, issuer_cn)
        c = self._certs.get(ck)
        if c is not None:
            return c
        from cryptography.hazmat.primitives.serialization import Encoding
        skey = self.key(subject_key or subject, scurve).public_key()
        ikey = self.key(issuer, icurve)
        serial = 1000 + int.from_bytes(hashlib.sha256(repr(ck).encode()).digest()[:6], "big")
        b = (x509.CertificateBuilder()
             .subject_name(x509.Name([x509.NameAttribute(NameOID.COMMON_NAME, "verif " + subject)]))
             .issuer_name(x509.Name([x509.NameAttribute(NameOID.COMMON_NAME,
                                                        "verif " + (issuer_cn or issuer))]))
             .public_key(skey).serial_number(serial)
             .not_valid_before(nb).not_valid_after(na)
             .add_extension(x509.BasicConstraints(ca=True, path_length=None), critical=True))
        c = b.sign(ikey, _hash(hash_name), ecdsa_deterministic=True).public_bytes(Encoding.DER)
        self._certs[ck] = c
        return c

    def ec_sign(self, name, data, curve="p256"):
        from cryptography.hazmat.primitives.asymmetric import ec
        from cryptography.hazmat.primitives import hashes
        return self.key(name, curve).sign(
            data, ec.ECDSA(hashes.SHA256(), deterministic_signing=True))

    # ---- SGX elements -----------------------------------------------------------------
    def report_body(self, report_data_head, tag):
        r = Rng("%s-rb-%s" % (self.label, tag))
        body = bytearray(r.nz_bytes(384))
        # every field differs from every other field of its size (swapped struct rows must show):
        # miscselect (uint32) vs the quote's tee_type; the three uint16 isvprodid/isvsvn/configsvn
        # get distinct high nibbles, the two uint64 attributes distinct top bytes
        body[16 + 3] = 0x5A
        body[48 + 7], body[56 + 7] = 0x11, 0x22
        body[256 + 1] = 0x10 | (body[256 + 1] & 0x0F)
        body[258 + 1] = 0x20 | (body[258 + 1] & 0x0F)
        body[260 + 1] = 0x30 | (body[260 + 1] & 0x0F)
        for i, off in enumerate((0, 32, 304)):            # 16-byte fields
            body[off] = 0xA0 + i
        for i, off in enumerate((64, 96, 128, 160)):      # 32-byte fields
            body[off] = 0xB0 + i
        body[320:384] = report_data_head + r.nz_bytes(64 - len(report_data_head))
        return bytes(body)

    def att_element(self, name, signed_by, signer, key_name="attkey", auth=None, key_fmt="uncompressed",
                    extra=b"", signer_curve="p256"):
        if auth is None:
            auth = bytes(range(32))
        raw = self.point(key_name, fmt="raw")
        msg = self.report_body(hashlib.sha256(raw + auth).digest(), "att-%s-%d" % (key_name, len(auth))) + extra
        sig = self.ec_sign(signer, msg, signer_curve)
        return {"name": name, "type": "sgx_attestation_key", "message": msg.hex(),
                "key": self.point(key_name, fmt=key_fmt).hex(), "auth_data": auth.hex(),
                "signature": sig.hex(), "signed_by": signed_by}

    def quote_element(self, name, signed_by, signer, custom=None, extra=b"", signer_curve="p256", ints=None):
        """ints: {(offset, width): value} written little-endian into the quote before signing."""
        if custom is None:
            r = Rng(self.label + "-custom")
            custom = b"POWHSM:5.4::sgx" + r.bytes(32) + r.bytes(32) + r.bytes(32) + r.bytes(8) + bytes(8)
        r = Rng(self.label + "-quotehead")
        # version, sign_type, tee_type, qe_svn, pce_svn all different; uuid / user_data non-zero
        head = b"\x03\x00\x02\x00" + b"\x81\x00\x00\x7b" + b"\x0a\x00\x0f\x00" + b"\xa9" + r.nz_bytes(15) \
            + r.nz_bytes(20)
        assert len(head) == 48
        msg = head + self.report_body(hashlib.sha256(custom).digest(), "quote-%d" % len(custom)) + extra
        if ints:
            m = bytearray(msg)
            for (off, width), val in ints.items():
                m[off:off + width] = val.to_bytes(width, "little")
            msg = bytes(m)
        sig = self.ec_sign(signer, msg, signer_curve)
        return {"name": name, "type": "sgx_quote", "message": msg.hex(), "custom_data": custom.hex(),
                "signature": sig.hex(), "signed_by": signed_by}

    @staticmethod
    def x509_element(name, signed_by, der):
        return {"name": name, "type": "x509_pem", "message": base64.b64encode(der).decode(),
                "signed_by": signed_by}

    # ---- whole chains -----------------------------------------------------------------
    X509_NAMES = ("platform_ca", "inter_ca", "quoting_enclave")

    def chain(self, depth=2, nest="wide-top", auth=None, curves=None, hashes_=None, custom=None,
              root_curve="p256", root_key="root", leaf_window=None, key_fmt="uncompressed", windows=None):
        """root -> (depth-1) CA certificates -> leaf certificate -> attestation key -> quote.

        -> (doc, root_pem, meta); meta["x509"] = [(element name, not_before, not_after)] top first.
        curves / hashes_: per X.509 level (top first) curve of the subject key / hash used by its issuer.
        """
        names = {1: ["quoting_enclave"], 2: ["platform_ca", "quoting_enclave"],
                 3: ["platform_ca", "inter_ca", "quoting_enclave"]}[depth]
        curves = curves or ["p256"] * depth
        hashes_ = hashes_ or ["sha256"] * depth
        day = timedelta(days=1)
        root_der = self.cert(root_key, root_key, T0 - 4000 * day, T0 + 4000 * day,
                             scurve=root_curve, icurve=root_curve)
        els, meta = [], []
        issuer, icurve = root_key, root_curve
        for i, n in enumerate(names):
            span = (40 - 10 * i) if nest == "wide-top" else (10 + 10 * i)
            nb, na = T0 - span * day, T0 + span * day
            if leaf_window is not None and i == len(names) - 1:
                nb, na = leaf_window
            if windows and i in windows:
                nb, na = windows[i]
            der = self.cert(n, issuer, nb, na, scurve=curves[i], icurve=icurve, hash_name=hashes_[i])
            els.append(self.x509_element(n, V2_ROOT if i == 0 else names[i - 1], der))
            meta.append((n, nb, na))
            issuer, icurve = n, curves[i]
        att = self.att_element("attestation", names[-1], names[-1], auth=auth, signer_curve=curves[-1],
                               key_fmt=key_fmt)
        quote = self.quote_element("quote", "attestation", "attkey", custom=custom)
        doc = {"version": 2, "targets": ["quote"],
               "elements": [quote, att] + list(reversed(els))}
        return doc, pem_of(root_der), {"x509": meta, "root_der": root_der}


def zero_value_docs(w):
    """Genuine version-2 chains in which a DERIVED value has a leading zero byte (found by search):
    X / Y of the attestation key and of the leaf certificate's key, the two binding hashes, the
    digest of each signed message, r and s of each signature.  -> list of (label, doc)."""
    from ..refs.certref import der_sig_parse
    day = timedelta(days=1)
    base, _, meta = w.chain(2, "wide-top")
    out = []

    def with_(*els):
        d = clone(base)
        for ne in els:
            for i, e in enumerate(d["elements"]):
                if e["name"] == ne["name"]:
                    d["elements"][i] = ne
        return d

    def search(make, test, tries=3000):
        for i in range(tries):
            x = make(i)
            if test(x):
                return x
        return None

    def short(el, which):
        r, s_, _ = der_sig_parse(bytes.fromhex(el["signature"]))
        return (r if which == "r" else s_) < (1 << 248)

    leaf = "quoting_enclave"
    # public key coordinates
    for c in ("@x0", "@y0"):
        att = w.att_element("attestation", leaf, leaf, key_name="attkey" + c)
        out.append(("zero:attestation-key" + c, with_(att, w.quote_element("quote", "attestation", "attkey" + c))))
        nb, na = meta["x509"][-1][1], meta["x509"][-1][2]
        cert = w.x509_element(leaf, "platform_ca", w.cert(leaf, "platform_ca", nb, na, subject_key=leaf + c))
        out.append(("zero:leaf-key" + c, with_(cert, w.att_element("attestation", leaf, leaf + c))))
    # binding hashes
    raw = w.point("attkey", fmt="raw")
    auth = search(lambda i: b"auth" + i.to_bytes(2, "big"), lambda a: hashlib.sha256(raw + a).digest()[0] == 0)
    out.append(("zero:binding-attestation-key", with_(w.att_element("attestation", leaf, leaf, auth=auth))))
    custom = search(lambda i: b"POWHSM:5.4::sgx" + bytes(110) + i.to_bytes(2, "big"),
                    lambda c: hashlib.sha256(c).digest()[0] == 0)
    out.append(("zero:binding-quote", with_(w.quote_element("quote", "attestation", "attkey", custom=custom))))
    # quote: digest of the signed message, r, s  (free field: qe_svn)
    for what in ("digest", "r", "s"):
        q = search(lambda i: w.quote_element("quote", "attestation", "attkey", ints={(8, 2): i}),
                   (lambda e: hashlib.sha256(bytes.fromhex(e["message"])).digest()[0] == 0) if what == "digest"
                   else (lambda e, _w=what: short(e, _w)))
        if q is not None:
            out.append(("zero:quote-" + what, with_(q)))
        a = search(lambda i: w.att_element("attestation", leaf, leaf, auth=b"A" + i.to_bytes(2, "big")),
                   (lambda e: hashlib.sha256(bytes.fromhex(e["message"])).digest()[0] == 0) if what == "digest"
                   else (lambda e, _w=what: short(e, _w)))
        if a is not None:
            out.append(("zero:attestation-" + what, with_(a)))
    # certificates: r, s of the issuer's signature (free field: the issuer's common name)
    from ..refs.certref import X509View
    nb, na = meta["x509"][-1][1], meta["x509"][-1][2]
    for what in ("r", "s"):
        der = search(lambda i: w.cert(leaf, "platform_ca", nb, na, issuer_cn="platform_ca #%d" % i),
                     lambda c, _w=what: short({"signature": X509View(c).signature.hex()}, _w), tries=1500)
        if der is not None:
            out.append(("zero:certificate-" + what, with_(w.x509_element(leaf, "platform_ca", der))))
    return out


def displaced_binding_docs(w, offsets=None):
    """Correctly signed quotes / attestation-key report bodies whose 64-byte report data carries the
    binding hash somewhere else than at its start: at every offset 1..32 (tail zero / non-zero),
    split in two, preceded by another hash; and, as genuine counterparts, at offset 0 with zero,
    non-zero and repeated-hash tails.  -> list of (label, doc)."""
    base, _, meta = w.chain(2, "wide-top")
    leaf = meta["x509"][-1][0]
    out = []
    filler = Rng(w.label + "-filler").nz_bytes(64)
    for kind in ("quote", "attestation"):
        if kind == "quote":
            el = w.quote_element("quote", "attestation", "attkey")
            off, signer = 368, "attkey"
        else:
            el = w.att_element("attestation", leaf, leaf)
            off, signer = 320, leaf
        msg0 = bytes.fromhex(el["message"])
        h = msg0[off:off + 32]

        def doc_with(report_data):
            assert len(report_data) == 64
            m = msg0[:off] + report_data + msg0[off + 64:]
            ne = dict(el, message=m.hex(), signature=w.ec_sign(signer, m).hex())
            d = clone(base)
            for i, e in enumerate(d["elements"]):
                if e["name"] == ne["name"]:
                    d["elements"][i] = ne
            return d
        for k in (offsets or range(1, 33)):
            out.append(("binding:%s-at-offset:zero-fill" % kind, doc_with(bytes(k) + h + bytes(32 - k))))
            out.append(("binding:%s-at-offset:other-fill" % kind,
                        doc_with(filler[:k] + h + filler[k:32])))
        out.append(("binding:%s-split" % kind, doc_with(h[:16] + filler[:16] + h[16:] + bytes(16))))
        out.append(("binding:%s-after-other-hash" % kind, doc_with(hashlib.sha256(h).digest() + h)))
        out.append(("binding:%s-reversed" % kind, doc_with(h[::-1] + bytes(32))))
        out.append(("genuine:binding:%s-tail-zero" % kind, doc_with(h + bytes(32))))
        out.append(("genuine:binding:%s-tail-other" % kind, doc_with(h + filler[:32])))
        out.append(("genuine:binding:%s-tail-repeats" % kind, doc_with(h + h)))
    return out


def reserved_name_docs(w):
    """Documents with elements whose NAME collides with a reserved word of the format (the root word
    `sgx_root`, its case variants, the empty name, the version-1 root word): harmless extras next to
    a genuine chain, and whole chains genuinely signed under an in-file pseudo-root.
    -> list of (label, doc, designated target); the root of trust is world `w`'s 'root' certificate."""
    day = timedelta(days=1)
    base, _, meta = w.chain(2, "wide-top")
    nb, na = T0 - 50 * day, T0 + 50 * day
    pseudo_self = w.cert("pseudo", "pseudo", nb, na)         # self-made root
    pseudo_cross = w.cert("pseudo", "root", nb, na)          # the same key, certified by the real root
    out = []

    def pseudo_chain(top_signed_by):
        return [w.quote_element("p_quote", "p_att", "p_attkey", custom=b"POWHSM:5.4::sgx" + bytes(range(112))),
                w.att_element("p_att", "p_qe", "p_qe", key_name="p_attkey"),
                w.x509_element("p_qe", "p_ca", w.cert("p_qe", "p_ca", nb, na)),
                w.x509_element("p_ca", top_signed_by, w.cert("p_ca", "pseudo", nb, na))]

    # 1. genuine chain + a harmless extra element named like the root word
    extras = {
        "self-made-root": w.x509_element(V2_ROOT, V2_ROOT, pseudo_self),
        "copy-of-the-root": w.x509_element(V2_ROOT, V2_ROOT, meta["root_der"]),
        "cross-signed": w.x509_element(V2_ROOT, V2_ROOT, pseudo_cross),
        "signed-by-quote": w.x509_element(V2_ROOT, "quote", pseudo_self),
        "signed-by-nobody": w.x509_element(V2_ROOT, "nobody", pseudo_self),
        "attestation-key": w.att_element(V2_ROOT, "quoting_enclave", "quoting_enclave", key_name="attkey2"),
    }
    for k, extra in extras.items():
        for front in (True, False):
            d = clone(base)
            d["elements"] = ([extra] + d["elements"]) if front else (d["elements"] + [extra])
            out.append(("reserved:extra-named-root:" + k, d, "quote"))
    # 2. a whole chain under an in-file pseudo-root named like the root word
    for k in ("self-made-root", "cross-signed", "signed-by-quote", "signed-by-nobody"):
        for front in (True, False):
            els = pseudo_chain(V2_ROOT)
            els = ([extras[k]] + els) if front else (els + [extras[k]])
            out.append(("reserved:pseudo-root:" + k, {"version": 2, "targets": ["p_quote"], "elements": els},
                        "p_quote"))
            # ... next to the genuine chain, both as targets, both orders
            for tl in (["quote", "p_quote"], ["p_quote", "quote"]):
                d = clone(base)
                d["elements"] = els + d["elements"]
                d["targets"] = tl
                out.append(("reserved:pseudo-root-beside-genuine:" + k, d, tl[0]))
    # 3. the pseudo-root under names that are NOT the root word: an ordinary element, valid iff the
    #    operator's root certified it
    for name in ("SGX_ROOT", "Sgx_Root", "sgx_root ", "", "root", "sgx-root"):
        for k, der in (("self-made", pseudo_self), ("cross-signed", pseudo_cross)):
            els = pseudo_chain(name) + [w.x509_element(name, V2_ROOT, der)]
            out.append(("reserved:near-root-name:" + k, {"version": 2, "targets": ["p_quote"], "elements": els},
                        "p_quote"))
    # 4. names differing only in case from a target / an element of the chain
    for a, b in (("quote", "Quote"), ("attestation", "ATTESTATION"), ("quoting_enclave", "Quoting_Enclave")):
        d = clone(base)
        twin = dict(element_of(d, a), name=b)
        if twin["type"] != "x509_pem":
            twin["signature"] = flip(bytes.fromhex(twin["signature"]), 30, 1).hex()     # the twin is bad
        else:
            der = base64.b64decode(twin["message"])
            twin["message"] = base64.b64encode(flip(der, len(der) - 9, 2)).decode()
        for front in (True, False):
            d2 = clone(d)
            d2["elements"] = ([twin] + d2["elements"]) if front else (d2["elements"] + [twin])
            out.append(("reserved:case-twin", d2, "quote"))
            if a == "quote":
                d3 = clone(d2)
                d3["targets"] = ["quote", "Quote"]
                out.append(("reserved:case-twin", d3, "quote"))
    return out


def clone(doc):
    return copy.deepcopy(doc)


def element_of(doc, name):
    for e in doc["elements"]:
        if e["name"] == name:
            return e
    raise KeyError(name)
