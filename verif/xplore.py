"""Stateless choice-point explorer (DESIGN 1.1).

A *driver* is a callable ``run(ctx)`` that builds fresh objects, runs real
middleware code against a simulated environment and returns an observation.
Whenever the environment has more than one possible answer it calls
``ctx.choose(n, label)``.  ``explore`` enumerates every choice sequence of the
resulting tree (optionally bounded in the number of *deviations*, i.e. non-zero
answers at non-free points) by re-running the driver from scratch with a
recorded prefix.
"""
import hashlib


class HarnessError(Exception):
    """Nondeterminism that is not owned by the harness (exit 2, never a violation)."""


def h64(obj):
    return int.from_bytes(
        hashlib.blake2b(repr(obj).encode("utf-8", "backslashreplace"),
                        digest_size=8).digest(), "big")


class Ctx:
    __slots__ = ("prefix", "expect", "choices", "points", "states", "notes",
                 "max_points", "failed")

    def __init__(self, prefix=(), expect=None, max_points=100000):
        self.prefix = list(prefix)
        self.expect = expect          # list of (n, label, free) for the prefix, or None
        self.choices = []
        self.points = []              # (n, label, free)
        self.states = []              # state hashes noted at choice points
        self.notes = {}
        self.max_points = max_points
        self.failed = None            # set when a HarnessError was raised from choose():
        #                               the code under test may swallow the exception

    def _fail(self, msg):
        self.failed = msg
        raise HarnessError(msg)

    def choose(self, n, label="", free=False):
        """Return 0..n-1; 0 is the default (nominal) answer."""
        if self.failed:
            raise HarnessError(self.failed)
        if n <= 0:
            self._fail("choose(%r) at %s" % (n, label))
        i = len(self.choices)
        if i >= self.max_points:
            self._fail("more than %d choice points (livelock?)" % self.max_points)
        pt = (n, label, bool(free))
        if i < len(self.prefix):
            c = self.prefix[i]
            if self.expect is not None and i < len(self.expect):
                if tuple(self.expect[i]) != pt:
                    self._fail("replay divergence at point %d: recorded %r, now %r"
                               % (i, tuple(self.expect[i]), pt))
            if c >= n or c < 0:
                self._fail("replay choice %d out of range %d at %s" % (c, n, label))
        else:
            c = 0
        self.choices.append(c)
        self.points.append(pt)
        return c

    def pick(self, options, label="", free=False):
        return options[self.choose(len(options), label, free)]

    def state(self, key):
        self.states.append(h64(key))

    def deviations(self, upto=None):
        ch = self.choices if upto is None else self.choices[:upto]
        return sum(1 for c, p in zip(ch, self.points) if c != 0 and not p[2])

    def unused_prefix(self):
        return len(self.prefix) > len(self.choices)


class Stats:
    """Counters accumulated by a worker and merged in the parent."""

    def __init__(self):
        self.evaluations = 0
        self.transitions = 0
        self.states = set()
        self.classes = set()         # observation classes of non-trivial executions
        self.class_samples = {}
        self.dont_care = 0
        self.max_depth = 0
        self.samples = []
        self.extra = {}
        self.known_hits = {}

    def merge(self, o):
        self.evaluations += o.evaluations
        self.transitions += o.transitions
        self.states |= o.states
        self.classes |= o.classes
        self.dont_care += o.dont_care
        self.max_depth = max(self.max_depth, o.max_depth)
        for s in o.samples:
            if len(self.samples) < 12:
                self.samples.append(s)
        for k, v in o.extra.items():
            if isinstance(v, (int, float)):
                self.extra[k] = self.extra.get(k, 0) + v
            elif isinstance(v, set):
                self.extra[k] = self.extra.get(k, set()) | v
            else:
                self.extra[k] = v
        for k, v in o.known_hits.items():
            self.known_hits[k] = self.known_hits.get(k, 0) + v

    def bump(self, key, n=1):
        self.extra[key] = self.extra.get(key, 0) + n

    def add_set(self, key, item):
        self.extra.setdefault(key, set()).add(item)

    def observe(self, obs_class, nontrivial=True):
        if nontrivial:
            self.classes.add(h64(obs_class))

    def sample(self, s, cap=3):
        if len(self.samples) < cap:
            self.samples.append(s)


def explore(run, check, stats, bound=None, max_execs=None, max_points=100000):
    """Enumerate the choice tree of ``run``.

    run(ctx) -> observation (any); must be deterministic given ctx's choices.
    check(ctx, obs) -> None; called for every complete execution.
    bound: maximal number of deviations (None = full tree).
    Returns (executions, capped).
    """
    stack = [((), None)]
    n = 0
    capped = False
    while stack:
        if max_execs is not None and n >= max_execs:
            capped = True
            break
        prefix, expect = stack.pop()
        ctx = Ctx(prefix, expect, max_points)
        obs = run(ctx)
        if ctx.failed:
            raise HarnessError(ctx.failed)
        if ctx.unused_prefix():
            raise HarnessError("replay divergence: execution ended after %d points, "
                               "prefix has %d" % (len(ctx.choices), len(ctx.prefix)))
        n += 1
        stats.evaluations += 1
        stats.transitions += len(ctx.choices) - max(len(ctx.prefix) - 1, 0)
        stats.states.update(ctx.states)
        if len(ctx.choices) > stats.max_depth:
            stats.max_depth = len(ctx.choices)
        check(ctx, obs)
        dev = ctx.deviations(len(ctx.prefix))
        # children: every alternative at every point after the prefix
        for i in range(len(ctx.points) - 1, len(ctx.prefix) - 1, -1):
            npt, _, free = ctx.points[i]
            if npt <= 1:
                continue
            if bound is not None and not free and dev + 1 > bound:
                continue
            base = ctx.choices[:i]
            exp = ctx.points[:i + 1]
            for alt in range(npt - 1, 0, -1):
                stack.append((tuple(base) + (alt,), exp))
    return n, capped


def run_once(run, choices):
    """Plain driver call with a fixed choice list (used by replay)."""
    ctx = Ctx(choices, None)
    obs = run(ctx)
    if ctx.failed:
        raise HarnessError(ctx.failed)
    return ctx, obs
