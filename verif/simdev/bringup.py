"""Device model for the bring-up / PIN-change dialogues (C09, C10).

The device configuration is *lazy*: a dimension (mode, onboarded flag, versions, echo,
retries, whether the PIN sent matches, reaction to a new PIN, mode after exit ...) is
only chosen - through ctx.choose - when the middleware actually asks for it, so the
explored tree contains exactly the reachable combinations.
Formats follow firmware/src/ledger/ui/src/{bootloader,pin,unlock}.c and the SGX
variants in firmware/src/sgx (system.c)."""
from .base import Device, SW, DropLinkBase, DeviceFault
from ledgerblue.commException import CommException


class Lazy:
    def __init__(self, ctx, free=True, fixed=None):
        self.ctx = ctx
        self.vals = dict(fixed or {})
        self.free = free
        self.order = []

    def get(self, name, options):
        if name not in self.vals:
            if len(options) == 1 or self.ctx is None:
                self.vals[name] = options[0]
            else:
                self.vals[name] = options[self.ctx.choose(len(options), name, free=self.free)]
            self.order.append(name)
            if self.ctx is not None:
                self.ctx.state(tuple(sorted((k, repr(v)) for k, v in self.vals.items())))
        return self.vals[name]


def version_grid(thorough):
    vs = [(5, 4, 1)]
    for ma in (4, 5, 6):
        for mi in (3, 4, 5):
            for pa in (0, 1, 2):
                if (ma, mi, pa) != (5, 4, 1):
                    vs.append((ma, mi, pa))
    vs += [(0, 0, 0), (255, 255, 255)]
    # components with more digits than the manager's own: orders that differ between comparing
    # numbers, strings and decimal fractions (5.4.10 vs 5.4.1, 5.10.0 vs 5.4.0, 5.3.200)
    vs += [(5, 4, 10), (5, 4, 100), (5, 10, 0), (5, 40, 1), (5, 3, 200), (5, 4, 11), (50, 4, 1), (5, 0, 41)]
    if thorough:
        vs += [(5, 0, 0), (5, 0, 255), (5, 255, 0), (5, 255, 255), (5, 4, 255), (5, 3, 255),
               (5, 5, 0), (0, 4, 1), (255, 4, 1), (5, 4, 0)]
    out = []
    for v in vs:
        if v not in out:
            out.append(v)
    return out


MODES = [2, 3, 4, 0xFF, 7, "sw-out", "sw-in"]     # bootloader, signer, ui-heartbeat, 0xFF, undefined byte, status errors


class BringUpDevice(Device):
    def __init__(self, cfg, platform, opts):
        self.cfg = cfg
        self.platform = platform
        self.o = opts                      # alphabets: versions, retries, ...
        self.mode_key = "mode"
        self.pin_buffer = bytearray(12)
        self.pins_sent = []                # every complete PIN that reached the device, with purpose
        self.unlock_cmds = 0
        self.unlocked = False
        self.true_pin = None               # decided when the first unlock arrives
        self.pin_changes = []              # new PINs the device acknowledged
        self.exited = False
        self.events = []

    # ---- lazily chosen facts -------------------------------------------------
    def mode(self):
        return self.cfg.get(self.mode_key, MODES if self.mode_key == "mode" else self.o["post_modes"])

    def handle(self, apdu):
        cmd = apdu[1]
        sgx = self.platform == "sgx"
        if cmd == 0x06:
            q = self.cfg.get("onboarded", ["yes", "no", "sw-out", "sw-in", "link"])
            if q == "sw-out":
                raise SW(0x6F01)
            if q == "sw-in":
                raise SW(0x6A99)
            if q == "link":
                raise LinkFault()
            m = self.mode()
            if m == 3:
                ver = self.cfg.get("signer_version", self.o["versions"])
            else:
                ver = self.cfg.get("ui_version", self.o["versions"])
            return bytes([0x80, 1 if q == "yes" else 0, ver[0], ver[1], ver[2]])
        if cmd == 0x43:
            m = self.mode()
            if m == "sw-out":
                raise SW(0x6E00)
            if m == "sw-in":
                raise SW(0x6B00)
            return bytes([0x80, m])
        m = self.mode()
        if m == 3:
            if cmd == 0x11:
                return bytes([0x80, 0x11, 0x00]) + bytes(32) + (1000).to_bytes(36, "big") + bytes([2])
            raise SW(0x6D00)
        if m != 2:
            raise SW(0x6D00)
        # ---- bootloader ----
        if cmd == (0xA4 if sgx else 0x02):
            e = self.cfg.get("echo", ["ok", "bad", "cla", "ins", "short", "long", "header-only"])
            if e == "ok":
                return bytes(apdu)
            if e == "bad":
                return bytes(apdu[:-1]) + bytes([apdu[-1] ^ 0x01])
            if e == "cla":            # payload intact behind another class byte
                return bytes([apdu[0] ^ 0x60]) + bytes(apdu[1:])
            if e == "ins":            # payload intact behind another instruction byte
                return bytes([apdu[0], apdu[1] ^ 0x02]) + bytes(apdu[2:])
            if e == "short":
                return bytes(apdu[:-1])
            if e == "long":
                return bytes(apdu) + b"\x00"
            return bytes(apdu[:2])
        if cmd == (0xA2 if sgx else 0x45):
            return bytes([0x80, cmd, self.cfg.get("retries", self.o["retries"])])
        if not sgx and cmd == 0x41:
            if len(apdu) != 4:
                raise SW(0x6A01)
            self.fault_point("pin-char")
            idx = apdu[2]
            if idx <= 9:
                self.pin_buffer[idx] = apdu[3]
                self.pin_buffer[idx + 1] = 0
            return bytes([0x80, 0x41, idx])
        if (not sgx and cmd == 0xFE) or (sgx and cmd == 0xA3):
            pin = bytes(self.pin_buffer).split(b"\x00")[0] if not sgx else bytes(apdu[3:])
            self.unlock_cmds += 1
            self.pins_sent.append(("unlock", pin))
            if self.true_pin is None:
                ok = self.cfg.get("unlock", ["ok", "refused"]) == "ok"
                self.true_pin = pin if ok else b"#not-the-pin#"
            ok = pin == self.true_pin
            self.unlocked = self.unlocked or ok
            self.pin_buffer = bytearray(12)
            return bytes([0x80, cmd, 1 if ok else 0])
        if (not sgx and cmd == 0x08) or (sgx and cmd == 0xA5):
            if sgx:
                pin = bytes(apdu[3:])
            else:
                buf = bytes(self.pin_buffer)
                pin = buf[1:].split(b"\x00")[0]
                declared = buf[0]
                if declared != len(pin):
                    self.events.append(("pin-length-prefix-mismatch", declared, pin))
            self.pins_sent.append(("new", pin))
            r = self.cfg.get("newpin", self.o["newpin"])
            self.pin_buffer = bytearray(12)
            if r == "accept":
                self.true_pin = pin
                self.pin_changes.append(pin)
                return bytes([0x80, cmd, 1]) if sgx else bytes([0x80, 0x02, 0x01])
            if r == "refuse":
                if sgx:
                    return bytes([0x80, cmd, 0])
                raise SW(0x69A0)
            if r == "sw-in":
                raise SW(0x6A99)
            if r == "sw-out":
                raise SW(0x6F02)
            if r == "timeout":
                raise TimeoutFault()
            if r == "link":
                raise LinkFault()
        if cmd in (0xFF, 0xFA):
            self.exited = True
            self.mode_key = "post_mode"
            self.events.append("exit")
            raise DropLink()
        raise SW(0x6D00)

    def fault_point(self, name):
        pass


class LinkFault(DropLinkBase):
    pass


class DropLink(DropLinkBase):
    pass


class TimeoutFault(DeviceFault):
    kind = "timeout"
