"""UI/bootloader device model with the administrative commands (onboarding, PIN, signer
authorization), the SGX variants, a signer that serves genuine secp256k1 public keys, the
Ledger dashboard's admin CLA 0xE0 dialogue used by the attestation setup, and the Ethereum app.

Every answer format is read off the firmware:
  firmware/src/ledger/ui/src/bootloader.c      dispatch, REQUIRE_NOT_ONBOARDED, onboard_performed
  firmware/src/ledger/ui/src/onboard.c         SEED 0x44 (one byte per call, index in OP), WIPE 0x07
  firmware/src/ledger/ui/src/pin.c, unlock.c   SEND_PIN 0x41, CHANGE_PIN 0x08, UNLOCK 0xFE
  firmware/src/ledger/ui/src/signer_authorization.c   SIGNER_AUTH 0x51 (N of M, EIP-191 digest)
  firmware/src/common/src/pin_policy.c         8 alphanumerics, at least one letter
  firmware/src/sgx/src/trusted/system.c        0xA0 onboard, 0xA2 retries, 0xA3 unlock, 0xA4 echo,
                                               0xA5 change password; GET_MODE answered while locked
  firmware/src/hal/sgx/src/trusted/access.c    password set => locked again, policy enforced

The class subclasses the conforming ``PowHsm`` only to inherit the signer-side commands; the
UI side is self-contained.  Behavioural *decisions* (what the device reports, whether it accepts)
are overridable ``q_*`` hooks whose defaults are the firmware's; C18 overrides them with lazy
choice points, C17 with threshold policies.
"""
import hashlib

from .base import Device, SW, DropLinkBase
from .powhsm import PowHsm, MODE_BOOTLOADER, MODE_SIGNER, MODE_UI_HEARTBEAT
from ..refs.keccak import keccak256
from ..refs import ecsig

MODE_DASHBOARD = 0            # no app: CLA 0x80 is not served, CLA 0xE0 is
N = ecsig.N

ERR_UI_PROT_INVALID = 0x6A01
ERR_UI_INVALID_CLA = 0x6E22
ERR_UI_INTERNAL = 0x6A99
ERR_UI_INVALID_PIN = 0x69A0
ERR_UI_DEVICE_ONBOARDED = 0x69A1
ERR_SIGAUT_INVALID_ITERATION = 0x6A03
ERR_INS_NOT_SUPPORTED = 0x6D00
ERR_DEVICE_NOT_ONBOARDED, ERR_DEVICE_ONBOARDED, ERR_ONBOARDING = 0x6BEE, 0x6BEF, 0x6BF0
ERR_DEVICE_LOCKED, ERR_PASSWORD_CHANGE = 0x6BF1, 0x6BF2
ERR_INVALID_DATA_SIZE = 0x6A87

META = "uiop"                  # RSK_META_CMD_UIOP group of bootloader.c
DOCUMENTED_PATHS = ["m/44'/0'/0'/0/0", "m/44'/1'/0'/0/0", "m/44'/137'/0'/0/0",
                    "m/44'/137'/1'/0/0", "m/44'/1'/1'/0/0", "m/44'/1'/2'/0/0"]


def path_binary(spec, order="little", with_len=True):
    """own BIP32 path encoder: count byte + 4 bytes per element"""
    els = spec[2:].split("/")
    out = bytes([len(els)]) if with_len else b""
    for e in els:
        v = int(e.rstrip("'")) + (0x80000000 if e.endswith("'") else 0)
        out += v.to_bytes(4, order)
    return out


class DropLink(DropLinkBase):
    pass


def pin_policy_ok(pin):
    if len(pin) != 8:
        return False
    if not all((48 <= c <= 57) or (65 <= c <= 90) or (97 <= c <= 122) for c in pin):
        return False
    return any((65 <= c <= 90) or (97 <= c <= 122) for c in pin)


_KEYCACHE = {}


def device_key(seed, tag):
    """(private scalar bytes, uncompressed public key) of a seeded device key"""
    k = (bytes(seed), bytes(tag))
    if k not in _KEYCACHE:
        ctr = 0
        while True:
            d = int.from_bytes(hashlib.sha256(b"devkey" + k[0] + b"|" + k[1] +
                                              bytes([ctr])).digest(), "big")
            if 0 < d < N:
                break
            ctr += 1
        priv = d.to_bytes(32, "big")
        _KEYCACHE[k] = (priv, ecsig.pub_of_libsecp(priv))
    return _KEYCACHE[k]


def signer_auth_digest(hash32, iteration):
    """signer_authorization.c generate_message_to_sign: keccak256 of the EIP-191 wrapped text"""
    text = b"RSK_powHSM_signer_" + bytes(hash32).hex().encode() + b"_iteration_" + \
        str(iteration).encode()
    return keccak256(b"\x19Ethereum Signed Message:\n" + str(len(text)).encode() + text)


class UiAdmin(PowHsm):
    def __init__(self, seed=b"dev", platform="ledger", mode=MODE_BOOTLOADER, onboarded=True,
                 pin=b"1234567a", authorizers=None):
        PowHsm.__init__(self, seed=seed, mode=mode, platform=platform)
        self.onboarded = onboarded
        self.pin = pin
        self.unlocked = False
        self.retries = 3
        self.pin_buffer = bytearray(10)          # MAX_PIN_LENGTH + 2
        self.host_seed = bytearray(32)
        self.seed_indices = set()
        self.onboard_seed = None                 # host seed used by the last onboarding
        self.onboard_performed = False
        self.current_group = None
        self.exit_autoexec = None
        # signer authorization
        self.authorizers = list(authorizers or [])      # uncompressed public keys
        self.current_signer = (bytes(32), 0)
        self.sigaut = None
        self.sigaut_log = []
        self.authorized = []
        # admin CLA 0xE0 material
        self.admin_log = []
        self.events = []                         # (kind, ...) high-level state changes

    # ---- decisions (defaults = firmware) ---------------------------------
    def q_mode(self):
        return bytes([0x80, self.true_mode_byte()])

    def q_onboarded(self):
        v = self.ui_version
        return bytes([0x80, 1 if self.onboarded else 0, v[0], v[1], v[2]])

    def q_echo(self, apdu):
        return bytes(apdu)

    def q_unlock(self, pin):
        return pin == self.pin

    def q_newpin(self, pin):
        return True

    def q_onboard(self):
        return True

    def q_sigauth(self, index, sig):
        """True => authorized now.  Default: genuine N-of-M verification."""
        st = self.sigaut
        for i, pub in enumerate(self.authorizers):
            if ecsig.verify_libsecp(pub, st["digest"], sig):
                st["verified"].add(i)
                break
        return len(st["verified"]) >= len(self.authorizers) // 2 + 1

    # ---- helpers -----------------------------------------------------------
    def true_mode_byte(self):
        if self.platform == "sgx":
            return MODE_SIGNER if self.unlocked else MODE_BOOTLOADER
        return self.mode

    def sw(self, code):
        self.reset_session()
        raise SW(code)

    def replug(self):
        """operator disconnects and reconnects the device"""
        self.events.append(("replug",))
        self.onboard_performed = False
        self.unlocked = False
        self.pin_buffer = bytearray(10)
        self.sigaut = None
        self.current_group = None
        if self.platform != "sgx":
            self.mode = MODE_BOOTLOADER

    def group(self, g):
        if g != self.current_group:
            self.current_group = g
            self.sigaut = None
            self.host_seed = bytearray(32)
            self.seed_indices = set()

    def handle(self, apdu):
        self.counter += 1
        apdu = bytes(apdu)
        if len(apdu) < 2:
            self.sw(0x6982)
        if self.platform == "sgx":
            return self.sgx(apdu)
        if self.mode == MODE_DASHBOARD:
            return self.dashboard(apdu)
        if self.mode == MODE_SIGNER:
            return self.signer_app(apdu)
        if self.mode == MODE_UI_HEARTBEAT:
            return self.ui_heartbeat(apdu)
        return self.bootloader(apdu)

    # ---- Ledger bootloader -------------------------------------------------
    def buffered_pin(self, prepended):
        buf = bytes(self.pin_buffer[1:] if prepended else self.pin_buffer)
        return buf.split(b"\x00")[0]

    def bootloader(self, apdu):
        if apdu[0] != 0x80:
            self.sw(ERR_UI_INVALID_CLA)
        if self.onboard_performed:
            self.sw(ERR_INS_NOT_SUPPORTED)
        cmd = apdu[1]
        if cmd == 0x44:
            if self.onboarded:
                self.sw(ERR_UI_DEVICE_ONBOARDED)
            self.group(META)
            if len(apdu) - 3 != 1:
                self.sw(ERR_UI_PROT_INVALID)
            if apdu[2] < 32:
                self.host_seed[apdu[2]] = apdu[3]
                self.seed_indices.add(apdu[2])
            return b""
        if cmd == 0x41:
            self.group(META)
            if len(apdu) - 3 != 1:
                self.sw(ERR_UI_PROT_INVALID)
            if apdu[2] <= 8:
                self.pin_buffer[apdu[2]] = apdu[3]
                self.pin_buffer[apdu[2] + 1] = 0
            return apdu[:3]
        if cmd == 0x06:
            self.group(0x06)
            return self.q_onboarded()
        if cmd == 0x07:
            if self.onboarded:
                self.sw(ERR_UI_DEVICE_ONBOARDED)
            self.group(META)
            pin = self.buffered_pin(True)
            self.events.append(("wipe", bytes(self.host_seed), pin))
            if not pin_policy_ok(pin):
                self.sw(ERR_UI_INVALID_PIN)
            if not self.q_onboard():
                self.pin_buffer = bytearray(10)
                self.sw(ERR_UI_INTERNAL)
            self.onboard_seed = bytes(self.host_seed)
            self.onboard_seed_complete = self.seed_indices == set(range(32))
            self.pin = pin
            self.retries = 3
            self.onboarded = True
            self.unlocked = True
            self.pin_buffer = bytearray(10)
            self.onboard_performed = True
            return bytes([0x80, 2, 1])
        if cmd == 0x08:
            self.group(META)
            pin = self.buffered_pin(True)
            self.pin_buffer = bytearray(10)
            self.events.append(("newpin", pin))
            if not pin_policy_ok(pin) or not self.q_newpin(pin):
                self.sw(ERR_UI_INVALID_PIN)
            self.pin = pin
            return bytes([0x80, 2, 1])
        if cmd == 0x02:
            self.group(0x02)
            return self.q_echo(apdu)
        if cmd == 0x43:
            self.group(0x43)
            return self.q_mode()
        if cmd == 0x51:
            self.group(0x51)
            return self.signer_authorization(apdu)
        if cmd == 0x45:
            self.group(0x45)
            return bytes([0x80, 0x45, self.retries])
        if cmd == 0xFE:
            self.group(META)
            pin = self.buffered_pin(False)
            self.events.append(("unlock", pin))
            return bytes([0x80, 0xFE, 1 if self.try_unlock(pin) else 0])
        if cmd in (0xFF, 0xFA):
            self.group(cmd)
            self.exit_autoexec = cmd == 0xFF
            self.events.append(("exit", cmd))
            self.mode = MODE_SIGNER if (cmd == 0xFF and self.unlocked) else MODE_DASHBOARD
            self.reset_session()
            raise DropLink()
        self.sw(ERR_INS_NOT_SUPPORTED)

    def try_unlock(self, pin):
        if self.retries == 0 or not self.onboarded:
            return False
        if self.q_unlock(pin):
            self.unlocked = True
            self.retries = 3
            return True
        self.retries -= 1
        if self.retries == 0:
            self.onboarded = False
            self.wiped = True
        return False

    def ui_heartbeat(self, apdu):
        if apdu[0] != 0x80:
            self.sw(ERR_UI_INVALID_CLA)
        if apdu[1] == 0x43:
            return self.q_mode()
        if apdu[1] == 0x06:
            return self.q_onboarded()
        if apdu[1] in (0xFF, 0xFA):
            self.mode = MODE_SIGNER
            raise DropLink()
        self.sw(ERR_INS_NOT_SUPPORTED)

    # ---- signer authorization (signer_authorization.c) ----------------------
    def signer_authorization(self, apdu):
        if len(apdu) < 3:
            self.sw(ERR_UI_PROT_INVALID)
        op, data = apdu[2], apdu[3:]
        if op == 0x00:
            return apdu[:3] + self.current_signer[0] + self.current_signer[1].to_bytes(2, "big")
        if op == 0x01:
            if self.sigaut is not None:
                self.sigaut = None
                self.sw(ERR_UI_PROT_INVALID)
            if len(data) != 34:
                self.sw(ERR_UI_PROT_INVALID)
            h, it = data[:32], int.from_bytes(data[32:], "big")
            self.sigaut_log.append(("sigver", h, it))
            if it <= self.current_signer[1]:
                self.sw(ERR_SIGAUT_INVALID_ITERATION)
            self.sigaut = {"hash": h, "iteration": it, "digest": signer_auth_digest(h, it),
                           "verified": set(), "count": 0}
            return apdu[:3]
        if op == 0x02:
            if self.sigaut is None:
                self.sw(ERR_UI_PROT_INVALID)
            st = self.sigaut
            self.sigaut_log.append(("sig", data))
            st["count"] += 1
            if self.q_sigauth(st["count"], data):
                self.current_signer = (st["hash"], st["iteration"])
                self.authorized.append(self.current_signer)
                self.sigaut = None
                return apdu[:3] + b"\x02"
            return apdu[:3] + b"\x01"
        self.sigaut = None
        self.sw(ERR_UI_PROT_INVALID)

    # ---- signer app: genuine keys for the documented paths ------------------
    def pubkey_for(self, path_le21):
        return device_key(self.seed + (self.onboard_seed or b""), b"path" + bytes(path_le21))[1]

    def documented_pubkeys(self):
        return {p: self.pubkey_for(path_binary(p)) for p in DOCUMENTED_PATHS}

    def signer_app(self, apdu):
        if apdu[0] == 0x80 and apdu[1] == 0x04:
            path = apdu[2:]
            allowed = [path_binary(p) for p in DOCUMENTED_PATHS]
            if len(path) != 21 or path not in allowed:
                self.sw(0x6A87)
            return self.pubkey_for(path)
        if apdu[0] == 0x80 and apdu[1] == 0x43:
            return self.q_mode()
        if apdu[0] == 0x80 and apdu[1] == 0x06:
            v = self.signer_version
            return bytes([0x80, 1 if self.onboarded else 0, v[0], v[1], v[2]])
        return PowHsm.signer(self, apdu)

    # ---- dashboard: admin CLA 0xE0 (attestation setup after onboarding) -----
    def dashboard(self, apdu):
        if apdu[0] != 0xE0:
            self.sw(0x6E00)
        cmd = apdu[1]
        self.admin_log.append(apdu)
        issuer = device_key(self.seed, b"issuer")
        devk = device_key(self.seed, b"device")
        if cmd == 0x04:
            return b""
        if cmd == 0x50:
            return b"\x00\x00\x00\x01" + hashlib.sha256(b"dn" + self.seed).digest()[:8]
        if cmd == 0x51:
            return b""
        if cmd == 0x52:
            if apdu[2] == 0x00:
                hdr = b"\x01\x02\x03\x04"
                signed = b"\x02" + hdr + devk[1]
                sig = ecsig.sign_libsecp(issuer[0], hashlib.sha256(signed).digest())
                return (bytes([len(hdr)]) + hdr + bytes([len(devk[1])]) + devk[1] +
                        bytes([len(sig)]) + sig)
            return b""
        if cmd == 0xC0:
            endo = device_key(self.seed, b"endorsement")
            signed = b"\xff" + endo[1]
            sig = ecsig.sign_libsecp(devk[0], hashlib.sha256(signed).digest())
            return endo[1] + sig
        if cmd == 0xC2:
            return b""
        self.sw(0x6D00)

    # ---- SGX (system.c) ------------------------------------------------------
    def sgx(self, apdu):
        if apdu[0] != 0x80:
            self.sw(0x6E11)
        cmd = apdu[1]
        data = apdu[3:]
        if cmd == 0x43:
            return self.q_mode()
        if cmd == 0x06:
            return self.q_onboarded()
        if cmd == 0xA0:
            if self.onboarded:
                self.sw(ERR_DEVICE_ONBOARDED)
            if len(data) < 33:
                self.sw(ERR_INVALID_DATA_SIZE)
            seed, pin = data[:32], data[32:]
            self.events.append(("wipe", seed, pin))
            if not pin_policy_ok(pin) or not self.q_onboard():
                self.sw(ERR_ONBOARDING)
            self.onboard_seed = seed
            self.onboard_seed_complete = True
            self.pin = pin
            self.onboarded = True
            self.unlocked = False
            self.retries = 3
            return bytes([0x80, 0xA0, 1])
        if cmd == 0xA4:
            return self.q_echo(apdu)
        if cmd == 0xA2:
            if not self.onboarded:
                self.sw(ERR_DEVICE_NOT_ONBOARDED)
            return bytes([0x80, 0xA2, self.retries])
        if cmd == 0xA3:
            if not self.onboarded:
                self.sw(ERR_DEVICE_NOT_ONBOARDED)
            self.events.append(("unlock", data))
            if self.unlocked:
                return bytes([0x80, 0xA3, 1])
            if len(data) == 0:
                self.sw(ERR_INVALID_DATA_SIZE)
            return bytes([0x80, 0xA3, 1 if self.try_unlock(data) else 0])
        if cmd == 0xA5:
            if not self.onboarded:
                self.sw(ERR_DEVICE_NOT_ONBOARDED)
            if not self.unlocked:
                self.sw(ERR_DEVICE_LOCKED)
            if len(data) < 1:
                self.sw(ERR_INVALID_DATA_SIZE)
            self.events.append(("newpin", data))
            if not pin_policy_ok(data) or not self.q_newpin(data):
                self.sw(ERR_PASSWORD_CHANGE)
            self.pin = data
            self.unlocked = False          # access.c: password set => locked
            return bytes([0x80, 0xA5, 1])
        if not self.onboarded:
            self.sw(ERR_DEVICE_NOT_ONBOARDED)
        if not self.unlocked:
            self.sw(ERR_DEVICE_LOCKED)
        return self.signer_app(apdu)


class EthApp(Device):
    """Ethereum app of the Ledger: GET_PUBLIC_ADDRESS (E0 02) and SIGN_PERSONAL_MSG (E0 08).
    The app wraps the message as an Ethereum personal message (EIP-191) and signs its
    Keccak-256 with the key of the requested path."""

    def __init__(self, seed=b"eth"):
        self.seed = seed
        self.requests = []
        self.sw_for = {}             # cmd -> status word to answer with
        self.sign_other_message = False
        self.sign_other_key = False
        self.wrong_app = False

    def key(self, path_be):
        return device_key(self.seed, b"ethpath" + bytes(path_be))

    @staticmethod
    def parse_path(data):
        n = data[0]
        if len(data) < 1 + 4 * n or n == 0 or n > 10:
            raise SW(0x6A15)
        return data[1:1 + 4 * n], data[1 + 4 * n:]

    def handle(self, apdu):
        apdu = bytes(apdu)
        if self.wrong_app or len(apdu) < 5 or apdu[0] != 0xE0:
            raise SW(0x6511)
        cmd, lc, data = apdu[1], apdu[4], apdu[5:]
        if cmd in self.sw_for:
            raise SW(self.sw_for[cmd])
        if lc != len(data):
            raise SW(0x6A80)
        if cmd == 0x02:
            path, rest = self.parse_path(data)
            if rest:
                raise SW(0x6A80)
            self.requests.append(("pubkey", path))
            pub = self.key(path)[1]
            addr = keccak256(pub[1:])[-20:].hex().encode()
            return bytes([len(pub)]) + pub + bytes([len(addr)]) + addr
        if cmd == 0x08:
            path, rest = self.parse_path(data)
            if len(rest) < 4:
                raise SW(0x6A80)
            ln = int.from_bytes(rest[:4], "big")
            msg = rest[4:]
            if ln != len(msg):
                raise SW(0x6A80)
            self.requests.append(("sign", path, msg))
            if self.sign_other_message:
                msg = msg + b"!"
            digest = keccak256(b"\x19Ethereum Signed Message:\n" + str(len(msg)).encode() + msg)
            priv = self.key(path + (b"x" if self.sign_other_key else b""))[0]
            r, s = ecsig.der_decode(ecsig.sign_libsecp(priv, digest))
            return b"\x1b" + r.to_bytes(32, "big") + s.to_bytes(32, "big")
        raise SW(0x6D00)
