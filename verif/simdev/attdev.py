"""Genuine attesting devices for C15: a Ledger Nano S running the powHSM UI and Signer
(bootloader UI -> BOLOS dashboard admin commands -> signer app) and an SGX powHSM.

Answer formats are taken from
  firmware/src/ledger/ui/src/{bootloader,onboard,pin,unlock,attestation}.c   (UI, CLA 0x80)
  ledgerblue endorsementSetup.py as driven by admin/dongle_admin.py            (CLA 0xE0)
  firmware/src/powhsm/src/attestation.c, hal/ledger/src/endorsement.c           (signer)
  firmware/src/hal/sgx/src/trusted/endorsement.c, sgx/src/trusted/system.c      (SGX)
Every answer is assembled from named parts so that a single-point alteration
(``alter``) can be applied to exactly one of them.
"""
import hashlib

from .base import Device, SW, DropLinkBase
from ..att import k1, layout as L, sgx as S

ST_BOOT, ST_DASHBOARD, ST_SIGNER = "boot", "dashboard", "signer"
MODE_BOOTLOADER, MODE_SIGNER = 2, 3
UI_PROT_INVALID, UI_INVALID_PIN, UI_ONBOARDED, ATT_NO_ONBOARD = 0x6A01, 0x69A0, 0x69A1, 0x6A02
ATT_PROT_INVALID, ATT_INTERNAL = 0x6B00, 0x6B01
INS_NOT_SUPPORTED = 0x6D00
SIGNER_PAGE = 79            # APDU buffer 85 - 3 header - 2 status word - 1 flag byte


class DropLink(DropLinkBase):
    pass


def fw_der_uint(src):
    """firmware/src/hal/sgx/src/trusted/der_utils.c der_encode_uint, transcribed: the padding
    zero is decided on the first byte BEFORE leading zero bytes are trimmed (so 00 8x.. comes out
    as 02 1f 8x.., without padding)"""
    lz = bool(src[0] & 0x80)
    trim = 0
    while not src[trim] and trim < len(src) - 1:
        trim += 1
    body = (b"\x00" if lz else b"") + src[trim:]
    return bytes([0x02, len(body)]) + body


def fw_der_signature(rs):
    """der_utils.c der_encode_signature over the raw r || s of the envelope"""
    r, s = fw_der_uint(rs[:32]), fw_der_uint(rs[32:])
    return bytes([0x30, len(r) + len(s)]) + r + s


# -- algebraic alterations of a signature ------------------------------------------------------
SIG_OPS = ["high-s", "neg-r", "swap", "pad-r", "pad-s"]


def der_parse(sig):
    """strict minimal DER ECDSA signature -> (r, s) as integers"""
    assert sig[0] == 0x30 and sig[1] == len(sig) - 2 and sig[2] == 0x02
    rl = sig[3]
    r = sig[4:4 + rl]
    assert sig[4 + rl] == 0x02
    sl = sig[5 + rl]
    s = sig[6 + rl:6 + rl + sl]
    assert 6 + rl + sl == len(sig)
    return int.from_bytes(r, "big"), int.from_bytes(s, "big")


def der_int(v, pad=0):
    b = v.to_bytes((v.bit_length() + 7) // 8 or 1, "big")
    if b[0] & 0x80:
        b = b"\x00" + b
    b = b"\x00" * pad + b
    return bytes([0x02, len(b)]) + b


def der_build(r, s, pad_r=0, pad_s=0):
    body = der_int(r, pad_r) + der_int(s, pad_s)
    return bytes([0x30, len(body)]) + body


def sig_op(r, s, op, order):
    if op == "high-s":
        return r, order - s
    if op == "neg-r":
        return order - r, s
    if op == "swap":
        return s, r
    return r, s


def pages_of(data, size):
    n = max(1, (len(data) + size - 1) // size)
    return [data[i * size:(i + 1) * size] for i in range(n)]


class Alterable:
    """part(name, bytes) -> bytes with the configured single-point alteration applied."""
    alter = None

    def part(self, name, data):
        a = self.alter
        if a is not None and a.get("kind") == "sigalg" and a["field"] == name:
            # a DER signature answer re-encoded after an algebraic change of (r, s)
            r, s = sig_op(*der_parse(data), a["op"], self.sig_order)
            self.altered_hit = True
            return der_build(r, s, 1 if a["op"] == "pad-r" else 0, 1 if a["op"] == "pad-s" else 0)
        if a is not None and a.get("kind") == "bit" and a["field"] == name:
            i = a["index"]
            if i < len(data):
                self.altered_hit = True
                return data[:i] + bytes([data[i] ^ a["mask"]]) + data[i + 1:]
        return data

    def paged(self, stage, data, size, page):
        """One page answer ``flag || bytes`` of a paged stream, with page-level alterations:
        {"kind": "flag", "stage", "page", "value"} | {"kind": "drop-tail", "stage", "page", "n"}
        | {"kind": "extra-page", "stage", "data"(hex)}."""
        pgs = pages_of(data, size)
        a = self.alter if (self.alter or {}).get("stage") == stage else None
        if a is not None and a["kind"] == "extra-page":
            if page == len(pgs):
                self.altered_hit = True
                return bytes([0]) + bytes.fromhex(a["data"])
            if page == len(pgs) - 1:
                self.altered_hit = True
                return bytes([1]) + pgs[page]
        if page >= len(pgs):
            raise SW(self.page_error)
        flag = 1 if page < len(pgs) - 1 else 0
        body = pgs[page]
        if a is not None and a.get("page") == page:
            if a["kind"] == "flag":
                self.altered_hit = True
                flag = a["value"]
            elif a["kind"] == "drop-tail":
                self.altered_hit = True
                body = body[:len(body) - a["n"]]
        return bytes([flag]) + body


class PubkeySwap:
    """{"kind": "swap-pubkey", "index": i, "with": j}: the answer for path i is the (valid)
    key of path j."""

    def pubkey_answer(self, i):
        a = self.alter
        if a is not None and a.get("kind") == "swap-pubkey" and a["index"] == i:
            self.altered_hit = True
            i = a["with"]
        return self.wallet_pub(i)


def ledger_seed(factory, host_seed):
    """the seed the device ends up with (onboard.c: device randomness XOR host seed)"""
    dev_rnd = hashlib.sha256(b"cx_rng" + factory.secret).digest()
    return bytes(a ^ b for a, b in zip(dev_rnd, host_seed))


class LedgerFactory:
    """What leaves the factory + what is installed: issuer (root of trust), device key and its
    issuer certificate, application hashes, authorized signer."""

    def __init__(self, rng, legacy_signer=False, profile="seeded", ui_version="5.4",
                 signer_version=None):
        # the UI can never be replaced while the Signer is upgraded: the two versions are
        # independent (default: UI 5.4 with Signer 5.4, or the legacy Signer 5.3)
        self.ui_version = ui_version
        self.signer_version = signer_version or ("5.3" if legacy_signer else "5.4")
        self.ui_header = b"HSM:UI:" + self.ui_version.encode()
        self.signer_header = (b"HSM:SIGNER:" + self.signer_version.encode() if legacy_signer
                              else b"POWHSM:" + self.signer_version.encode() + b"::")
        self.issuer = k1.Key.from_rng(rng)
        self.device = k1.Key.from_rng(rng)
        self.cert_header = rng.nz_bytes(10)
        self.batch = rng.nz_bytes(4)
        self.secret = rng.bytes(32)
        self.ui_hash = rng.nz_bytes(32)
        self.signer_hash = rng.nz_bytes(32)
        self.signer_iteration = 1 + rng.int(0, 0xfffe)
        self.best_block = rng.nz_bytes(32)
        self.last_tx_hash = rng.nz_bytes(32)
        sh = lambda x: L.shape(x, profile)       # noqa: E731  (boundary shapes of printed values)
        self.ui_hash, self.signer_hash = sh(self.ui_hash), sh(self.signer_hash)
        self.signer_iteration = sh((self.signer_iteration, 2))
        self.best_block, self.last_tx_hash = sh(self.best_block), sh(self.last_tx_hash)
        self.legacy_signer = legacy_signer
        self.issuer_sig = self.issuer.sign(bytes([0x02]) + self.cert_header + self.device.pub65)
        self._sigs = {}
        self._keys = {}

    def sign(self, key, msg):
        k = (key.d, msg)
        if k not in self._sigs:
            self._sigs[k] = key.sign(msg)
        return self._sigs[k]

    def key(self, label, material):
        k = (label, material)
        if k not in self._keys:
            d = int.from_bytes(hashlib.sha256(label + self.secret + material).digest(), "big")
            self._keys[k] = k1.Key(d % (k1.N - 1) + 1)
        return self._keys[k]

    def tweaked(self, key, app_hash):
        k = ("tw", key.d, app_hash)
        if k not in self._keys:
            self._keys[k] = key.tweaked(app_hash)
        return self._keys[k]


class GenuineLedger(Device, Alterable, PubkeySwap):
    page_error = UI_PROT_INVALID
    sig_order = k1.N

    def __init__(self, factory, ui_page_size=79, check_host=False, wallet_salt=b"",
                 signer_iteration=None):
        self.f = factory
        self.wallet_salt = wallet_salt           # varies the key of the last path only
        self.best_block = factory.best_block     # blockchain state: moves on during a device's life
        self.last_tx_hash = factory.last_tx_hash
        self.signer_iteration = (factory.signer_iteration if signer_iteration is None
                                 else signer_iteration)
        self.ui_page_size = ui_page_size
        self.check_host = check_host
        self.state = ST_BOOT
        self.onboarded = False
        self.pin = None
        self.unlocked = False
        self.retries = 3
        self.pin_buffer = bytearray(16)
        self.host_seed = bytearray(32)
        self.seed = None
        self.endorsement = None           # attestation key (scheme two)
        self.endo_pending = None
        self.endo_counter = 0
        self.nonce_host = None
        self.nonce_dev = None
        self.master_pub = None
        self.host_conformance = []
        self.alter = None
        self.altered_hit = False
        self.reset_session()

    # -- life cycle --------------------------------------------------------------------
    def reset_session(self):
        self.ui_att = None
        self.sg_att = None

    def on_reconnect(self):
        self.reset_session()

    def power_cycle(self):
        """the operator disconnects and re-connects the device: bootloader UI, locked"""
        self.state = ST_BOOT
        self.unlocked = False
        self.pin_buffer = bytearray(16)
        self.reset_session()

    def wallet(self, path):
        salt = self.wallet_salt if path == L.PATHS[-1] else b""
        return self.f.key(b"wallet", self.seed + L.path_binary(path) + salt)

    def wallet_pub(self, i):
        return self.wallet(L.PATHS[i]).pub65

    def keys_hash(self):
        h = hashlib.sha256()
        for p in L.PATHS:                    # firmware order (pathAuth.c ordered_paths)
            h.update(self.wallet(p).pub65)
        return h.digest()

    # -- dispatch ---------------------------------------------------------------------
    def handle(self, apdu):
        if len(apdu) < 2:
            raise SW(0x6982)
        if self.state == ST_DASHBOARD:
            if apdu[0] != 0xE0:
                raise SW(0x6E00)
            return self.dashboard(apdu)
        if apdu[0] != 0x80:
            raise SW(0x6E22 if self.state == ST_BOOT else 0x6E11)
        if self.state == ST_BOOT:
            return self.boot(apdu)
        return self.signer(apdu)

    # -- bootloader UI -------------------------------------------------------------------
    def boot(self, apdu):
        cmd = apdu[1]
        if cmd != 0x50:
            self.ui_att = None
        if cmd == 0x43:
            return bytes([0x80, MODE_BOOTLOADER])
        if cmd == 0x06:
            return bytes([0x80, 1 if self.onboarded else 0, int(self.f.ui_version[0]),
                          int(self.f.ui_version[2]), 0])
        if cmd == 0x02:
            return bytes(apdu)
        if cmd == 0x45:
            return bytes([0x80, 0x45, self.retries])
        if cmd == 0x44:                                   # SEED: onboard.c set_host_seed
            if self.onboarded:
                raise SW(UI_ONBOARDED)
            if len(apdu) - 3 != 1:
                raise SW(UI_PROT_INVALID)
            if apdu[2] < 32:
                self.host_seed[apdu[2]] = apdu[3]
            return b""
        if cmd == 0x41:                                   # SEND_PIN: pin.c update_pin_buffer
            if len(apdu) - 3 != 1:
                raise SW(UI_PROT_INVALID)
            if apdu[2] <= 9:
                self.pin_buffer[apdu[2]] = apdu[3]
                self.pin_buffer[apdu[2] + 1] = 0
            return bytes([0x80, 0x41, apdu[2]])
        if cmd == 0x07:                                   # WIPE: onboard.c onboard_device
            if self.onboarded:
                raise SW(UI_ONBOARDED)
            n = self.pin_buffer[0]
            pin = bytes(self.pin_buffer[1:1 + n])
            if not pin_policy_ok(pin):
                raise SW(UI_INVALID_PIN)
            self.seed = ledger_seed(self.f, bytes(self.host_seed))
            self.pin = pin
            self.endorsement = None                       # attestation keys are wiped
            self.onboarded = True
            self.unlocked = True
            self.retries = 3
            return bytes([0x80, 2, 1])
        if cmd == 0xFE:                                   # UNLOCK: unlock.c
            pin = bytes(self.pin_buffer).split(b"\x00")[0]
            ok = self.onboarded and self.retries > 0 and pin == self.pin
            if ok:
                self.unlocked = True
                self.retries = 3
            elif self.onboarded and self.retries > 0:
                self.retries -= 1
            return bytes([0x80, 0xFE, 1 if ok else 0])
        if cmd == 0x50:
            return self.ui_attestation(apdu)
        if cmd in (0xFF, 0xFA):
            if not self.unlocked:
                raise SW(0x6982)
            self.state = ST_SIGNER if cmd == 0xFF else ST_DASHBOARD
            self.reset_session()
            raise DropLink()
        raise SW(INS_NOT_SUPPORTED)

    def ui_attestation(self, apdu):                      # ui/src/attestation.c
        if not self.onboarded:
            raise SW(ATT_NO_ONBOARD)
        if len(apdu) < 3:
            raise SW(UI_PROT_INVALID)
        op, data = apdu[2], bytes(apdu[3:])
        if op == 0x04:
            return bytes([0x80, 0x50, 0x04]) + self.part("ui.apphash", self.f.ui_hash)
        if op == 0x01:
            if self.ui_att is not None or len(data) != 32:
                self.ui_att = None
                raise SW(UI_PROT_INVALID)
            self.ui_att = L.ui_message(self.f.ui_header, data, self.wallet(L.UI_PATH).pub33,
                                       self.f.signer_hash, self.signer_iteration)
            return bytes([0x80, 0x50, 0x01])
        if self.ui_att is None:
            raise SW(UI_PROT_INVALID)
        if op == 0x02:
            if len(data) != 1:
                raise SW(UI_PROT_INVALID)
            return bytes([0x80, 0x50, 0x02]) + self.paged(
                "ui.msg", self.part("ui.msg", self.ui_att), self.ui_page_size, data[0])
        if op == 0x03:
            msg, self.ui_att = self.ui_att, None
            if self.endorsement is None:
                raise SW(0x6985)
            key = self.f.tweaked(self.endorsement, self.f.ui_hash)
            return bytes([0x80, 0x50, 0x03]) + self.part("ui.sig", self.f.sign(key, msg))
        self.ui_att = None
        raise SW(UI_PROT_INVALID)

    # -- BOLOS dashboard: endorsement setup ------------------------------------------------
    def dashboard(self, apdu):
        cmd, data = apdu[1], bytes(apdu[2:])
        if cmd == 0x04:                                   # IDENTIFY: p1 p2 len target_id
            if data[3:] != bytes.fromhex("31100002"):
                raise SW(0x6484)
            return b""
        if cmd == 0x50:                                   # NONCE
            self.nonce_host = data[3:]
            self.nonce_dev = hashlib.sha256(b"nonce" + self.f.secret + self.nonce_host).digest()[:8]
            return self.part("nonce.resp", self.f.batch + self.nonce_dev)
        if cmd == 0x51:                                   # SEND_KEY master / ephemeral
            cert = data[3:]
            pub = cert[1:1 + cert[0]]
            sig = cert[2 + cert[0]:2 + cert[0] + cert[1 + cert[0]]]
            if self.check_host:
                if data[0] == 0x00:
                    ok = k1.verify(pub, bytes([0x01]) + pub, sig)
                    self.master_pub = pub
                else:
                    ok = self.master_pub is not None and k1.verify(
                        self.master_pub, bytes([0x11]) + self.nonce_host + self.nonce_dev + pub, sig)
                self.host_conformance.append(("send-key-%02x" % data[0], ok))
                if not ok:
                    raise SW(0x6982)
            return b""
        if cmd == 0x52:                                   # GET_KEY device / ephemeral
            if data[0] == 0x00:
                hdr = self.part("devkey.header", self.f.cert_header)
                pub = self.part("devkey.pub", self.f.device.pub65)
                sig = self.part("devkey.sig", self.f.issuer_sig)
                lens = self.part("devkey.lens", bytes([len(hdr), len(pub), len(sig)]))
                return bytes([lens[0]]) + hdr + bytes([lens[1]]) + pub + bytes([lens[2]]) + sig
            eph = self.f.key(b"ephemeral", self.nonce_dev or b"")
            sig = self.f.sign(self.f.device, bytes([0x12]) + eph.pub65)
            return self.part("ephemeral.resp",
                             bytes([0]) + bytes([65]) + eph.pub65 + bytes([len(sig)]) + sig)
        if cmd == 0xC0:                                   # SETUP_ENDO p1 = scheme
            if data[0] not in (1, 2):
                raise SW(0x6A80)
            self.endo_counter += 1
            key = self.f.key(b"endorsement", bytes([data[0], self.endo_counter]))
            self.endo_pending = (data[0], key)
            sig = self.f.sign(self.f.device, bytes([0xFF]) + key.pub65)
            return self.part("endo.pub", key.pub65) + self.part("endo.sig", sig)
        if cmd == 0xC2:                                   # SETUP_ENDO_ACK
            if self.endo_pending is None:
                raise SW(0x6985)
            scheme, key = self.endo_pending
            self.endo_pending = None
            if scheme == 2:
                self.endorsement = key
            return b""
        raise SW(INS_NOT_SUPPORTED)

    # -- signer app ----------------------------------------------------------------------
    def signer(self, apdu):
        cmd = apdu[1]
        if cmd != 0x50:
            self.sg_att = None
        if cmd == 0x43:
            return bytes([0x80, MODE_SIGNER])
        if cmd == 0x06:
            return bytes([0x80, 1, int(self.f.signer_version[0]), int(self.f.signer_version[2]), 0])
        if cmd == 0x04:
            path = bytes(apdu[2:])
            for i, p in enumerate(L.PATHS):
                if L.path_binary(p) == path:
                    return self.part("pubkey.%d" % i, self.pubkey_answer(i))
            raise SW(0x6A8F)
        if cmd == 0x50:
            return self.signer_attestation(apdu)
        if cmd == 0xFF:
            self.power_cycle()
            raise DropLink()
        raise SW(INS_NOT_SUPPORTED)

    def signer_attestation(self, apdu):                   # powhsm/src/attestation.c
        if len(apdu) < 3:
            raise SW(ATT_PROT_INVALID)
        op, data = apdu[2], bytes(apdu[3:])
        if op == 0x01:
            if len(data) != 32:
                self.sg_att = None
                raise SW(ATT_PROT_INVALID)
            if self.f.legacy_signer:
                msg = L.legacy_message(self.f.signer_header, self.keys_hash())
            else:
                msg = L.powhsm_message(self.f.signer_header, b"led", data, self.keys_hash(),
                                       self.best_block, self.last_tx_hash[:8], 0)
            if self.endorsement is None:
                raise SW(ATT_INTERNAL)
            self.sg_att = msg
            key = self.f.tweaked(self.endorsement, self.f.signer_hash)
            return bytes([0x80, 0x50, 0x01]) + self.part("signer.sig", self.f.sign(key, msg))
        if self.sg_att is None:
            raise SW(ATT_PROT_INVALID)
        if op in (0x02, 0x04):
            if self.f.legacy_signer:
                if op == 0x04:
                    raise SW(ATT_PROT_INVALID)
                # legacy firmware: the whole message, no paging, no flag byte
                return bytes([0x80, 0x50, 0x02]) + self.part("signer.msg", self.sg_att)
            if len(data) != 1:
                raise SW(ATT_PROT_INVALID)
            stage = "signer.msg" if op == 0x02 else "signer.env"
            return bytes([0x80, 0x50, op]) + self.paged(stage, self.part(stage, self.sg_att),
                                                        SIGNER_PAGE, data[0])
        if op == 0x03:
            return bytes([0x80, 0x50, 0x03]) + self.part("signer.apphash", self.f.signer_hash)
        raise SW(ATT_PROT_INVALID)


GenuineLedger.page_error = UI_PROT_INVALID


class SgxPlatform:
    """PCK hierarchy + quoting enclave + powHSM enclave + its sealed wallet."""

    def __init__(self, rng, auth_len=32, chain_len=3, profile="seeded", window=None,
                 version="5.4"):
        self.version = version
        self.h = S.Hierarchy(rng, 0, *(window or (None, None)))
        self.enclave = S.Enclave(rng, self.h, auth_len, chain_len)
        self.wallet = {p: k1.Key.from_rng(rng) for p in L.PATHS}
        self.best_block = rng.nz_bytes(32)
        self.last_tx_hash = rng.nz_bytes(32)
        sh = lambda x: L.shape(x, profile)       # noqa: E731
        self.best_block, self.last_tx_hash = sh(self.best_block), sh(self.last_tx_hash)
        self.enclave.mrenclave, self.enclave.mrsigner = \
            sh(self.enclave.mrenclave), sh(self.enclave.mrsigner)
        self.pin = b"abcd1234"
        h = hashlib.sha256()
        for p in L.PATHS:
            h.update(self.wallet[p].pub65)
        self.keys_hash = h.digest()

    def message(self, ud):
        return L.powhsm_message(b"POWHSM:" + self.version.encode() + b"::", b"sgx", ud, self.keys_hash, self.best_block,
                                self.last_tx_hash[:8], 0)


class GenuineSgx(Device, Alterable, PubkeySwap):
    page_error = ATT_PROT_INVALID
    sig_order = S.P256_N

    def __init__(self, platform):
        self.p = platform
        self.locked = True
        self.retries = 3
        self.alter = None
        self.altered_hit = False
        self.att = None

    def reset_session(self):
        self.att = None

    def on_reconnect(self):
        self.reset_session()

    def wallet_pub(self, i):
        return self.p.wallet[L.PATHS[i]].pub65

    def envelope_for(self, message):
        f = self.p.enclave.fields(message)
        a = self.alter
        if a is not None and a.get("kind") == "cert-der":
            ders = list(self.p.enclave.cert_ders)
            d = ders[a["cert"]]
            i = a["index"]
            ders[a["cert"]] = d[:i] + bytes([d[i] ^ a["mask"]]) + d[i + 1:]
            f["cert_data"] = S.pem_chain(ders)
            self.altered_hit = True
        raw = S.build_envelope(f)
        if a is not None and a.get("kind") == "bit" and a["field"].startswith("env."):
            name = a["field"][4:]
            s, e = S.regions(f)[name]
            i = s + a["index"]
            if i < e:
                raw = raw[:i] + bytes([raw[i] ^ a["mask"]]) + raw[i + 1:]
                self.altered_hit = True
        if a is not None and a.get("kind") == "sigalg" and a["field"].startswith("env."):
            st, e = S.regions(f)[a["field"][4:]]
            r, s2 = sig_op(int.from_bytes(raw[st:st + 32], "big"),
                           int.from_bytes(raw[st + 32:e], "big"), a["op"], S.P256_N)
            raw = raw[:st] + r.to_bytes(32, "big") + s2.to_bytes(32, "big") + raw[e:]
            self.altered_hit = True
        if a is not None and a.get("kind") == "both":
            # the enclave is asked to attest another message: consistent everywhere but in the
            # quote that was signed
            s, e = S.regions(f)["custom_message"]
            i = s + a["index"]
            raw = raw[:i] + bytes([raw[i] ^ a["mask"]]) + raw[i + 1:]
            self.altered_hit = True
        return f, raw

    def handle(self, apdu):
        if len(apdu) < 2:
            raise SW(0x6982)
        if apdu[0] != 0x80:
            raise SW(0x6E11)
        cmd = apdu[1]
        if cmd != 0x50:
            self.att = None
        if cmd == 0x43:
            return bytes([0x80, MODE_BOOTLOADER if self.locked else MODE_SIGNER])
        if cmd == 0x06:
            return bytes([0x80, 1, int(self.p.version[0]), int(self.p.version[2]), 0])
        if cmd == 0xA4:
            return bytes(apdu)
        if cmd == 0xA2:
            return bytes([0x80, 0xA2, self.retries])
        if cmd == 0xA3:
            ok = self.retries > 0 and bytes(apdu[3:]) == self.p.pin
            if ok:
                self.locked = False
                self.retries = 3
            elif self.retries > 0:
                self.retries -= 1
            return bytes([0x80, 0xA3, 1 if ok else 0])
        if self.locked:
            raise SW(0x6BF1)
        if cmd == 0x04:
            path = bytes(apdu[2:])
            for i, p in enumerate(L.PATHS):
                if L.path_binary(p) == path:
                    return self.part("pubkey.%d" % i, self.pubkey_answer(i))
            raise SW(0x6A8F)
        if cmd == 0x50:
            return self.attestation(apdu)
        raise SW(INS_NOT_SUPPORTED)

    def attestation(self, apdu):
        if len(apdu) < 3:
            raise SW(ATT_PROT_INVALID)
        op, data = apdu[2], bytes(apdu[3:])
        if op == 0x01:
            if len(data) != 32:
                self.att = None
                raise SW(ATT_PROT_INVALID)
            msg = self.p.message(data)
            f, raw = self.envelope_for(msg)
            stream_msg = msg
            a = self.alter
            if a is not None and a.get("kind") == "both":
                i = a["index"]
                stream_msg = msg[:i] + bytes([msg[i] ^ a["mask"]]) + msg[i + 1:]
            self.att = {"msg": stream_msg, "env": raw, "fields": f}
            # endorsement.c endorsement_sign: the DER form (der_utils.c) of the signature that is
            # inside the envelope (after any alteration of the envelope)
            st = S.regions(f)["signature"][0]
            return bytes([0x80, 0x50, 0x01]) + self.part("sig", fw_der_signature(raw[st:st + 64]))
        if self.att is None:
            raise SW(ATT_PROT_INVALID)
        if op in (0x02, 0x04):
            if len(data) != 1:
                raise SW(ATT_PROT_INVALID)
            stage = "msg" if op == 0x02 else "env"
            buf = self.part("message", self.att["msg"]) if op == 0x02 else self.att["env"]
            return bytes([0x80, 0x50, op]) + self.paged(stage, buf, SIGNER_PAGE, data[0])
        if op == 0x03:
            rb = self.att["fields"]["quote"][L.QUOTE_HEADER_LEN:]
            return bytes([0x80, 0x50, 0x03]) + self.part(
                "apphash", rb[L.RB_MRENCLAVE[0]:L.RB_MRENCLAVE[1]])
        raise SW(ATT_PROT_INVALID)


def pin_policy_ok(pin):
    """pin_policy.c: exactly 8 alphanumeric chars, at least one alphabetic"""
    if len(pin) != 8:
        return False
    if not all(chr(c).isascii() and chr(c).isalnum() for c in pin):
        return False
    return any(chr(c).isalpha() for c in pin)
