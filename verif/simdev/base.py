"""World / transport layer standing in for ledgerblue (DESIGN 2.2).

``World.get_dongle`` replaces ``getDongle``; the object it returns has the
``exchange/close/opened`` surface the middleware uses.  Faults are raised exactly
as ledgerblue raises them because the middleware classifies them by type and text.
"""
from ledgerblue.commException import CommException


class SW(Exception):
    """Raised by a device model: answer with this status word."""

    def __init__(self, sw, data=b""):
        super().__init__(hex(sw))
        self.sw = sw
        self.data = data


def comm_exception_for_sw(sw, data=b""):
    return CommException("Invalid status %04x (%s)" % (sw, "Unknown reason"), sw, data)


def raise_fault(kind):
    if kind == "write":
        raise BaseException("Error while writing")
    if kind == "read":
        raise OSError("read error")
    if kind == "timeout":
        raise CommException("Timeout")
    raise AssertionError(kind)


class DropLinkBase(Exception):
    """The device re-enumerates: the pending exchange fails with a link error."""


class DeviceFault(Exception):
    """Raised by a device model: the pending exchange ends in this transport fault."""
    kind = "timeout"


class Device:
    """Base class of device models."""

    def handle(self, apdu):
        raise NotImplementedError

    def reset_session(self):
        pass

    def on_reconnect(self):
        pass


class World:
    def __init__(self, device, max_exchanges=10000):
        self.device = device
        self.log = []              # ("open",) ("open-fail",) ("close",) ("x", idx, apdu, outcome)
        self.seq = 0
        self.connect_failures = 0
        self.hid_model = False     # see HidStub
        self.hid_resets = 0
        self.hid_resets_used = 0   # value of hid_resets at the last getDongle attempt
        self.unplugged = False     # a link failure happened since the last successful open
        self.opens_seen = 0        # getDongle calls so far
        self.fail_open_at = None   # ordinal (in opens_seen) of one getDongle call that is to fail
        self.inject = None         # callable(world, idx, apdu) -> None | fault tuple
        self.dead = False          # a crash froze the world: nothing has any effect
        self.max_exchanges = max_exchanges
        self.livelock = False
        self.tag = None            # request tag (C12)
        self.on_exchange = None    # scheduling hook (C12)
        self.drop_kind = "read"    # how a re-enumerating device shows on the link

    # replacement for ledgerblue.comm.getDongle / commTCP.getDongle
    def get_dongle(self, *a, **k):
        if self.dead:
            raise CommException("No dongle found")
        self.opens_seen += 1
        if self.hid_model and self.unplugged:
            fresh = self.hid_resets > self.hid_resets_used
            self.hid_resets_used = self.hid_resets
            if not fresh:
                self.log.append(("open-fail",))
                raise CommException("No dongle found")
        if self.fail_open_at is not None and self.opens_seen == self.fail_open_at:
            self.fail_open_at = None
            self.log.append(("open-fail",))
            raise CommException("No dongle found")
        if self.connect_failures > 0:
            self.connect_failures -= 1
            self.log.append(("open-fail",))
            raise CommException("No dongle found")
        self.log.append(("open",))
        self.unplugged = False
        self.__dict__["unread_answers"] = []
        self.device.on_reconnect()
        return Transport(self)

    def apdus(self):
        return [e[2] for e in self.log if e[0] == "x"]

    def exchanges(self):
        return [e for e in self.log if e[0] == "x"]


class FakeStreamSocket:
    """the socket of ledgerblue's TCP transport (DongleServer.socket): blocking unless somebody sets a
    time limit on it"""

    def __init__(self):
        self.timeout = None

    def settimeout(self, t):
        self.timeout = t

    def gettimeout(self):
        return self.timeout

    def setsockopt(self, *a):
        pass

    def close(self):
        pass


class Transport:
    def __init__(self, world):
        self.world = world
        self.opened = True
        if getattr(world, "platform", "ledger") in ("tcp", "sgx"):
            self.socket = FakeStreamSocket()

    def close(self):
        self.world.log.append(("close",))
        self.opened = False

    def exchange(self, apdu, timeout=20000):
        w = self.world
        apdu = bytes(apdu)
        if w.on_exchange is not None:
            w.on_exchange(apdu)
        if w.dead:
            raise OSError("read error")
        if not self.opened:
            w.log.append(("use-after-close", None, apdu))
            raise ValueError("not open")
        idx = w.seq
        w.seq += 1
        if idx >= w.max_exchanges:
            w.livelock = True
            w.dead = True
            raise OSError("read error")
        fault = w.inject(w, idx, apdu) if w.inject is not None else None
        if fault is not None:
            kind = fault[0]
            if kind == "write":
                w.log.append(("x", idx, apdu, ("fault", "write"), w.tag))
                w.device.reset_session()
                w.unplugged = True
                raise_fault("write")
            if kind == "timeout":
                w.log.append(("x", idx, apdu, ("fault", "timeout"), w.tag))
                w.device.reset_session()
                raise_fault("timeout")
            if kind == "sw":
                w.log.append(("x", idx, apdu, ("sw", fault[1]), w.tag))
                w.device.reset_session()
                raise comm_exception_for_sw(fault[1])
            if kind == "raw":
                w.log.append(("x", idx, apdu, ("ok", bytes(fault[1])), w.tag))
                w.device.reset_session()
                return bytearray(fault[1])
        try:
            resp = w.device.handle(apdu)
        except DropLinkBase:
            w.log.append(("x", idx, apdu, ("fault", "drop"), w.tag))
            raise_fault(w.drop_kind)
        except DeviceFault as df:
            w.log.append(("x", idx, apdu, ("fault", df.kind), w.tag))
            raise_fault(df.kind)
        except SW as e:
            w.log.append(("x", idx, apdu, ("sw", e.sw), w.tag))
            raise comm_exception_for_sw(e.sw, e.data)
        if fault is not None and fault[0] == "read":
            w.log.append(("x", idx, apdu, ("fault", "read"), w.tag))
            w.unplugged = True
            raise_fault("read")
        if fault is not None and fault[0] == "late":
            # the other end of a STREAM answers after the time limit somebody put on the socket: the
            # exchange ends in socket.timeout and the answer is what the next exchange on this
            # connection reads.  Without a time limit (the unchanged tree) the exchange just waits.
            sock = getattr(self, "socket", None)
            if sock is not None and sock.timeout is not None:
                import socket as _socket
                w.log.append(("x", idx, apdu, ("fault", "late"), w.tag))
                w.__dict__.setdefault("unread_answers", []).append(bytes(resp))
                raise _socket.timeout("timed out")
        if fault is not None and fault[0] == "opbyte":
            resp = bytearray(resp)
            if len(resp) > 2 and resp[2] != fault[1]:
                resp[2] = fault[1]
                w.device.reset_session()
        w.log.append(("x", idx, apdu, ("ok", bytes(resp)), w.tag))
        # ledgerblue's HID transport (comm.py, waitFirstResponse): the command is written first, then
        # the answer is polled for with ``time.time() - start > timeout``.  A timeout that is not a
        # number fails there with TypeError - after the device took the command; its answer stays in
        # the queue and is what the NEXT exchange reads.
        q = w.__dict__.setdefault("unread_answers", [])
        if isinstance(timeout, bool) or not isinstance(timeout, (int, float)):
            q.append(bytes(resp))
            raise TypeError("unsupported operand type(s) for -: 'float' and '%s'" % type(timeout).__name__)
        if q:
            q.append(bytes(resp))
            resp = q.pop(0)
        return bytearray(resp)


CURRENT_WORLD = [None]      # set by harness.bind_world


class HidStub:
    """stands in for the ``hid`` module.  hsm2dongle.disconnect() calls hidapi_exit() because "the hidapi
    library fails to detect a physical usb device reconnection" otherwise: with ``World.hid_model`` on,
    a device that went away is only found again by a getDongle() made after a reset of the stack."""

    @staticmethod
    def hidapi_exit():
        w = CURRENT_WORLD[0]
        if w is not None:
            w.hid_resets += 1
        return 0
