"""Policy devices: the device side of a streaming dialogue as a nondeterministic
automaton (DESIGN 2.2).  At every answer the device ``choose``s among the firmware's
own next request (default, choice 0) and the departures the property quantifies over
(other chunk sizes, moving on early, asking again late, final answer shapes).
They do not validate content: they *reassemble* what they receive; the oracle compares
the reassembly with an independent encoding of the client's request."""
import struct

from .base import Device, SW

FW_MAX = 80


def der_menu(rng):
    r32 = rng.nz_bytes(32)
    s32 = rng.nz_bytes(32)
    r33 = b"\x00" + bytes([r32[0] | 0x80]) + r32[1:]
    s33 = b"\x00" + bytes([s32[0] | 0x80]) + s32[1:]

    def enc(r, s, tag=0x30, trail=b""):
        body = b"\x02" + bytes([len(r)]) + r + b"\x02" + bytes([len(s)]) + s
        return bytes([tag, len(body)]) + body + trail

    good = [
        ("std", enc(r32, s32), r32, s32),
        ("r33s33", enc(r33, s33), r33, s33),
        ("r1s1", enc(b"\x05", b"\x07"), b"\x05", b"\x07"),
        ("tag31", enc(r32, s33, tag=0x31), r32, s33),
        ("trailing", enc(r32, s32, trail=b"\xde\xad"), r32, s32),
        ("r31s32", enc(r32[1:], s32), r32[1:], s32),
        # r begins with the uncompressed-key prefix, s ends with the bytes of the success status word
        ("r04-s9000", enc(b"\x04\x04" + r32[2:], s32[:-2] + b"\x90\x00"), b"\x04\x04" + r32[2:],
         s32[:-2] + b"\x90\x00"),
    ]
    bad = [
        ("empty", b""),
        ("one-byte", b"\x30"),
        ("wrong-tag", b"\x32" + enc(r32, s32)[1:]),
        ("r-not-int", enc(r32, s32)[:2] + b"\x03" + enc(r32, s32)[3:]),
        ("s-not-int", enc(r32, s32)[:4 + 32] + b"\x03" + enc(r32, s32)[4 + 33:]),
        ("truncated", enc(r32, s32)[:40]),
    ]
    return good, bad


class PolicySigner(Device):
    """Sign dialogue (authorized and unauthorized)."""

    PHASES = [("btc", 0x02), ("receipt", 0x04), ("proof", 0x08)]

    def __init__(self, ctx, lens, auth, ders, sizes=(1, 2, 7, 255), late_max=2,
                 compose=None):
        self.ctx = ctx
        self.lens = lens                # expected length per phase (from the harness)
        self.auth = auth
        self.good, self.bad = ders
        self.sizes = sizes
        self.late_max = late_max
        self.compose = compose          # phase name whose requests enumerate every size
        self.sticky_sizes = ()          # sizes a phase may be asked for in from its first request to its end
        self.sticky = None
        self.force_sticky = None        # every part in requests of this size, no choices (long parts)
        self.first = None
        self.recv = {"btc": b"", "receipt": b"", "proof": b""}
        self.chunks = {"btc": [], "receipt": [], "proof": []}
        self.phase = None               # index in PHASES
        self.requested = None
        self.late = 0
        self.early = None
        self.finished = None            # (kind, name) of the final answer
        self.errors = []
        self.mode = 3
        self.extra_apdus = 0

    def handle(self, apdu):
        if apdu[:2] == b"\x80\x43":
            return bytes([0x80, self.mode])
        if apdu[:2] == b"\x80\x06":
            return bytes([0x80, 1, 5, 4, 1])
        if len(apdu) < 3 or apdu[0] != 0x80 or apdu[1] != 0x02:
            self.errors.append(("unexpected-apdu", apdu.hex()))
            raise SW(0x6D00)
        if self.finished is not None or self.early is not None and self.phase is None:
            self.extra_apdus += 1
        op = apdu[2]
        data = bytes(apdu[3:])
        if self.first is None:
            if op != 0x01:
                self.errors.append(("first-op", op))
                raise SW(0x6A89)
            self.first = data
            if not self.auth:
                return self.final()
            self.phase = 0
            return self.answer()
        if self.phase is None:
            self.errors.append(("apdu-after-end", apdu.hex()))
            raise SW(0x6A89)
        name, pop = self.PHASES[self.phase]
        if op != pop:
            self.errors.append(("wrong-op", name, op))
            raise SW(0x6A89)
        self.chunks[name].append((self.requested, data))
        self.recv[name] += data
        if not data and self.requested and self.lens[name] - len(self.recv[name]) > 0:
            # nothing sent although the device asked for bytes it is still owed: no progress is
            # possible from here (the firmware's parser would be fed nothing for ever)
            self.errors.append(("empty-chunk", name, len(self.recv[name]), self.lens[name]))
            self.phase = None
            raise SW(0x6A87)
        return self.answer()

    def answer(self):
        name, pop = self.PHASES[self.phase]
        rem = self.lens[name] - len(self.recv[name])
        ctx = self.ctx
        if rem > 0 and (self.sticky is not None or self.force_sticky is not None):
            # the whole part in requests of one size (one choice made at the start of the phase)
            self.requested = min(self.sticky if self.sticky is not None else self.force_sticky, 255)
            return bytes([0x80, 0x02, pop, self.requested])
        if rem > 0:
            default = min(rem, FW_MAX)
            if self.compose == name:
                opts = [("ask", default)] + [("ask", n) for n in range(1, min(rem + 1, 255) + 1)
                                            if n != default] + [("next",)]
            else:
                seen = {default}
                opts = [("ask", default)]
                for n in list(self.sizes) + [rem, rem + 1]:
                    if 1 <= n <= 255 and n not in seen:
                        seen.add(n)
                        opts.append(("ask", n))
                opts.append(("next",))
                if not self.chunks[name]:
                    opts += [("sticky", k) for k in self.sticky_sizes]
            c = ctx.choose(len(opts), "%s:more" % name) if ctx is not None else 0
            o = opts[c]
            if o[0] == "sticky":
                self.sticky = o[1]
                o = ("ask", min(o[1], 255))
            if o[0] == "next":
                self.early = name
        else:
            opts = [("next",)]
            if self.late < self.late_max and rem == 0:
                opts += [("ask", 1), ("ask", FW_MAX)]
            c = ctx.choose(len(opts), "%s:done" % name) if ctx is not None and len(opts) > 1 else 0
            o = opts[c]
            if o[0] == "ask":
                self.late += 1
        if ctx is not None:
            ctx.state(("sign", self.phase, len(self.recv[name]), self.late, o))
        if o[0] == "ask":
            self.requested = o[1]
            return bytes([0x80, 0x02, pop, o[1]])
        # move on
        self.phase += 1
        self.late = 0
        if self.phase >= len(self.PHASES):
            self.phase = None
            return self.final()
        nname, npop = self.PHASES[self.phase]
        # the firmware's first request of a phase is made before the length is known
        first = FW_MAX
        if self.compose == nname:
            n = self.lens[nname]
            opts = [first] + [k for k in range(1, min(n + 1, 255) + 1) if k != first]
            first = opts[ctx.choose(len(opts), "%s:first" % nname)] if ctx is not None else first
        else:
            opts = [first] + [k for k in self.sizes if k != first] + [("sticky", k) for k in self.sticky_sizes]
            first = opts[ctx.choose(len(opts), "%s:first" % nname)] if ctx is not None else first
        self.sticky = None
        if isinstance(first, tuple):
            self.sticky = first[1]
            first = min(first[1], 255)
        self.requested = first
        return bytes([0x80, 0x02, npop, first])

    def final(self):
        ctx = self.ctx
        menu = [("good", g) for g in self.good] + [("bad", b) for b in self.bad]
        c = ctx.choose(len(menu), "der") if ctx is not None else 0
        kind, entry = menu[c]
        self.finished = (kind, entry)
        self.phase = None
        return bytes([0x80, 0x02, 0x81]) + entry[1]


class PolicyBlocks(Device):
    """advanceBlockchain / updateAncestorBlock dialogue."""

    def __init__(self, ctx, advance, sizes=(1, 7, 255), allow_early=True):
        self.ctx = ctx
        self.advance = advance
        self.cmd = 0x10 if advance else 0x30
        self.sizes = sizes
        self.allow_early = allow_early
        self.init = None
        self.items = []        # one per header: dict(kind, meta, chunks, data, stopped_early)
        self.cur = None
        self.brother_counts = []   # (block_index, count)
        self.final = None
        self.errors = []
        self.mode = 3
        self.expect = "init"
        self.requested = None
        self.brothers_left = 0

    def choose(self, n, label):
        if self.ctx is None or n <= 1:
            return 0
        return self.ctx.choose(n, label)

    def handle(self, apdu):
        if apdu[:2] == b"\x80\x43":
            return bytes([0x80, self.mode])
        if apdu[:2] == b"\x80\x06":
            return bytes([0x80, 1, 5, 4, 1])
        if len(apdu) < 3 or apdu[0] != 0x80 or apdu[1] != self.cmd:
            self.errors.append(("unexpected-apdu", apdu.hex()))
            raise SW(0x6D00)
        op = apdu[2]
        data = bytes(apdu[3:])
        cmd = self.cmd
        if self.expect == "init":
            if op != 0x02:
                self.errors.append(("first-op", op))
                raise SW(0x6B87)
            self.init = data
            self.expect = "meta"
            return bytes([0x80, cmd, 0x03])
        if self.expect == "end":
            self.errors.append(("apdu-after-end", apdu.hex()))
            raise SW(0x6B87)
        if self.expect in ("meta", "bmeta"):
            want = 0x03 if self.expect == "meta" else 0x08
            if op != want:
                self.errors.append(("wrong-op", self.expect, op))
                raise SW(0x6B87)
            self.cur = {"kind": "block" if op == 0x03 else "brother", "meta": data,
                        "chunks": [], "data": b"", "size": None, "of_block": self.nblocks() - (0 if op == 0x03 else 1)}
            self.items.append(self.cur)
            self.expect = "chunk" if op == 0x03 else "bchunk"
            first = self.first_request()
            self.requested = first
            return bytes([0x80, cmd, 0x04 if op == 0x03 else 0x09, first])
        if self.expect in ("chunk", "bchunk"):
            want = 0x04 if self.expect == "chunk" else 0x09
            if op != want:
                self.errors.append(("wrong-op", self.expect, op))
                raise SW(0x6B87)
            cur = self.cur
            cur["chunks"].append((self.requested, data))
            cur["data"] += data
            if cur["size"] is None and cur["data"]:
                cur["size"] = announced_size(cur["data"])
            return self.after_chunk(want)
        if self.expect == "blist":
            if op != 0x07:
                self.errors.append(("wrong-op", "blist", op))
                raise SW(0x6B87)
            self.brother_counts.append((self.nblocks() - 1, data))
            n = data[0] if len(data) == 1 else 0
            self.brothers_left = n
            if n == 0:
                return self.end_of_block()
            self.expect = "bmeta"
            return bytes([0x80, cmd, 0x08])
        raise SW(0x6B87)

    def nblocks(self):
        return sum(1 for i in self.items if i["kind"] == "block")

    def first_request(self):
        opts = [FW_MAX] + [k for k in self.sizes if k != FW_MAX]
        return opts[self.choose(len(opts), "first")]

    def after_chunk(self, op):
        cur = self.cur
        size = cur["size"] if cur["size"] is not None else 10 ** 9
        rem = size - len(cur["data"])
        if rem > 0 and cur["chunks"] and len(cur["chunks"]) < 4000:
            default = min(rem, FW_MAX)
            seen = {default}
            opts = [("ask", default)]
            for n in list(self.sizes) + [rem, rem + 1]:
                if 1 <= n <= 255 and n not in seen:
                    seen.add(n)
                    opts.append(("ask", n))
            if not cur.get("zero_asked"):
                opts.append(("ask", 0))      # a request for no bytes at all (once per header): answered by an empty chunk
            if self.allow_early:
                opts.append(("stop",))
            # the host ran out of data although the prefix announced more: stop asking
            if cur["chunks"][-1][1] == b"" and cur["chunks"][-1][0] != 0:
                opts = [("stop",)]
            o = opts[self.choose(len(opts), "more")]
            if self.ctx is not None:
                self.ctx.state(("blk", len(self.items), len(cur["data"]), o))
            if o[0] == "ask":
                if o[1] == 0:
                    cur["zero_asked"] = True
                self.requested = o[1]
                return bytes([0x80, self.cmd, op, o[1]])
            cur["stopped_early"] = True
        return self.header_done()

    def header_done(self):
        cur = self.cur
        cmd = self.cmd
        if cur["kind"] == "brother":
            self.brothers_left -= 1
            if self.brothers_left > 0:
                # bc_advance.c: the firmware always takes every announced brother
                self.expect = "bmeta"
                return bytes([0x80, cmd, 0x08])
            return self.end_of_block()
        if self.advance:
            opts = ["blist", "endblock"]
            o = opts[self.choose(len(opts), "brothers?")]
            if o == "blist":
                self.expect = "blist"
                return bytes([0x80, cmd, 0x07])
        return self.end_of_block()

    def end_of_block(self):
        cmd = self.cmd
        total = struct.unpack(">I", self.init)[0] if self.init and len(self.init) == 4 else 0
        done = self.nblocks()
        if done < total:
            opts = ["meta", "success"] + (["partial"] if self.advance else [])
        else:
            opts = ["success"] + (["partial"] if self.advance else [])
        o = opts[self.choose(len(opts), "end-of-block:%s" % ("more" if done < total else "last"))]
        if self.ctx is not None:
            self.ctx.state(("eob", done, o))
        if o == "meta":
            self.expect = "meta"
            return bytes([0x80, cmd, 0x03])
        self.expect = "end"
        self.final = o
        if self.advance:
            return bytes([0x80, cmd, 0x06 if o == "success" else 0x05])
        return bytes([0x80, cmd, 0x05])


def announced_size(b):
    """total size an RLP prefix announces (as far as it is visible)"""
    p = b[0]
    if p < 0x80:
        return 1
    if p < 0xb8:
        return 1 + p - 0x80
    if p < 0xc0:
        ll = p - 0xb7
        if len(b) < 1 + ll:
            return None
        return 1 + ll + int.from_bytes(b[1:1 + ll], "big")
    if p < 0xf8:
        return 1 + p - 0xc0
    ll = p - 0xf7
    if len(b) < 1 + ll:
        return None
    return 1 + ll + int.from_bytes(b[1:1 + ll], "big")
