"""Conforming powHSM device model (Ledger UI/bootloader + signer app, SGX variants).

Behaviour is read off the firmware sources (file names in the comments); numeric
tables come from ``fwtables`` which parses the C headers at run time.  The model is
*conforming*: for any host input it answers as the firmware's protocol prescribes
(error status words inside the device's range for malformed input) and never
departs from protocol by itself.
"""
import hashlib
import struct

from .base import Device, SW, DropLinkBase
from ..refs import rlp as R
from ..refs import btc as B

MODE_BOOTLOADER, MODE_SIGNER, MODE_UI_HEARTBEAT = 2, 3, 4
MAX_RLP_CTX_DEPTH = 5    # srlp.h
MAX_CHUNK = 80           # AUTH_MAX_EXCHANGE_SIZE / MAX_CHUNK_SIZE (srlp.h, bc_advance.c)

AUTH_PATHS = [bytes.fromhex("052c00008000000080000000800000000000000000"),
              bytes.fromhex("052c00008001000080000000800000000000000000")]
NOAUTH_PATHS = [bytes.fromhex("052c00008089000080000000800000000000000000"),
                bytes.fromhex("052c00008089000080010000800000000000000000"),
                bytes.fromhex("052c00008001000080010000800000000000000000"),
                bytes.fromhex("052c00008001000080020000800000000000000000")]
PATH_STRS = ["m/44'/0'/0'/0/0", "m/44'/1'/0'/0/0", "m/44'/137'/0'/0/0",
             "m/44'/137'/1'/0/0", "m/44'/1'/1'/0/0", "m/44'/1'/2'/0/0"]

# status words (auth.h, bc_err.h, err.h, ui_err.h) -- cross-checked by fwtables
E_DATA_SIZE, E_INPUT, E_STATE, E_RLP, E_RLP_INT = 0x6A87, 0x6A88, 0x6A89, 0x6A8A, 0x6A8B
E_TXHASH, E_TXVER, E_PATH, E_SZ_AUTH, E_SZ_NOAUTH = 0x6A8D, 0x6A8E, 0x6A8F, 0x6A90, 0x6A91
E_SIGHASH_MODE, E_EXTRADATA = 0x6A97, 0x6A98
E_ROOT_MISMATCH = 0x6A96
BC_PROT_INVALID, BC_RLP_INVALID, BC_BLOCK_TOO_SHORT = 0x6B87, 0x6B88, 0x6B8A
BC_MM_RLP_LEN_MISMATCH = 0x6B93
BC_CB_TXN_HASH_MISMATCH = 0x6B9D
BC_BROTHERS_TOO_MANY = 0x6B9E
BC_BROTHER_ORDER = 0x6BA1
HBT_PROT_INVALID = 0x6B10
ATT_PROT_INVALID = 0x6B00
E_INS_NOT_SUPPORTED = 0x6D00
E_INVALID_CLA = 0x6E11
UI_PROT_INVALID, UI_INVALID_PIN, UI_ONBOARDED, UI_INVALID_CLA = 0x6A01, 0x69A0, 0x69A1, 0x6E22


def der(r, s):
    body = b"\x02" + bytes([len(r)]) + r + b"\x02" + bytes([len(s)]) + s
    return b"\x30" + bytes([len(body)]) + body


def pseudo_pubkey(seed, path):
    h1 = hashlib.sha256(b"pk1" + seed + path).digest()
    h2 = hashlib.sha256(b"pk2" + seed + path).digest()
    return b"\x04" + h1 + h2


class PowHsm(Device):
    """state + dispatch"""

    def __init__(self, seed=b"dev", mode=MODE_SIGNER, platform="ledger"):
        self.seed = seed
        self.platform = platform          # "ledger" | "sgx" | "tcp"
        self.mode = mode
        self.onboarded = True
        self.ui_version = (5, 4, 1)
        self.signer_version = (5, 4, 1)
        self.pin = b"1234567a"
        self.retries = 3
        self.unlocked = False
        self.pin_buffer = bytearray(12)
        self.echo_ok = True
        self.wiped = False
        # mode the device enters on EXIT from each mode: function(old_mode)->new mode
        self.next_mode = {MODE_BOOTLOADER: MODE_SIGNER, MODE_SIGNER: MODE_UI_HEARTBEAT,
                          MODE_UI_HEARTBEAT: MODE_SIGNER}
        self.exit_drops_link = True
        # blockchain state
        hs = lambda t: hashlib.sha256(b"st" + seed + t).digest()  # noqa: E731
        self.hashes = {0x01: hs(b"best"), 0x02: hs(b"newest"), 0x03: hs(b"anc"),
                       0x05: hs(b"ancrr"), 0x81: hs(b"ubest"), 0x82: hs(b"unewest"),
                       0x84: hs(b"unext")}
        self.difficulty = int.from_bytes(hs(b"diff")[:9], "big")
        self.flags = (0, 0, 0)
        self.checkpoint = hs(b"cp")
        self.min_difficulty = int.from_bytes(hs(b"mind")[:7], "big")
        self.network = 2
        # heartbeat / attestation material
        self.hb_pubkey = pseudo_pubkey(seed, b"hb")[:33]
        self.app_hash = hs(b"apphash")
        self.ui_hash = hs(b"uihash")
        # verdict hooks
        self.receipt_matches = True
        self.proof_ok = True
        self.advance_final = "success"     # or "partial"
        self.ask_brothers = True
        self.stamp = False                 # C12: answers depend on the exchange counter
        self.counter = 0
        # what the device ended up holding (per completed / aborted operation)
        self.held = []
        self.reset_session()

    # ------------------------------------------------------------------
    def reset_session(self):
        self.sign = None
        self.adv = None
        self.hb = None
        self.att = None

    def on_reconnect(self):
        self.reset_session()

    def ok(self, cmd, *rest):
        return bytes([0x80, cmd]) + b"".join(bytes([x]) if isinstance(x, int) else bytes(x)
                                             for x in rest)

    def fail(self, sw):
        self.reset_session()
        raise SW(sw)

    def handle(self, apdu):
        self.counter += 1
        if len(apdu) < 2:
            self.fail(0x6982)
        if self.mode == MODE_SIGNER:
            return self.signer(apdu)
        return self.ui(apdu)

    # ------------------------------------------------------------------
    # UI / bootloader (firmware/src/ledger/ui/src/bootloader.c, pin.c, unlock.c)
    # ------------------------------------------------------------------
    def ui(self, apdu):
        if apdu[0] != 0x80:
            self.fail(UI_INVALID_CLA)
        cmd = apdu[1]
        sgx = self.platform == "sgx"
        if cmd == 0x06:
            v = self.ui_version
            return bytes([0x80, 1 if self.onboarded else 0, v[0], v[1], v[2]])
        if cmd == 0x43:
            return bytes([0x80, self.mode])
        if self.mode == MODE_UI_HEARTBEAT:
            if cmd == 0x60:
                return self.heartbeat(apdu, ui=True)
            if cmd in (0xFF, 0xFA):
                return self.do_exit()
            self.fail(E_INS_NOT_SUPPORTED)
        if cmd == (0xA4 if sgx else 0x02):
            if self.echo_ok:
                return bytes(apdu)
            return bytes(apdu[:-1]) + bytes([apdu[-1] ^ 0xFF]) if len(apdu) > 2 else bytes(apdu) + b"\x00"
        if cmd == (0xA2 if sgx else 0x45):
            return self.ok(cmd, self.retries)
        if not sgx and cmd == 0x41:
            if len(apdu) - 3 != 1:
                self.fail(UI_PROT_INVALID)
            idx = apdu[2]
            if idx <= 8 + 1:   # MAX_PIN_LENGTH 8 (+ length prefix)
                self.pin_buffer[idx] = apdu[3]
                self.pin_buffer[idx + 1] = 0
            return self.ok(0x41, apdu[2])
        if not sgx and cmd == 0xFE:
            pin = bytes(self.pin_buffer).split(b"\x00")[0]
            return self.ok(0xFE, 1 if self.try_unlock(pin) else 0)
        if sgx and cmd == 0xA3:
            return self.ok(0xA3, 1 if self.try_unlock(bytes(apdu[3:])) else 0)
        if not sgx and cmd == 0x08:
            buf = bytes(self.pin_buffer)
            pin = buf[1:].split(b"\x00")[0]
            self.pin_buffer = bytearray(12)
            if not pin_policy_ok(pin):
                self.fail(UI_INVALID_PIN)
            self.pin = pin
            return self.ok(2, 1)
        if sgx and cmd == 0xA5:
            pin = bytes(apdu[3:])
            if not self.unlocked or not pin_policy_ok(pin):
                return self.ok(0xA5, 0)
            self.pin = pin
            return self.ok(0xA5, 1)
        if cmd in (0xFF, 0xFA):
            return self.do_exit()
        self.fail(E_INS_NOT_SUPPORTED)

    def try_unlock(self, pin):
        if self.retries == 0:
            return False
        if pin == self.pin:
            self.unlocked = True
            self.retries = 3
            return True
        self.retries -= 1
        if self.retries == 0:
            self.wiped = True
            self.onboarded = False
        return False

    def do_exit(self):
        if self.mode == MODE_BOOTLOADER and not self.unlocked and self.platform == "ledger":
            # leaving the bootloader without the PIN validated does not start the signer: the device is
            # back where it was, waiting for the PIN (ux_handlers.c: the signer is run from the
            # dashboard, which only comes up once the PIN was validated)
            self.reset_session()
            if self.exit_drops_link:
                raise DropLink()
            return self.ok(0xFF)
        self.mode = self.next_mode.get(self.mode, self.mode)
        self.reset_session()
        if self.exit_drops_link:
            raise DropLink()
        return self.ok(0xFF)

    # ------------------------------------------------------------------
    # signer (firmware/src/powhsm/src/hsm.c)
    # ------------------------------------------------------------------
    def signer(self, apdu):
        if apdu[0] != 0x80:
            self.fail(E_INVALID_CLA)
        cmd = apdu[1]
        if cmd == 0x06:
            v = self.signer_version
            return bytes([0x80, 1 if self.onboarded else 0, v[0], v[1], v[2]])
        if cmd == 0x43:
            return bytes([0x80, self.mode])
        if cmd not in (0x02,):
            self.sign = None
        if cmd not in (0x10, 0x30, 0x20):
            self.adv = None
        if cmd == 0x04:
            path = bytes(apdu[2:])
            if len(path) != 21:
                self.fail(E_DATA_SIZE)
            if path not in AUTH_PATHS + NOAUTH_PATHS:
                self.fail(E_DATA_SIZE)     # do_pubkey: invalid path -> ERR_INVALID_PATH
            return getattr(self, "pubkey_override", None) or pseudo_pubkey(self.seed, path)
        if cmd == 0x02:
            return self.do_sign(apdu)
        if cmd == 0x20:
            return self.get_state(apdu)
        if cmd == 0x21:
            if len(apdu) != 3 or apdu[2] != 0x01:
                self.fail(BC_PROT_INVALID)
            self.flags = (0, 0, 0)
            return self.ok(0x21, 0x02)
        if cmd == 0x11:
            return bytes([0x80, 0x11, 0x00]) + self.params_bytes()
        if cmd in (0x10, 0x30):
            return self.do_blocks(apdu)
        if cmd == 0x60:
            return self.heartbeat(apdu, ui=False)
        if cmd == 0xFF:
            return self.do_exit()
        self.fail(E_INS_NOT_SUPPORTED)

    def params_bytes(self):
        return (self.checkpoint + self.min_difficulty.to_bytes(36, "big")
                + bytes([self.network]))

    def get_state(self, apdu):
        if len(apdu) < 3:
            self.fail(BC_PROT_INVALID)
        op = apdu[2]
        data = apdu[3:]
        if len(data) != (1 if op == 1 else 0):
            self.fail(BC_PROT_INVALID)
        if op == 1:
            if data[0] not in self.hashes:
                self.fail(BC_PROT_INVALID)
            return self.ok(0x20, 1, data[0], self.hashes[data[0]])
        if op == 2:
            n = self.difficulty
            return self.ok(0x20, 2, n.to_bytes((n.bit_length() + 7) // 8, "big"))
        if op == 3:
            return self.ok(0x20, 3, bytes(self.flags))
        self.fail(BC_PROT_INVALID)

    def signature_for(self, material):
        tag = struct.pack(">I", self.counter) if self.stamp else b""
        r = hashlib.sha256(b"r" + self.seed + tag + material).digest()
        s = hashlib.sha256(b"s" + self.seed + tag + material).digest()
        r = bytes([r[0] & 0x7f | 0x01]) + r[1:]
        s = bytes([s[0] & 0x7f | 0x01]) + s[1:]
        shape = getattr(self, "sig_shape", None)
        if shape:
            # well-formed DER of every size the curve allows: minimal integers are shorter than 32 bytes
            # once in 256 signatures, and carry a 00 in front when their first bit is set
            cut = {"short": 31, "shorter": 24, "tiny": 1}
            for part, which in (("r", 0), ("s", 1)):
                for name, n in cut.items():
                    if shape in ("%s-%s" % (name, part), "%s-both" % name):
                        v = (r, s)[which][-n:]
                        v = bytes([v[0] & 0x7f | 0x01]) + v[1:]
                        r, s = (v, s) if which == 0 else (r, v)
                if shape in ("high-%s" % part, "high-both"):
                    v = (r, s)[which]
                    v = b"\x00" + bytes([v[0] | 0x80]) + v[1:]
                    r, s = (v, s) if which == 0 else (r, v)
        return der(r, s)

    # -- sign (auth.c, auth_path.c, auth_tx.c, auth_receipt.c, auth_trie.c) --
    def do_sign(self, apdu):
        if len(apdu) < 3:
            self.fail(E_DATA_SIZE)
        op = apdu[2] & 0xF
        data = bytes(apdu[3:])
        st = self.sign
        # auth.c:74 demands exactly the requested size; the model tolerates a short chunk
        # that completes the datum (the first request is made before the length is known)
        if st is not None and st["state"] in ("btc", "receipt") and len(data) > st["expected"]:
            self.fail(E_DATA_SIZE)
        short = st is not None and st["state"] in ("btc", "receipt") and len(data) < st["expected"]
        if op == 0x01:
            if st is not None:
                self.fail(E_STATE)
            if len(data) not in (21 + 4, 21 + 32):
                self.fail(E_DATA_SIZE)
            path = data[:21]
            if path in AUTH_PATHS:
                if len(data) != 25:
                    self.fail(E_SZ_AUTH)
                self.sign = {"state": "btc", "path": path,
                             "index": struct.unpack("<I", data[21:])[0],
                             "buf": b"", "remaining": None, "expected": MAX_CHUNK,
                             "raw": data}
                return self.ok(0x02, 0x02, MAX_CHUNK)
            if path in NOAUTH_PATHS:
                if len(data) != 53:
                    self.fail(E_SZ_NOAUTH)
                self.held.append(("sign-hash", path, data[21:]))
                return self.ok(0x02, 0x81, self.signature_for(data))
            self.fail(E_PATH)
        if st is None:
            self.fail(E_STATE)
        if op == 0x02:
            if st["state"] != "btc":
                self.fail(E_STATE)
            r = self.sign_btc(st, data)
            if short and not st.pop("phase_done", False):
                self.fail(E_DATA_SIZE)
            st.pop("phase_done", None)
            return r
        if op == 0x04:
            if st["state"] != "receipt":
                self.fail(E_STATE)
            r = self.sign_receipt(st, data)
            if short and not st.pop("phase_done", False):
                self.fail(E_DATA_SIZE)
            st.pop("phase_done", None)
            return r
        if op == 0x08:
            if st["state"] != "proof":
                self.fail(E_STATE)
            return self.sign_proof(st, data)
        self.fail(E_DATA_SIZE)

    def sign_btc(self, st, data):
        if st["remaining"] is None:
            if len(data) < 7:
                self.fail(E_DATA_SIZE)
            total = struct.unpack("<I", data[:4])[0]
            st["mode"] = data[4]
            st["edlen"] = data[5] | (data[6] << 8)
            if st["mode"] == 1:
                if st["edlen"] == 0:
                    self.fail(E_EXTRADATA)
            elif st["mode"] != 0:
                self.fail(E_SIGHASH_MODE)
            if total < 7:
                self.fail(E_TXHASH)
            st["remaining"] = total - 7
            st["header"] = data[:7]
            st["phase"] = "tx"
            st["ed"] = b""
            data = data[7:]
        if st["phase"] == "tx":
            st["buf"] += data
            if len(data) > st["remaining"]:
                self.fail(E_TXHASH)
            st["remaining"] -= len(data)
            if st["remaining"] == 0:
                try:
                    tx = B.parse_tx(st["buf"])
                except B.RefError:
                    self.fail(E_TXHASH)
                if tx["segwit"]:
                    self.fail(E_TXHASH)
                if struct.unpack("<I", tx["version"])[0] not in (1, 2):
                    self.fail(E_TXVER)
                if st["index"] >= len(tx["vin"]):
                    self.fail(E_INPUT)
                st["phase_done"] = True
                if st["mode"] == 1:
                    st["phase"] = "ed"
                    st["remaining"] = st["edlen"]
                else:
                    return self.sign_to_receipt(st)
        else:
            st["ed"] += data
            st["remaining"] -= len(data)
            if st["remaining"] < 0:
                self.fail(E_DATA_SIZE)
            if st["remaining"] == 0:
                st["phase_done"] = True
                return self.sign_to_receipt(st)
        st["expected"] = min(st["remaining"], MAX_CHUNK)
        return self.ok(0x02, 0x02, st["expected"])

    def sign_to_receipt(self, st):
        st["state"] = "receipt"
        st["expected"] = MAX_CHUNK
        st["rbuf"] = b""
        st["rtotal"] = None
        return self.ok(0x02, 0x04, MAX_CHUNK)

    def sign_receipt(self, st, data):
        st["rbuf"] += data
        if st["rtotal"] is None:
            if not data or data[0] < 0xc0:
                self.fail(E_RLP)
            try:
                st["rtotal"] = R.total_len(data)
            except R.RlpError:
                self.fail(E_RLP)
        rem = st["rtotal"] - len(st["rbuf"])
        if rem < 0:
            self.fail(E_RLP)
        if rem == 0:
            try:
                R.decode(st["rbuf"], strict=False, max_depth=MAX_RLP_CTX_DEPTH)
            except R.RlpError:
                self.fail(E_RLP)
            if not self.receipt_matches:
                self.fail(E_DATA_SIZE)
            st["phase_done"] = True
            st["state"] = "proof"
            st["pbuf"] = b""
            return self.ok(0x02, 0x08, MAX_CHUNK)
        st["expected"] = min(rem, MAX_CHUNK)
        return self.ok(0x02, 0x04, st["expected"])

    def sign_proof(self, st, data):
        st["pbuf"] += data
        buf = st["pbuf"]
        if not buf:
            return self.ok(0x02, 0x08, MAX_CHUNK)
        n = buf[0]
        if n == 0:
            self.fail(E_DATA_SIZE)
        i = 1
        nodes = []
        while len(nodes) < n:
            if i >= len(buf):
                return self.ok(0x02, 0x08, MAX_CHUNK)
            ln = buf[i]
            if ln == 0:
                self.fail(E_DATA_SIZE)
            if i + 1 + ln > len(buf):
                return self.ok(0x02, 0x08, MAX_CHUNK)
            nodes.append(buf[i + 1:i + 1 + ln])
            i += 1 + ln
        if i != len(buf):
            self.fail(E_DATA_SIZE)
        if not self.proof_ok:
            self.fail(E_ROOT_MISMATCH)
        self.held.append(("sign-auth", st["path"], st["index"], st["header"], st["buf"],
                          st["ed"], st["rbuf"], tuple(nodes)))
        sig = self.signature_for(st["raw"] + st["buf"] + st["ed"] + st["rbuf"] + buf)
        self.sign = None
        return self.ok(0x02, 0x81, sig)

    # -- advance / update ancestor (bc_advance.c, bc_ancestor.c) ----------
    def do_blocks(self, apdu):
        cmd = apdu[1]
        adv = cmd == 0x10
        if len(apdu) < 3:
            self.fail(BC_PROT_INVALID)
        op = apdu[2]
        data = bytes(apdu[3:])
        st = self.adv
        if op == 0x02:      # INIT
            if len(data) != 4:
                self.fail(BC_PROT_INVALID)
            n = struct.unpack(">I", data)[0]
            if n == 0:
                self.fail(BC_PROT_INVALID)
            self.adv = {"cmd": cmd, "total": n, "done": 0, "expect": "meta", "blocks": [],
                        "brothers_left": 0, "in_brother": False}
            return self.ok(cmd, 0x03)
        if st is None or st["cmd"] != cmd:
            self.fail(BC_PROT_INVALID)
        if op == 0x03 or (adv and op == 0x08):       # HEADER_META / BROTHER_META
            want = "bmeta" if op == 0x08 else "meta"
            if st["expect"] != want:
                self.fail(BC_PROT_INVALID)
            if len(data) != (34 if adv else 2):
                self.fail(BC_PROT_INVALID)
            st["cur"] = {"mm_len": struct.unpack(">H", data[:2])[0], "cb": data[2:],
                         "buf": b"", "size": None, "brother": op == 0x08}
            st["expect"] = "bchunk" if op == 0x08 else "chunk"
            return self.ok(cmd, 0x09 if op == 0x08 else 0x04, MAX_CHUNK)
        if op == 0x04 or (adv and op == 0x09):       # HEADER_CHUNK / BROTHER_CHUNK
            want = "bchunk" if op == 0x09 else "chunk"
            if st["expect"] != want:
                self.fail(BC_PROT_INVALID)
            cur = st["cur"]
            cur["buf"] += data
            if cur["size"] is None:
                if not data or data[0] < 0xc0:
                    self.fail(BC_RLP_INVALID)
                try:
                    cur["size"] = R.total_len(data)
                except R.RlpError:
                    self.fail(BC_RLP_INVALID)
            if len(cur["buf"]) > cur["size"] or not data:
                self.fail(BC_RLP_INVALID)
            if len(cur["buf"]) < cur["size"]:
                return self.ok(cmd, op, min(cur["size"] - len(cur["buf"]), MAX_CHUNK))
            return self.block_complete(st, cur, adv)
        if adv and op == 0x07:                        # BROTHER_LIST_META
            if st["expect"] != "blist" or len(data) != 1:
                self.fail(BC_PROT_INVALID)
            if data[0] > 10:
                self.fail(BC_BROTHERS_TOO_MANY)
            st["blocks"][-1]["brother_count"] = data[0]
            st["brothers_left"] = data[0]
            if data[0] == 0:
                return self.end_of_block(st)
            st["expect"] = "bmeta"
            return self.ok(cmd, 0x08)
        self.fail(BC_PROT_INVALID)

    def block_complete(self, st, cur, adv):
        cmd = st["cmd"]
        try:
            fields = R.decode(cur["buf"], strict=False, max_depth=MAX_RLP_CTX_DEPTH)
        except R.RlpError:
            self.fail(BC_RLP_INVALID)
        if not isinstance(fields, list) or any(isinstance(f, list) for f in fields):
            self.fail(BC_RLP_INVALID)
        if adv:
            if len(fields) not in (19, 20):
                self.fail(BC_BLOCK_TOO_SHORT)
            mm = R.list_payload_len(R.encode(fields[:-3]))
        else:
            if len(fields) not in (17, 18, 19, 20):
                self.fail(BC_BLOCK_TOO_SHORT)
            k = len(fields) - 1 if len(fields) in (17, 18) else len(fields) - 3
            mm = R.list_payload_len(R.encode(fields[:k]))
        if mm != cur["mm_len"]:
            self.fail(BC_MM_RLP_LEN_MISMATCH)
        rec = {"raw": cur["buf"], "mm_len": cur["mm_len"], "cb": cur["cb"], "brothers": [],
               "brother_count": None}
        if cur["brother"]:
            st["blocks"][-1]["brothers"].append(rec)
            st["brothers_left"] -= 1
            if st["brothers_left"] == 0:
                return self.end_of_block(st)
            st["expect"] = "bmeta"
            return self.ok(cmd, 0x08)
        st["blocks"].append(rec)
        if adv and self.ask_brothers:
            st["expect"] = "blist"
            return self.ok(cmd, 0x07)
        return self.end_of_block(st)

    def end_of_block(self, st):
        cmd = st["cmd"]
        st["done"] += 1
        if st["done"] < st["total"]:
            st["expect"] = "meta"
            return self.ok(cmd, 0x03)
        self.held.append(("advance" if cmd == 0x10 else "ancestor", st["total"], st["blocks"]))
        self.adv = None
        if cmd == 0x10:
            return self.ok(cmd, 0x05 if self.advance_final == "partial" else 0x06)
        return self.ok(cmd, 0x05)

    # -- heartbeat (heartbeat.c / ui_heartbeat.c) --------------------------
    def heartbeat(self, apdu, ui):
        if len(apdu) < 3:
            self.fail(HBT_PROT_INVALID)
        op = apdu[2]
        data = bytes(apdu[3:])
        udlen = 32 if ui else 16
        if op == 0x01:
            if len(data) != udlen:
                self.fail(HBT_PROT_INVALID)
            hdr = b"HSM:UI:HB:5.4:" if ui else b"HSM:SIGNER:HB:5.4:"
            msg = hdr + (b"" if ui else self.hashes[0x01] + self.hashes[0x05][:8]) + data
            self.hb = {"msg": msg, "ui": ui}
            return self.ok(0x60, 0x01)
        if self.hb is None or self.hb["ui"] != ui:
            self.fail(HBT_PROT_INVALID)
        if op == 0x02:
            return self.ok(0x60, 0x02, self.signature_for(self.hb["msg"]))
        if op == 0x03:
            return self.ok(0x60, 0x03, self.hb["msg"])
        if op == 0x04:
            return self.ok(0x60, 0x04, self.ui_hash if ui else self.app_hash)
        if op == 0x05:
            return self.ok(0x60, 0x05, self.hb_pubkey)
        self.fail(HBT_PROT_INVALID)


class DropLink(DropLinkBase):
    """The device re-enumerates: the pending exchange fails with a link error."""


def pin_policy_ok(pin):
    """pin_policy.c: exactly 8 alphanumeric chars, at least one alphabetic"""
    if len(pin) != 8:
        return False
    if not all(chr(c).isascii() and chr(c).isalnum() for c in pin):
        return False
    return any(chr(c).isalpha() for c in pin)
