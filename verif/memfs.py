"""In-memory file layer with operation log, failure and crash injection (DESIGN 2.3).

Process-crash semantics: truncation by open('wb') is immediate, bytes handed to write()
become durable at close(), a closed file is durable.  A crash freezes the durable state
(and the device, through ``on_crash``); the rest of the Python call unwinds with
``Crash`` (a BaseException the middleware must not swallow... and if it does, every
further operation is a no-op on the frozen state)."""


class Crash(BaseException):
    pass


class MemFS:
    OPS = ("isfile", "open-r", "read", "open-w", "write", "close-w")

    def __init__(self, ctx=None, fault_ops=(), crash=True, on_crash=None):
        self.files = {}
        self.log = []
        self.ctx = ctx
        self.fault_ops = set(fault_ops)
        self.crash_enabled = crash
        self.dead = False
        self.on_crash = on_crash
        self.history = []        # durable content of every path after every mutating op

    # -- fault points ------------------------------------------------------
    def point(self, op, path):
        """returns None | 'fail'; may raise Crash (before); 'crash-after' is returned to the caller"""
        if self.dead:
            raise Crash()
        if self.ctx is None or op not in self.fault_ops:
            return None
        opts = ["ok", "fail"] + (["crash-before", "crash-after"] if self.crash_enabled else [])
        c = opts[self.ctx.choose(len(opts), "fs:%s" % op)]
        self.log.append((op, path, c))
        if c == "crash-before":
            self.do_crash()
        return None if c == "ok" else c

    def do_crash(self):
        self.dead = True
        self.log.append(("CRASH",))
        if self.on_crash:
            self.on_crash()
        raise Crash()

    # -- API used through module globals of the code under test ---------------
    def isfile(self, path):
        r = self.point("isfile", path)
        if r == "fail":
            raise OSError("isfile failed")
        out = path in self.files
        if r == "crash-after":
            self.do_crash()
        return out

    def open(self, path, mode="r", *a, **k):
        if "a" in mode:
            # append: creates the file when missing, keeps what is there
            r = self.point("open-w", path)
            if r == "fail":
                raise OSError("open for appending failed")
            if path not in self.files:
                self.files[path] = b""
                self.history.append((path, b""))
            if r == "crash-after":
                self.do_crash()
            f = MemFile(self, path, "w", text="b" not in mode)
            f.buf = self.files[path]
            return f
        if "w" in mode:
            r = self.point("open-w", path)
            if r == "fail":
                raise OSError("open for writing failed")
            self.files[path] = b""
            self.history.append((path, b""))
            if r == "crash-after":
                self.do_crash()
            return MemFile(self, path, "w", text="b" not in mode)
        r = self.point("open-r", path)
        if r == "fail" or path not in self.files:
            raise OSError("cannot open %s" % path) if r == "fail" else FileNotFoundError(path)
        if r == "crash-after":
            self.do_crash()
        return MemFile(self, path, "r", text="b" not in mode)


class MemFile:
    def __init__(self, fs, path, mode, text):
        self.fs = fs
        self.path = path
        self.mode = mode
        self.text = text
        self.buf = b""
        self.closed = False

    def __enter__(self):
        return self

    def __exit__(self, et, ev, tb):
        if et is not None and issubclass(et, Crash):
            return False
        self.close()
        return False

    def read(self):
        r = self.fs.point("read", self.path)
        if r == "fail":
            raise OSError("read failed")
        data = self.fs.files.get(self.path, b"")
        if r == "crash-after":
            self.fs.do_crash()
        return data.decode() if self.text else data

    def write(self, data):
        r = self.fs.point("write", self.path)
        if r == "fail":
            raise OSError("write failed")
        if isinstance(data, str):
            data = data.encode()
        self.buf += data
        if r == "crash-after":
            self.fs.do_crash()
        return len(data)

    def close(self):
        if self.closed:
            return
        self.closed = True
        if self.mode == "w":
            r = self.fs.point("close-w", self.path)
            if r == "fail":
                raise OSError("close failed")
            self.fs.files[self.path] = self.buf
            self.fs.history.append((self.path, self.buf))
            if r == "crash-after":
                self.fs.do_crash()


class FakeShutil:
    """stand-in for ``shutil`` should the code under test start using it on the PIN file"""

    def __init__(self, fs):
        self.fs = fs

    def move(self, src, dst):
        if src not in self.fs.files:
            raise FileNotFoundError(src)
        self.fs.files[dst] = self.fs.files.pop(src)
        self.fs.history.append((src, None))
        return dst

    def copy(self, src, dst):
        if src not in self.fs.files:
            raise FileNotFoundError(src)
        self.fs.files[dst] = self.fs.files[src]
        return dst

    copyfile = copy
    copy2 = copy


class FakeOsPath:
    def __init__(self, fs):
        self.fs = fs

    def isfile(self, path):
        return self.fs.isfile(path)

    def exists(self, path):
        return path in self.fs.files


class FakeOs:
    """stand-in for the ``os`` name inside ledger.pin"""

    def __init__(self, fs, environ=None):
        self.fs = fs
        self.path = FakeOsPath(fs)
        self.environ = environ if environ is not None else {}

    def remove(self, path):
        if path not in self.fs.files:
            raise FileNotFoundError(path)
        del self.fs.files[path]
        self.fs.history.append((path, None))

    unlink = remove

    def rename(self, src, dst):
        if src not in self.fs.files:
            raise FileNotFoundError(src)
        self.fs.files[dst] = self.fs.files.pop(src)
        self.fs.history.append((src, None))

    replace = rename
