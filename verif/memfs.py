"""In-memory file layer with operation log, failure and crash injection (DESIGN 2.3).

Process-crash semantics: truncation by open('wb') is immediate, bytes handed to write()
become durable at close(), a closed file is durable.  A crash freezes the durable state
(and the device, through ``on_crash``); the rest of the Python call unwinds with
``Crash`` (a BaseException the middleware must not swallow... and if it does, every
further operation is a no-op on the frozen state)."""


class Crash(BaseException):
    pass


class MemFS:
    OPS = ("isfile", "open-r", "read", "open-w", "write", "close-w")

    def __init__(self, ctx=None, fault_ops=(), crash=True, on_crash=None):
        self.files = {}
        self.log = []
        self.ctx = ctx
        self.fault_ops = set(fault_ops)
        self.crash_enabled = crash
        self.dead = False
        self.on_crash = on_crash
        self.history = []        # durable content of every path after every mutating op
        self.modes = {}          # path -> permission bits set with chmod (the process is not root)
        # path -> target: the path is a symbolic link to a regular file.  The content is kept under the
        # link's own path (reading and writing go through a link); the target's path is an alias of
        # it.  Removing or renaming over the link makes the path an ordinary file again.
        self.links = {}

    def canon(self, path):
        for link, target in self.links.items():
            if path == target:
                return link
        return path

    def unlink_link(self, path):
        self.links.pop(path, None)

    # -- fault points ------------------------------------------------------
    def point(self, op, path):
        """returns None | 'fail'; may raise Crash (before); 'crash-after' is returned to the caller"""
        if self.dead:
            raise Crash()
        if self.ctx is None or op not in self.fault_ops:
            return None
        opts = ["ok", "fail"] + (["crash-before", "crash-after"] if self.crash_enabled else [])
        c = opts[self.ctx.choose(len(opts), "fs:%s" % op)]
        self.log.append((op, path, c))
        if c == "crash-before":
            self.do_crash()
        return None if c == "ok" else c

    def do_crash(self):
        self.dead = True
        self.log.append(("CRASH",))
        if self.on_crash:
            self.on_crash()
        raise Crash()

    # -- API used through module globals of the code under test ---------------
    def isfile(self, path):
        path = self.canon(path)
        r = self.point("isfile", path)
        if r == "fail":
            raise OSError("isfile failed")
        out = path in self.files
        if r == "crash-after":
            self.do_crash()
        return out

    def writable(self, path):
        return path not in self.modes or bool(self.modes[path] & 0o200)

    def os_open(self, path, flags, mode=0o777, *a, **k):
        """os.open: the descriptor-level door to the same files"""
        import os
        path = self.canon(path)
        acc = flags & (os.O_WRONLY | os.O_RDWR)
        if flags & os.O_EXCL and flags & os.O_CREAT and path in self.files:
            raise FileExistsError(17, "File exists", path)
        if not acc:
            f = self.open(path, "rb")
        elif flags & os.O_APPEND:
            if path not in self.files and not flags & os.O_CREAT:
                raise FileNotFoundError(2, "No such file or directory", path)
            f = self.open(path, "ab")
        elif flags & os.O_TRUNC or path not in self.files:
            if path not in self.files and not flags & os.O_CREAT:
                raise FileNotFoundError(2, "No such file or directory", path)
            created = path not in self.files
            f = self.open(path, "wb")
            if created:
                self.modes[path] = mode & 0o777
        else:
            # opened for writing without truncation: what is written replaces the content from the
            # start, the rest stays (the descriptor starts at offset 0)
            f = self.open(path, "ab")
            f.overwrite = True
            f.keep = f.buf
            f.buf = b""
        return f.fileno()

    def open(self, path, mode="r", *a, **k):
        path = self.canon(path)
        if ("a" in mode or "w" in mode or "+" in mode) and path in self.files and not self.writable(path):
            raise PermissionError(13, "Permission denied", path)
        if "r" in mode and "+" not in mode and path in self.files and path in self.modes \
                and not (self.modes[path] & 0o400):
            raise PermissionError(13, "Permission denied", path)
        if "a" in mode:
            # append: creates the file when missing, keeps what is there
            r = self.point("open-w", path)
            if r == "fail":
                raise OSError("open for appending failed")
            if path not in self.files:
                self.files[path] = b""
                self.history.append((path, b""))
            if r == "crash-after":
                self.do_crash()
            f = MemFile(self, path, "w", text="b" not in mode)
            f.buf = self.files[path]
            f.append = True
            return f
        if "w" in mode:
            r = self.point("open-w", path)
            if r == "fail":
                raise OSError("open for writing failed")
            self.files[path] = b""
            self.history.append((path, b""))
            if r == "crash-after":
                self.do_crash()
            return MemFile(self, path, "w", text="b" not in mode)
        r = self.point("open-r", path)
        if r == "fail" or path not in self.files:
            raise OSError("cannot open %s" % path) if r == "fail" else FileNotFoundError(path)
        if r == "crash-after":
            self.do_crash()
        return MemFile(self, path, "r", text="b" not in mode)


class MemFile:
    by_fd = {}
    _next_fd = [1000]

    def __init__(self, fs, path, mode, text):
        self.fs = fs
        self.path = path
        self.name = path
        self.mode = mode
        self.text = text
        self.buf = b""
        self.closed = False
        self.fd = None

    def fileno(self):
        if self.fd is None:
            self.fd = MemFile._next_fd[0]
            MemFile._next_fd[0] += 1
            if len(MemFile.by_fd) > 256:
                MemFile.by_fd.clear()
            MemFile.by_fd[self.fd] = self
        return self.fd

    def flush(self):
        pass

    def sync(self):
        """os.fsync: what was written so far becomes durable now"""
        if self.fs.dead:
            raise Crash()
        if self.mode == "w" and not self.closed and not (getattr(self, "append", False)
                                                         and not getattr(self, "dirty", False)):
            self.fs.files[self.path] = self.buf
            self.fs.history.append((self.path, self.buf))

    def readable(self):
        return self.mode == "r"

    def writable(self):
        return self.mode == "w"

    def readline(self):
        data = self.read()
        i = data.find("\n" if self.text else b"\n")
        return data if i < 0 else data[:i + 1]

    def __iter__(self):
        data = self.read()
        return iter(data.splitlines(True))

    def __enter__(self):
        return self

    def __exit__(self, et, ev, tb):
        if et is not None and issubclass(et, Crash):
            return False
        self.close()
        return False

    def read(self, n=-1):
        r = self.fs.point("read", self.path)
        if r == "fail":
            raise OSError("read failed")
        data = self.fs.files.get(self.path, b"")
        pos = getattr(self, "pos", 0)
        data = data[pos:] if n is None or n < 0 else data[pos:pos + n]
        self.pos = pos + len(data)
        if r == "crash-after":
            self.fs.do_crash()
        return data.decode() if self.text else data

    def write(self, data):
        r = self.fs.point("write", self.path)
        if r == "fail":
            raise OSError("write failed")
        if isinstance(data, str):
            data = data.encode()
        self.buf += data
        self.dirty = True
        if r == "crash-after":
            self.fs.do_crash()
        return len(data)

    def close(self):
        if self.closed:
            return
        self.closed = True
        if getattr(self, "append", False) and not getattr(self, "dirty", False):
            return      # opened for appending, nothing appended: the file is as it was
        if getattr(self, "overwrite", False):
            self.buf = self.buf + self.keep[len(self.buf):]
        if self.mode == "w":
            r = self.fs.point("close-w", self.path)
            if r == "fail":
                raise OSError("close failed")
            self.fs.files[self.path] = self.buf
            self.fs.history.append((self.path, self.buf))
            if r == "crash-after":
                self.fs.do_crash()


class FakeShutil:
    """stand-in for ``shutil`` should the code under test start using it on the PIN file"""

    def __init__(self, fs):
        self.fs = fs

    def move(self, src, dst):
        if src not in self.fs.files:
            raise FileNotFoundError(src)
        self.fs.files[dst] = self.fs.files.pop(src)
        self.fs.history.append((src, None))
        self.fs.history.append((dst, self.fs.files[dst]))
        return dst

    def copy(self, src, dst):
        if src not in self.fs.files:
            raise FileNotFoundError(src)
        self.fs.files[dst] = self.fs.files[src]
        self.fs.history.append((dst, self.fs.files[dst]))
        return dst

    copyfile = copy
    copy2 = copy

    def __getattr__(self, name):
        import shutil
        return getattr(shutil, name)


class FakeOsPath:
    def __init__(self, fs):
        self.fs = fs

    def isfile(self, path):
        return self.fs.isfile(path)

    def exists(self, path):
        return self.fs.canon(path) in self.fs.files

    def islink(self, path):
        return path in self.fs.links and path in self.fs.files

    def realpath(self, path, **k):
        return self.fs.links.get(path, path) if path in self.fs.files else path

    def __getattr__(self, name):
        import os
        return getattr(os.path, name)


class FakeOs:
    """stand-in for the ``os`` name inside ledger.pin"""

    def __init__(self, fs, environ=None):
        self.fs = fs
        self.path = FakeOsPath(fs)
        self.environ = environ if environ is not None else {}

    def remove(self, path):
        path = self.fs.canon(path)
        if path not in self.fs.files:
            raise FileNotFoundError(path)
        del self.fs.files[path]
        self.fs.unlink_link(path)
        self.fs.modes.pop(path, None)
        self.fs.history.append((path, None))

    def chmod(self, path, mode, *a, **k):
        if path not in self.fs.files:
            raise FileNotFoundError(path)
        self.fs.modes[path] = mode & 0o7777

    def access(self, path, how):
        if path not in self.fs.files:
            return False
        m = self.fs.modes.get(path, 0o600)
        return not ((how & 2 and not m & 0o200) or (how & 4 and not m & 0o400))

    F_OK, R_OK, W_OK, X_OK = 0, 4, 2, 1

    unlink = remove

    def __getattr__(self, name):
        # whatever else of ``os`` the code under test comes to use (stat, fsync, getpid ...) is the
        # real module's - whose path functions GlobalRoute routes here for the modelled directory
        import os
        return getattr(os, name)

    def rename(self, src, dst):
        src = self.fs.canon(src)
        if src not in self.fs.files:
            raise FileNotFoundError(src)
        self.fs.files[dst] = self.fs.files.pop(src)
        self.fs.modes.pop(dst, None)
        if src in self.fs.modes:
            self.fs.modes[dst] = self.fs.modes.pop(src)
        self.fs.unlink_link(dst)          # the link itself is replaced by what was moved over it
        if src in self.fs.links:
            self.fs.links[dst] = self.fs.links.pop(src)
        self.fs.history.append((src, None))
        self.fs.history.append((dst, self.fs.files[dst]))      # what the destination holds from now on

    def open(self, path, flags, mode=0o777, *a, **k):
        return self.fs.os_open(path, flags, mode)

    @staticmethod
    def _file(fd):
        return MemFile.by_fd.get(fd)

    def fdopen(self, fd, *a, **k):
        import os
        f = self._file(fd)
        if f is None:
            return os.fdopen(fd, *a, **k)
        m = a[0] if a else k.get("mode", "r")
        f.text = "b" not in m
        return f

    def write(self, fd, data):
        import os
        f = self._file(fd)
        return f.write(data) if f is not None else os.write(fd, data)

    def read(self, fd, n):
        import os
        f = self._file(fd)
        if f is None:
            return os.read(fd, n)
        was, f.text = f.text, False
        try:
            return f.read(n)
        finally:
            f.text = was

    def close(self, fd):
        import os
        f = self._file(fd)
        if f is None:
            return os.close(fd)
        MemFile.by_fd.pop(fd, None)
        f.close()

    def fsync(self, fd):
        import os
        f = self._file(fd)
        if f is None:
            return os.fsync(fd)
        f.sync()

    def fchmod(self, fd, mode):
        import os
        f = self._file(fd)
        if f is None:
            return os.fchmod(fd, mode)
        self.fs.modes[f.path] = mode & 0o7777

    def readlink(self, path, **k):
        if path in self.fs.links and path in self.fs.files:
            return self.fs.links[path]
        raise OSError(22, "Invalid argument", path)

    replace = rename


class GlobalRoute:
    """Routes the process-wide file API (open / io.open / os.stat / os.path.* / os.remove / os.rename /
    os.replace / os.fsync / shutil.move, copy*) to a MemFS for every path under ``prefix`` and leaves
    all other paths alone.  The module-level seams (``ledger.pin.open`` ...) stay; this catches the
    code under test reaching its PIN file through another door (pathlib, io.open, os.replace of a
    temporary file next to it, ``from os.path import isfile``)."""

    def __init__(self, fs, prefix):
        self.fs = fs
        self.prefix = prefix
        self.saved = []

    def _route(self, p):
        import os
        try:
            p = os.fspath(p)
        except TypeError:
            return None
        if isinstance(p, bytes):
            p = p.decode(errors="replace")
        if isinstance(p, str) and (p.startswith(self.prefix) or p == self.prefix.rstrip("/")):
            return p      # the modelled directory itself included (os.path.isdir of it)
        return None

    def install(self):
        import builtins
        import io
        import os
        import shutil
        import stat as _stat
        fs, route = self.fs, self._route
        fos, fsh = FakeOs(fs), FakeShutil(fs)

        def patch(mod, name, make):
            real = getattr(mod, name)
            self.saved.append((mod, name, real))
            setattr(mod, name, make(real))

        def opener(real):
            def open_(file, mode="r", *a, **k):
                if isinstance(file, int) and not isinstance(file, bool) and MemFile.by_fd.get(file) is not None:
                    return fos.fdopen(file, mode)       # open(fd): a descriptor of ours (tempfile does this)
                r = route(file)
                op = k.get("opener")
                if r and op is not None:
                    # open(path, mode, opener=...): the opener makes the descriptor (tempfile, 3.12)
                    fl = (os.O_RDWR if "+" in mode else os.O_WRONLY if any(c in mode for c in "wax") else os.O_RDONLY)
                    fl |= (os.O_CREAT | os.O_TRUNC) if "w" in mode else (os.O_CREAT | os.O_APPEND) if "a" in mode \
                        else (os.O_CREAT | os.O_EXCL) if "x" in mode else 0
                    fd = op(file, fl)
                    if MemFile.by_fd.get(fd) is not None:
                        return fos.fdopen(fd, mode)
                    k2 = dict(k)
                    k2.pop("opener")
                    return real(fd, mode, *a, **k2)
                return fs.open(r, mode, *a, **k) if r else real(file, mode, *a, **k)
            return open_
        patch(builtins, "open", opener)
        patch(io, "open", opener)

        def stat_(real, follow=True):
            def stat(path, *a, **k):
                r = route(path) if not isinstance(path, int) else None
                if r is None:
                    return real(path, *a, **k)
                if fs.dead:
                    raise Crash()
                if not follow and r in fs.links and r in fs.files:
                    return os.stat_result((_stat.S_IFLNK | 0o777, 1, 1, 1, 0, 0, len(fs.links[r]), 0, 0, 0))
                r = fs.canon(r)
                if r in fs.files:
                    return os.stat_result((_stat.S_IFREG | fs.modes.get(r, 0o600), 1, 1, 1, 0, 0, len(fs.files[r]), 0, 0, 0))
                if r.rstrip("/") == self.prefix.rstrip("/"):
                    return os.stat_result((_stat.S_IFDIR | 0o700, 1, 1, 1, 0, 0, 0, 0, 0, 0))
                raise FileNotFoundError(2, "No such file or directory", r)
            return stat
        patch(os, "stat", stat_)
        patch(os, "lstat", lambda real: stat_(real, follow=False))

        def one(fake):
            def make(real):
                def f(path, *a, **k):
                    r = route(path)
                    return fake(r) if r else real(path, *a, **k)
                return f
            return make

        def two(fake):
            def make(real):
                def f(src, dst, *a, **k):
                    rs, rd = route(src), route(dst)
                    return fake(rs, rd) if (rs and rd) else real(src, dst, *a, **k)
                return f
            return make
        for n in ("remove", "unlink"):
            patch(os, n, one(fos.remove))
        patch(os, "readlink", one(fos.readlink))

        def os_open_(real):
            def os_open(path, flags, mode=0o777, *a, **k):
                r = route(path)
                return fs.os_open(r, flags, mode) if r else real(path, flags, mode, *a, **k)
            return os_open
        patch(os, "open", os_open_)
        for n in ("fdopen", "write", "read", "close", "fchmod"):
            patch(os, n, lambda real, n=n: (lambda fd, *a, **k: getattr(fos, n)(fd, *a, **k)
                                            if MemFile.by_fd.get(fd) is not None else real(fd, *a, **k)))

        def chmod_(real):
            def chmod(path, mode, *a, **k):
                r = route(path) if not isinstance(path, int) else None
                return fos.chmod(r, mode) if r else real(path, mode, *a, **k)
            return chmod
        patch(os, "chmod", chmod_)
        for n in ("rename", "replace"):
            patch(os, n, two(fos.rename))
        patch(shutil, "move", two(fsh.move))
        for n in ("copy", "copyfile", "copy2"):
            patch(shutil, n, two(fsh.copy))

        def fsync_(real):
            def fsync(fd):
                f = MemFile.by_fd.get(fd)
                if f is None:
                    return real(fd)
                f.sync()
            return fsync
        patch(os, "fsync", fsync_)
        return self

    def restore(self):
        for mod, name, real in reversed(self.saved):
            setattr(mod, name, real)
        self.saved = []
