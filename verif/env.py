"""Process environment of a check: where the code under test comes from,
determinism settings, seeded byte source."""
import hashlib
import logging
import os
import sys

HOME = os.environ.get("VERIF_HOME") or os.path.dirname(os.path.dirname(os.path.abspath(__file__)))
REPO = os.environ.get("VERIF_REPO", "/repo")
MIDDLEWARE = os.path.join(REPO, "middleware")
SHIMS = os.path.join(HOME, "shims")
GUARD = "RSK_POWHSM_VERIF"


def seed():
    try:
        return int(os.environ.get("VERIF_SEED", "0"))
    except ValueError:
        return 0


_installed = False


def install():
    """Put the bitcoin.core shim and the middleware of the tree under test first on
    sys.path, silence logging.  Idempotent."""
    global _installed
    if _installed:
        return
    _installed = True
    os.environ[GUARD] = "1"
    sys.dont_write_bytecode = True
    for p in (MIDDLEWARE, SHIMS):
        if p in sys.path:
            sys.path.remove(p)
    sys.path.insert(0, MIDDLEWARE)
    sys.path.insert(0, SHIMS)
    logging.disable(logging.CRITICAL)
    _own_sleep()
    _own_threading()
    import bitcoin.core  # noqa: F401  (must be the shim)
    if not getattr(sys.modules["bitcoin"], "__verif_shim__", False):
        raise RuntimeError("bitcoin package is not the shim")


SLEPT = [0.0]


def _own_sleep():
    """time.sleep called from the code under test (whatever name it is imported under) returns at
    once; everybody else (the pool, the scheduler's own threads) keeps the real one."""
    import time
    real = time.sleep

    def sleep(n):
        if sys._getframe(1).f_code.co_filename.startswith(MIDDLEWARE):
            SLEPT[0] += n
            sched_sleep()
            return
        real(n)
    time.sleep = sleep


def sched_sleep():
    """under the cooperative scheduler a sleeping thread of the code under test gives the baton up"""
    vnet = sys.modules.get(__package__ + ".vnet")
    if vnet is not None:
        s = vnet._my_sched()
        if s is not None:
            s.sleep_point()


def _own_threading():
    """threading.Lock / RLock / Event / Condition / Semaphore created BY the code under test
    (whatever name they are imported under) are scheduler-aware (vnet.Owned*): real primitives
    outside a scheduled run; inside one, waiting for them is a blocking point of the
    cooperative scheduler instead of a sleep in the kernel.  Everybody else keeps the real ones."""
    import threading

    def mine():
        try:
            return sys._getframe(2).f_code.co_filename.startswith(MIDDLEWARE)
        except ValueError:
            return False

    def factory(real, make):
        def f(*a, **k):
            if mine():
                from . import vnet
                return make(vnet)(*a, **k)
            return real(*a, **k)
        f.__verif_real__ = real
        return f
    if getattr(threading.Lock, "__verif_real__", None) is not None:
        return
    threading.Lock = factory(threading.Lock, lambda v: (lambda: v.OwnedLock()))
    threading.RLock = factory(threading.RLock, lambda v: (lambda: v.OwnedLock(reentrant=True)))
    threading.Event = factory(threading.Event, lambda v: v.OwnedEvent)
    threading.Condition = factory(threading.Condition, lambda v: v.OwnedCondition)
    threading.Semaphore = factory(threading.Semaphore, lambda v: v.OwnedSemaphore)
    threading.BoundedSemaphore = factory(threading.BoundedSemaphore,
                                         lambda v: (lambda value=1: v.OwnedSemaphore(value, bounded=True)))


class Rng:
    """Deterministic byte source derived from VERIF_SEED and a label (hash chain)."""

    def __init__(self, label, s=None):
        self.key = ("%d|%s" % (seed() if s is None else s, label)).encode()
        self.ctr = 0
        self.buf = b""

    def bytes(self, n):
        while len(self.buf) < n:
            self.buf += hashlib.sha256(self.key + self.ctr.to_bytes(8, "big")).digest()
            self.ctr += 1
        out, self.buf = self.buf[:n], self.buf[n:]
        return out

    def int(self, lo, hi):
        """uniform-ish integer in [lo, hi]"""
        span = hi - lo + 1
        return lo + int.from_bytes(self.bytes(8), "big") % span

    def nz_bytes(self, n):
        b = bytearray(self.bytes(n))
        for i in range(n):
            if b[i] == 0:
                b[i] = 1 + (i % 255)
        return bytes(b)


def rbytes(label, n):
    return Rng(label).bytes(n)


class patched:
    """Context manager: set module attributes, restore on exit."""

    def __init__(self, *triples):
        self.triples = triples
        self.saved = []

    def __enter__(self):
        for obj, name, val in self.triples:
            missing = object()
            old = obj.__dict__.get(name, missing) if hasattr(obj, "__dict__") else getattr(obj, name, missing)
            self.saved.append((obj, name, old, missing))
            setattr(obj, name, val)
        return self

    def __exit__(self, *a):
        for obj, name, old, missing in reversed(self.saved):
            if old is missing:
                try:
                    delattr(obj, name)
                except AttributeError:
                    pass
            else:
                setattr(obj, name, old)
        self.saved = []
        return False


# ---------------------------------------------------------------------------
# owning randomness, whichever standard-library door the code under test uses
# ---------------------------------------------------------------------------

class _FormattingSink(logging.Handler):
    """what a production handler does to a record, without the output: the message is formatted
    (arguments are printed); as in logging.StreamHandler.emit a RecursionError propagates to the
    caller, any other formatting error is swallowed"""

    def emit(self, record):
        try:
            record.getMessage()
        except RecursionError:
            raise
        except Exception:   # noqa
            pass


def logging_as_in_production(on=True):
    """Checks run with logging switched off (speed).  Where what a log call does to its arguments
    matters (hostile input: a value too deeply nested to print), switch it on: every record of every
    logger is formatted by a sink handler."""
    root = logging.getLogger()
    for h in list(root.handlers):
        if isinstance(h, _FormattingSink):
            root.removeHandler(h)
    if on:
        logging.disable(logging.NOTSET)
        root.setLevel(logging.DEBUG)
        root.addHandler(_FormattingSink())
    else:
        logging.disable(logging.CRITICAL)


class RandomFacade:
    """Everything ``random`` / ``secrets`` / ``os.urandom`` offer, answered from ONE deterministic
    source ``src`` with a method ``choice(pool)`` (and optionally ``index(n)`` for an integer below
    n).  Stands in for the module objects and for names imported from them, so that a harness
    that owns the PIN generator's randomness keeps owning it when the code under test moves from
    ``random.choice`` to ``secrets.choice`` / ``SystemRandom`` / ``randbelow`` / ``os.urandom``."""

    def __init__(self, src):
        self.src = src

    # -- the source ----------------------------------------------------------
    def choice(self, pool):
        return self.src.choice(pool)

    def _below(self, n):
        if n <= 0:
            raise ValueError("empty range")
        if hasattr(self.src, "index"):
            return self.src.index(n)
        return self.src.choice(range(n))

    # -- random --------------------------------------------------------------
    def seed(self, *a, **k):
        pass

    def randrange(self, start, stop=None, step=1):
        if stop is None:
            start, stop = 0, start
        n = len(range(start, stop, step))
        return start + step * self._below(n)

    def randint(self, a, b):
        return a + self._below(b - a + 1)

    def randbelow(self, n):
        return self._below(n)

    _randbelow = randbelow

    def getrandbits(self, k):
        out = 0
        for _ in range((k + 7) // 8):
            out = (out << 8) | self._below(256)
        return out & ((1 << k) - 1)

    randbits = getrandbits

    def random(self):
        return self._below(1 << 20) / float(1 << 20)

    def choices(self, population, weights=None, cum_weights=None, k=1):
        return [self.choice(population) for _ in range(k)]

    def sample(self, population, k, counts=None):
        pool = list(population)
        return [pool.pop(self._below(len(pool))) for _ in range(k)]

    def shuffle(self, x):
        for i in reversed(range(1, len(x))):
            j = self._below(i + 1)
            x[i], x[j] = x[j], x[i]

    def randbytes(self, n):
        return bytes(self._below(256) for _ in range(n))

    # -- secrets / os ----------------------------------------------------------
    token_bytes = randbytes
    urandom = randbytes

    def token_hex(self, n=32):
        return self.randbytes(n).hex()

    def token_urlsafe(self, n=32):
        import base64
        return base64.urlsafe_b64encode(self.randbytes(n)).rstrip(b"=").decode()

    def compare_digest(self, a, b):
        import hmac
        return hmac.compare_digest(a, b)

    # -- classes ---------------------------------------------------------------
    def SystemRandom(self, *a, **k):
        return self

    Random = SystemRandom


def bind_random(module, src):
    """Point every door to randomness found in ``module``'s namespace at ``src`` (see
    RandomFacade).  Returns a function that restores the namespace."""
    import random as _random
    import secrets as _secrets
    facade = RandomFacade(src)
    saved = {}
    class_saved = []
    # sources kept on the classes of the module (``_rng = random.SystemRandom()`` as a class attribute)
    for cname, cls in list(vars(module).items()):
        if isinstance(cls, type) and getattr(cls, "__module__", None) == module.__name__:
            for name, val in list(vars(cls).items()):
                if isinstance(val, _random.Random) or val is _random or val is _secrets:
                    class_saved.append((cls, name, val))
                    setattr(cls, name, facade)
    for name, val in list(vars(module).items()):
        new = None
        if val is _random or val is _secrets:
            new = facade
        elif val is _random.Random or val is _random.SystemRandom:
            new = facade.SystemRandom
        elif val is os.urandom:
            new = facade.urandom
        elif isinstance(val, _random.Random):
            new = facade
        elif callable(val) and isinstance(getattr(val, "__self__", None), _random.Random):
            new = getattr(facade, getattr(val, "__name__", ""), None)
        elif callable(val) and getattr(val, "__module__", None) == "secrets":
            new = getattr(facade, getattr(val, "__name__", ""), None)
        if new is not None:
            saved[name] = val
            setattr(module, name, new)
    # the os name inside the module (real module or a stand-in): its urandom too
    mod_os = vars(module).get("os")
    os_saved = None
    if mod_os is not None and mod_os is not os and hasattr(mod_os, "__dict__"):
        os_saved = (mod_os, mod_os.__dict__.get("urandom", None), "urandom" in mod_os.__dict__)
        mod_os.urandom = facade.urandom

    def restore():
        for name, val in saved.items():
            setattr(module, name, val)
        for cls, name, val in class_saved:
            setattr(cls, name, val)
        if os_saved is not None:
            o, v, had = os_saved
            if had:
                o.urandom = v
            else:
                try:
                    del o.urandom
                except AttributeError:
                    pass
    restore.bound = sorted(saved)
    restore.facade = facade
    return restore
