"""Process environment of a check: where the code under test comes from,
determinism settings, seeded byte source."""
import hashlib
import logging
import os
import sys

HOME = os.environ.get("VERIF_HOME") or os.path.dirname(os.path.dirname(os.path.abspath(__file__)))
REPO = os.environ.get("VERIF_REPO", "/repo")
MIDDLEWARE = os.path.join(REPO, "middleware")
SHIMS = os.path.join(HOME, "shims")
GUARD = "RSK_POWHSM_VERIF"


def seed():
    try:
        return int(os.environ.get("VERIF_SEED", "0"))
    except ValueError:
        return 0


_installed = False


def install():
    """Put the bitcoin.core shim and the middleware of the tree under test first on
    sys.path, silence logging.  Idempotent."""
    global _installed
    if _installed:
        return
    _installed = True
    os.environ[GUARD] = "1"
    sys.dont_write_bytecode = True
    for p in (MIDDLEWARE, SHIMS):
        if p in sys.path:
            sys.path.remove(p)
    sys.path.insert(0, MIDDLEWARE)
    sys.path.insert(0, SHIMS)
    logging.disable(logging.CRITICAL)
    import bitcoin.core  # noqa: F401  (must be the shim)
    if not getattr(sys.modules["bitcoin"], "__verif_shim__", False):
        raise RuntimeError("bitcoin package is not the shim")


class Rng:
    """Deterministic byte source derived from VERIF_SEED and a label (hash chain)."""

    def __init__(self, label, s=None):
        self.key = ("%d|%s" % (seed() if s is None else s, label)).encode()
        self.ctr = 0
        self.buf = b""

    def bytes(self, n):
        while len(self.buf) < n:
            self.buf += hashlib.sha256(self.key + self.ctr.to_bytes(8, "big")).digest()
            self.ctr += 1
        out, self.buf = self.buf[:n], self.buf[n:]
        return out

    def int(self, lo, hi):
        """uniform-ish integer in [lo, hi]"""
        span = hi - lo + 1
        return lo + int.from_bytes(self.bytes(8), "big") % span

    def nz_bytes(self, n):
        b = bytearray(self.bytes(n))
        for i in range(n):
            if b[i] == 0:
                b[i] = 1 + (i % 255)
        return bytes(b)


def rbytes(label, n):
    return Rng(label).bytes(n)


class patched:
    """Context manager: set module attributes, restore on exit."""

    def __init__(self, *triples):
        self.triples = triples
        self.saved = []

    def __enter__(self):
        for obj, name, val in self.triples:
            missing = object()
            old = obj.__dict__.get(name, missing) if hasattr(obj, "__dict__") else getattr(obj, name, missing)
            self.saved.append((obj, name, old, missing))
            setattr(obj, name, val)
        return self

    def __exit__(self, *a):
        for obj, name, old, missing in reversed(self.saved):
            if old is missing:
                try:
                    delattr(obj, name)
                except AttributeError:
                    pass
            else:
                setattr(obj, name, old)
        self.saved = []
        return False
