"""Recording stand-in for the listening side of the manager (C09, C10): ``socketserver.TCPServer``
itself is patched (constructor, serve_forever, shutdown, server_close), so whichever way the code
under test names the class (``socketserver.TCPServer``, ``from socketserver import TCPServer``, a
subclass, a class built with type()) it ends up here; nothing is bound, nothing listens.  Request
lines are served through the server's own RequestHandlerClass (``finish_request``), i.e. through
whatever wiring the code under test set up between server, handler and protocol."""
import io
import socketserver
import threading

from . import harness

_NAMES = ("__init__", "serve_forever", "shutdown", "server_close", "server_bind", "server_activate")


class _Request:
    """what StreamRequestHandler needs from an accepted socket"""

    def __init__(self, line, client="present"):
        self.inp = bytes(line) + b"\n"
        self.out = b""
        self.closed = False
        self.client = client      # "present" | "reset" (RST by the time of the reply) | "closed"

    def makefile(self, mode="r", buffering=-1, **k):
        if "r" in mode:
            return io.BytesIO(self.inp)
        return _Writer(self)

    def sendall(self, data):
        if self.client == "reset":
            raise ConnectionResetError(104, "Connection reset by peer")
        if self.client == "closed":
            raise BrokenPipeError(32, "Broken pipe")
        self.out += bytes(data)

    send = sendall

    def settimeout(self, t):
        pass

    def setsockopt(self, *a):
        pass

    def shutdown(self, how):
        pass

    def close(self):
        self.closed = True

    def fileno(self):
        return 99

    def getpeername(self):
        return ("127.0.0.1", 50000)


class _Writer(io.RawIOBase):
    def __init__(self, req):
        self.req = req

    def writable(self):
        return True

    def write(self, b):
        self.req.sendall(b)
        return len(b)


class ServerRecorder:
    def __init__(self, record):
        self.record = record
        self.saved = None

    def install(self):
        rec = self.record
        T = socketserver.TCPServer
        self.saved = {n: T.__dict__.get(n) for n in _NAMES}
        self.saved_module = None

        def __init__(srv, server_address, RequestHandlerClass, bind_and_activate=True):
            socketserver.BaseServer.__init__(srv, server_address, RequestHandlerClass)
            srv.socket = None
            srv._verif_shutdown = False
            rec.append(("bind", server_address))

        def serve_forever(srv, poll_interval=0.5):
            rec.append(("serve_forever",))
            cb = getattr(rec, "on_serve", None)
            if cb is not None:
                cb(srv)

        def shutdown(srv):
            srv._verif_shutdown = True
            rec.append(("shutdown",))

        def server_close(srv):
            rec.append(("close",))

        def nothing(srv):
            pass
        for n, f in (("__init__", __init__), ("serve_forever", serve_forever), ("shutdown", shutdown),
                     ("server_close", server_close), ("server_bind", nothing), ("server_activate", nothing)):
            setattr(T, n, f)
        return self

    def restore(self):
        T = socketserver.TCPServer
        for n, f in (self.saved or {}).items():
            if f is None:
                try:
                    delattr(T, n)
                except AttributeError:
                    pass
            else:
                setattr(T, n, f)
        self.saved = None


def serve_line(server, line, client="present"):
    """one client, one request line, through the server's own handler class; returns a
    harness.Outcome-like object: .reply (parsed JSON or None), .raw, .exc (set when the handler asked
    the server to shut down or let an exception escape)"""
    req = _Request(line, client)
    before = set(threading.enumerate())
    err = None
    try:
        server.finish_request(req, ("127.0.0.1", 50000))
    except Exception as e:   # noqa   (socketserver would log it and go on serving)
        err = e
    for t in threading.enumerate():
        if t not in before and t is not threading.current_thread():
            t.join(10)
    o = harness.Outcome()
    o.raw = req.out
    o.lines = [ln for ln in req.out.split(b"\n") if ln]
    o.reply = None
    o.error = None
    if len(o.lines) == 1:
        try:
            import json
            o.reply = json.loads(o.lines[0].decode())
        except Exception:   # noqa
            pass
    o.shutdown = bool(getattr(server, "_verif_shutdown", False))
    o.exc = err if err is not None else ("shutdown" if o.shutdown else None)
    return o


class ManagerSeams:
    """Everything a manager process touches outside the Python heap, bound to the model for the time
    of one run: PIN file (module seams of ledger.pin / manager_ledger / manager_sgx where they exist,
    plus the process-wide file API for paths under the PIN directory), environment variable PIN,
    randomness of the PIN generator, logging configuration, the listening socket."""

    def __init__(self, fs, record, rnd, environ=None, pin_dir=None):
        self.fs, self.record, self.rnd = fs, record, rnd
        self.environ = dict(environ or {})
        self.pin_dir = pin_dir
        self.undo = []

    def _set(self, mod, name, value, only_if_present=True):
        import sys
        had = name in vars(mod)
        if only_if_present and not had:
            return
        old = vars(mod).get(name)

        def back():
            if had:
                setattr(mod, name, old)
            else:
                vars(mod).pop(name, None)
        setattr(mod, name, value)
        self.undo.append(back)

    def install(self):
        import os
        import ledger.pin as LPIN
        import mgr.runner as RUN
        import comm.logging as CLOG
        import manager_ledger
        import manager_sgx
        from . import env, memfs
        fs = self.fs
        self._set(LPIN, "os", memfs.FakeOs(fs))
        self._set(LPIN, "open", fs.open, only_if_present=False)
        unbind = env.bind_random(LPIN, self.rnd)
        self.undo.append(unbind)
        self._set(RUN, "configure_logging", lambda p: None)
        self._set(CLOG, "configure_logging", lambda p: None)
        fake_os = memfs.FakeOs(fs, self.environ)
        for m in (manager_ledger, manager_sgx):
            self._set(m, "os", fake_os)
            self._set(m, "open", fs.open, only_if_present=False)
            self._set(m, "shutil", memfs.FakeShutil(fs), only_if_present=False)
        # the process environment itself (``from os import environ`` / os.getenv)
        old_pin = os.environ.get("PIN")
        if "PIN" in self.environ:
            os.environ["PIN"] = self.environ["PIN"]
        else:
            os.environ.pop("PIN", None)

        def env_back():
            if old_pin is None:
                os.environ.pop("PIN", None)
            else:
                os.environ["PIN"] = old_pin
        self.undo.append(env_back)
        if self.pin_dir:
            route = memfs.GlobalRoute(fs, self.pin_dir).install()
            self.undo.append(route.restore)
        srv = ServerRecorder(self.record).install()
        self.undo.append(srv.restore)
        return self

    def restore(self):
        for f in reversed(self.undo):
            try:
                f()
            except Exception:   # noqa
                pass
        self.undo = []
