"""Check runner: shards cases over a fork pool, collects statistics and
violations, applies the known-findings list, writes evidence and replay files."""
import hashlib
import json
import multiprocessing
import os
import subprocess
import sys
import time
import traceback

from . import env
from .xplore import Stats, HarnessError

# runs against another tree than /repo (seeded changes, mutants: VERIF_REPO) must not overwrite the
# evidence of the real tree: their output goes to VERIF_OUT (default: a scratch directory)
_OUT = os.environ.get("VERIF_OUT") or (
    env.HOME if os.path.realpath(env.REPO) == "/repo"
    else "/var/tmp/verif-out/" + os.path.basename(os.path.realpath(env.REPO)))
EVIDENCE_DIR = os.path.join(_OUT, "evidence")
REPLAY_DIR = os.path.join(_OUT, "replays")
KNOWN_FILE = os.path.join(env.HOME, "known_findings.json")


class Violation:
    def __init__(self, prop, key, case, choices, observed, expected, clause=""):
        self.d = {
            "property": prop,
            "key": key,
            "clause": clause,
            "case": case,
            "choices": list(choices) if choices is not None else None,
            "observed": observed,
            "expected": expected,
        }

    @property
    def key(self):
        return self.d["key"]


def jsonable(x, depth=0):
    if depth > 8:
        return repr(x)
    if isinstance(x, (str, int, float, bool)) or x is None:
        if isinstance(x, int) and abs(x) > 2 ** 62:
            return str(x)
        if isinstance(x, str) and len(x) > 2000:
            return x[:2000] + "...(%d chars)" % len(x)
        return x
    if isinstance(x, (bytes, bytearray)):
        hx = bytes(x).hex()
        return "0x" + (hx if len(hx) <= 400 else hx[:400] + "...(%d bytes)" % len(x))
    if isinstance(x, dict):
        return {str(k): jsonable(v, depth + 1) for k, v in list(x.items())[:200]}
    if isinstance(x, (list, tuple, set, frozenset)):
        lst = list(x)
        out = [jsonable(v, depth + 1) for v in lst[:200]]
        if len(lst) > 200:
            out.append("...(%d items)" % len(lst))
        return out
    return repr(x)


class Check:
    """Base class of a property check."""
    id = None
    level = "exploration"
    rule = ""
    assumptions = []
    trusted_base = []

    def __init__(self, tier, seed):
        self.tier = tier
        self.seed = seed
        self.thorough = tier == "thorough"

    # -- to be provided by subclasses ------------------------------------
    def prepare(self):
        """Runs once in the parent before forking (imports, tables, calibration)."""

    def cases(self):
        """JSON-serialisable case descriptors; each is explored by one worker call."""
        raise NotImplementedError

    def run_case(self, case, stats):
        """Explore one case; return a list of Violation."""
        raise NotImplementedError

    def replay(self, case, choices):
        """Re-run one execution without the explorer; return list of Violation.
        Default: a violation's ``case`` is itself a single-execution case of run_case."""
        c = dict(case)
        if choices:
            c["choices"] = list(choices)
        return list(self.run_case(c, Stats()) or [])

    def bounds(self):
        return {}

    def alphabets(self):
        return {}


def run_case_in_child(check, case, pyflags=("-O",)):
    """the violations (as dicts) of one case run in a child interpreter started with other flags"""
    import subprocess
    req = json.dumps({"id": check.id, "tier": "thorough" if getattr(check, "thorough", False) else "quick",
                      "seed": getattr(check, "seed", 0), "case": jsonable(case)})
    r = subprocess.run([sys.executable] + list(pyflags) + ["-m", "verif.childcase"], input=req, text=True,
                       capture_output=True, cwd=env.HOME, env=dict(os.environ), timeout=1200)
    for line in r.stdout.splitlines():
        if line.startswith("CHILDCASE-RESULT "):
            return json.loads(line[len("CHILDCASE-RESULT "):])
    raise HarnessError("child interpreter gave no result: %s" % (r.stderr[-800:],))


def optimized(check, case, stats):
    """case {"kind": "optimized", "sub": <case>}: the sub-case under `python -O`; its violations are
    reported with ':python-O' appended to the key and replay through the same door"""
    if sys.flags.optimize:
        return []        # already the child
    stats.evaluations += 1
    out = []
    known_open = {k["key"] for k in load_known() if k.get("property") == check.id and k.get("status") == "open"}
    for d in run_case_in_child(check, case["sub"]):
        if d["key"] in known_open:
            continue        # the recorded finding, seen once more through this door
        if d.get("harness"):
            raise HarnessError("child harness error: %r" % (d,))
        sub = d.get("case") if isinstance(d.get("case"), dict) else case["sub"]
        if d.get("choices"):
            sub = dict(sub, choices=d["choices"])
        out.append(Violation(check.id, d["key"] + ":python-O", {"kind": "optimized", "sub": sub}, None,
                             d.get("observed"), d.get("expected"), d.get("clause", "")))
    stats.observe(("optimized", json.dumps(case["sub"], sort_keys=True)[:80], len(out)), nontrivial=True)
    return out


_CHECK = None
_RUN_BEFORE = []        # indices (in cases()) of the cases this worker process ran before the current one


def _worker(idx_case):
    idx, case = idx_case
    st = Stats()
    t0 = time.time()
    earlier = list(_RUN_BEFORE)
    _RUN_BEFORE.append(idx)
    try:
        vs = _CHECK.run_case(case, st) or []
        err = None
    except HarnessError as e:
        vs, err = [], "HarnessError in case %r: %s\n%s" % (case, e, traceback.format_exc())
    except BaseException as e:  # noqa
        site = repo_frame(e)
        if site is not None:
            # an exception raised by the code under test travelled through the harness: on the
            # unchanged tree this never happens, so it is a behaviour change, reported as such
            vs = [Violation(_CHECK.id, "%s:exception-escaped-from-code-under-test:%s@%s"
                            % (_CHECK.id, type(e).__name__, site), case, None,
                            {"exception": repr(e)[:300], "traceback_tail": traceback.format_exc()[-1500:]},
                            "no exception (the unchanged tree raises none here)", "exception-escaped")]
            err = None
        else:
            vs, err = [], "harness crash in case %r: %r\n%s" % (case, e, traceback.format_exc())
    # keep the results small: a few shortest violations per key, the rest only counted
    by_key = {}
    for v in vs:
        by_key.setdefault(v.key, []).append(v.d)
    out = []
    for k, lst in by_key.items():
        lst.sort(key=lambda d: len(d.get("choices") or []))
        for d in lst[:3]:
            d = dict(d)
            d["observed"] = jsonable(d["observed"])
            d["expected"] = jsonable(d["expected"])
            d["same_key_in_case"] = len(lst)
            # state kept by the code under test at module / class level lives as long as the worker
            # process: the cases this worker ran before are part of the history of the violation
            d["worker_history"] = earlier[-400:]
            d["origin_case"] = jsonable(case)
            out.append(d)
    return idx, st, out, err, time.time() - t0


def repo_frame(exc):
    """file:function of the innermost frame of exc that lies in the tree under test, or None"""
    best = None
    tb = exc.__traceback__
    for fs in traceback.extract_tb(tb):
        if fs.filename.startswith(env.MIDDLEWARE):
            best = "%s:%s" % (fs.filename[len(env.MIDDLEWARE) + 1:], fs.name)
    return best


def load_known():
    try:
        with open(KNOWN_FILE) as f:
            return json.load(f).get("findings", [])
    except FileNotFoundError:
        return []


def run_check(check, jobs=None, budget_s=None, quiet=False):
    """Returns exit code."""
    global _CHECK
    t0 = time.time()
    env.install()
    try:
        check.prepare()
    except HarnessError as e:
        sys.stdout.write("HARNESS-ERROR property=%s in prepare(): %s\n" % (check.id, e))
        sys.stdout.flush()
        return 2
    except Exception as e:   # noqa
        site = repo_frame(e)
        if site is None:
            raise
        check.pre_violations = list(getattr(check, "pre_violations", [])) + [Violation(
            check.id, "%s:exception-escaped-from-code-under-test:%s@%s" % (check.id, type(e).__name__, site),
            {"kind": "prepare"}, None, {"exception": repr(e)[:300], "traceback_tail": traceback.format_exc()[-1500:]},
            "no exception (the unchanged tree raises none here)", "exception-escaped")]
        check.cases = lambda: []
    cases = list(check.cases())
    _CHECK = check
    jobs = jobs or int(os.environ.get("VERIF_JOBS", "0")) or min(16, os.cpu_count() or 1)
    jobs = max(1, min(jobs, len(cases)))
    total = Stats()
    violations = [v.d for v in getattr(check, "pre_violations", [])]
    errors = []
    cap_hit = False
    slowest = (0.0, None)
    work = list(enumerate(cases))
    done_cases = 0
    if jobs == 1:
        it = map(_worker, work)
        pool = None
    else:
        ctx = multiprocessing.get_context("fork")
        pool = ctx.Pool(jobs)
        chunk = max(1, min(64, len(work) // (jobs * 8) or 1))
        it = pool.imap_unordered(_worker, work, chunksize=chunk)
    try:
        for idx, st, vs, err, dt in it:
            done_cases += 1
            total.merge(st)
            if dt > slowest[0]:
                slowest = (dt, cases[idx])
            if err:
                errors.append(err)
                if len(errors) > 3:
                    break
            violations.extend(vs)
            if budget_s and time.time() - t0 > budget_s:
                cap_hit = True
                break
            if len(violations) > 2000:
                cap_hit = True
                break
    finally:
        if pool is not None:
            pool.terminate()
            pool.join()
    wall = time.time() - t0

    if errors:
        sys.stdout.write("HARNESS-ERROR property=%s\n%s\n" % (check.id, errors[0]))
        sys.stdout.flush()
        return 2

    # known findings
    known = [k for k in load_known() if k.get("property") == check.id]
    open_keys = {k["key"]: k for k in known if k.get("status") == "open"}
    new, hits = {}, {}
    for v in violations:
        if v["key"] in open_keys:
            hits.setdefault(v["key"], []).append(v)
        else:
            new.setdefault(v["key"], []).append(v)

    os.makedirs(EVIDENCE_DIR, exist_ok=True)
    for k, lst in hits.items():
        print("KNOWN-FINDING: property=%s %s (%d executions; key=%s)"
              % (check.id, open_keys[k].get("what", ""), len(lst), k))
    replay_paths = []
    if new:
        os.makedirs(os.path.join(REPLAY_DIR, check.id), exist_ok=True)
        for k, lst in sorted(new.items()):
            # shortest counterexample first
            lst.sort(key=lambda d: (len(d.get("choices") or []), len(json.dumps(jsonable(d["case"])))))
            d = dict(lst[0])
            d["tier"] = check.tier
            d["seed"] = check.seed
            d["same_key_count"] = len(lst)
            blob = json.dumps(jsonable_top(d), sort_keys=True, indent=1)
            name = hashlib.sha256(blob.encode()).hexdigest()[:16] + ".json"
            path = os.path.join(REPLAY_DIR, check.id, name)
            with open(path, "w") as f:
                f.write(blob)
            replay_paths.append((k, path, d))
        for k, path, d in replay_paths[:40]:
            print("VIOLATION property=%s replay=%s" % (check.id, path))
            if not quiet:
                print("  key=%s clause=%s" % (k, d.get("clause")))
                print("  observed=%s" % json.dumps(jsonable(d["observed"]))[:600])
                print("  expected=%s" % json.dumps(jsonable(d["expected"]))[:600])

    cov = {
        "evaluations": total.evaluations,
        "distinct_nontrivial": len(total.classes),
        "rule": check.rule,
        "samples": jsonable(total.samples[:6]) or ["(none)"],
        "states": max(len(total.states), 0),
        "transitions": total.transitions,
        "traces_validated_against_impl": total.evaluations,
        "exhaustive": (not cap_hit) and not total.extra.get("capped", 0),
        "cases": len(cases),
        "cases_done": done_cases,
        "max_depth": total.max_depth,
        "dont_care": total.dont_care,
        "bounds": check.bounds(),
        "alphabets": jsonable(check.alphabets()),
        "cap_hit": bool(cap_hit or total.extra.get("capped", 0)),
        "known_findings_hit": sorted(hits.keys()),
        "trusted_base": list(check.trusted_base),
        "jobs": jobs,
        "slowest_case_s": round(slowest[0], 2),
    }
    if check.level == "model_checking" and cov["states"] == 0:
        cov["states"] = len(total.classes)
    for k, v in total.extra.items():
        if k.startswith("_"):
            continue
        cov["x_" + k] = len(v) if isinstance(v, set) else v
    ev = {
        "property_id": check.id,
        "tier": check.tier,
        "seed": check.seed,
        "level": check.level,
        "coverage": cov,
        "assumptions": list(check.assumptions),
        "wall_s": round(wall, 2),
        "violations": len(new),
    }
    path = os.path.join(EVIDENCE_DIR, check.id + ".json")
    with open(path, "w") as f:
        json.dump(ev, f, indent=1, sort_keys=True)
        f.write("\n")
    ok_schema = validate_evidence(path)
    print("%s tier=%s seed=%d: executions=%d states=%d transitions=%d classes=%d dont_care=%d "
          "cases=%d/%d violations(new keys)=%d known=%d wall=%.1fs%s"
          % (check.id, check.tier, check.seed, total.evaluations, len(total.states),
             total.transitions, len(total.classes), total.dont_care, done_cases, len(cases),
             len(new), len(hits), wall, " CAP-HIT" if cov["cap_hit"] else ""))
    if not ok_schema:
        print("HARNESS-ERROR evidence file does not validate: %s" % path)
        return 2
    if len(total.classes) < 2 and not new:
        print("HARNESS-ERROR vacuous exploration: fewer than 2 distinct non-trivial outcomes")
        return 2
    return 1 if new else 0


def jsonable_top(d):
    out = {}
    for k, v in d.items():
        if k in ("case", "choices"):
            out[k] = v          # must stay replayable: checks keep cases JSON-clean
        else:
            out[k] = jsonable(v)
    return out


def validate_evidence(path):
    schema = "/root/.vp/EVIDENCE.schema.json"
    local = os.path.join(env.HOME, "schemas", "EVIDENCE.schema.json")
    if not os.path.exists(schema):
        schema = local
    if not os.path.exists(schema):
        return True
    code = ("import json,sys,jsonschema;"
            "jsonschema.validate(json.load(open(sys.argv[1])),json.load(open(sys.argv[2])))")
    for py in ("python3-vt", "/opt/veriftools/pyvenv/bin/python"):
        try:
            r = subprocess.run([py, "-c", code, path, schema], capture_output=True, timeout=60)
        except (FileNotFoundError, subprocess.TimeoutExpired):
            continue
        if r.returncode == 0:
            return True
        if b"ValidationError" in r.stderr:
            sys.stdout.write(r.stderr.decode()[-800:] + "\n")
            return False
    return True   # no validator available: do not block
