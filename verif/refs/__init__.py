"""Independent reference computations (never import a middleware module)."""
