"""SHA-256 compression function in pure Python (for midstates)."""
import struct

_K = [
    0x428a2f98, 0x71374491, 0xb5c0fbcf, 0xe9b5dba5, 0x3956c25b, 0x59f111f1, 0x923f82a4, 0xab1c5ed5,
    0xd807aa98, 0x12835b01, 0x243185be, 0x550c7dc3, 0x72be5d74, 0x80deb1fe, 0x9bdc06a7, 0xc19bf174,
    0xe49b69c1, 0xefbe4786, 0x0fc19dc6, 0x240ca1cc, 0x2de92c6f, 0x4a7484aa, 0x5cb0a9dc, 0x76f988da,
    0x983e5152, 0xa831c66d, 0xb00327c8, 0xbf597fc7, 0xc6e00bf3, 0xd5a79147, 0x06ca6351, 0x14292967,
    0x27b70a85, 0x2e1b2138, 0x4d2c6dfc, 0x53380d13, 0x650a7354, 0x766a0abb, 0x81c2c92e, 0x92722c85,
    0xa2bfe8a1, 0xa81a664b, 0xc24b8b70, 0xc76c51a3, 0xd192e819, 0xd6990624, 0xf40e3585, 0x106aa070,
    0x19a4c116, 0x1e376c08, 0x2748774c, 0x34b0bcb5, 0x391c0cb3, 0x4ed8aa4a, 0x5b9cca4f, 0x682e6ff3,
    0x748f82ee, 0x78a5636f, 0x84c87814, 0x8cc70208, 0x90befffa, 0xa4506ceb, 0xbef9a3f7, 0xc67178f2]
IV = (0x6a09e667, 0xbb67ae85, 0x3c6ef372, 0xa54ff53a, 0x510e527f, 0x9b05688c, 0x1f83d9ab, 0x5be0cd19)
_M = 0xffffffff


def _rr(x, n):
    return ((x >> n) | (x << (32 - n))) & _M


def compress(state, block):
    w = list(struct.unpack(">16I", block))
    for i in range(16, 64):
        s0 = _rr(w[i - 15], 7) ^ _rr(w[i - 15], 18) ^ (w[i - 15] >> 3)
        s1 = _rr(w[i - 2], 17) ^ _rr(w[i - 2], 19) ^ (w[i - 2] >> 10)
        w.append((w[i - 16] + s0 + w[i - 7] + s1) & _M)
    a, b, c, d, e, f, g, h = state
    for i in range(64):
        S1 = _rr(e, 6) ^ _rr(e, 11) ^ _rr(e, 25)
        ch = (e & f) ^ ((~e) & g)
        t1 = (h + S1 + ch + _K[i] + w[i]) & _M
        S0 = _rr(a, 2) ^ _rr(a, 13) ^ _rr(a, 22)
        mj = (a & b) ^ (a & c) ^ (b & c)
        t2 = (S0 + mj) & _M
        h, g, f, e, d, c, b, a = g, f, e, (d + t1) & _M, c, b, a, (t1 + t2) & _M
    return tuple((x + y) & _M for x, y in zip(state, (a, b, c, d, e, f, g, h)))


def midstate(prefix):
    """state after hashing len(prefix) bytes (multiple of 64)"""
    assert len(prefix) % 64 == 0
    st = IV
    for i in range(0, len(prefix), 64):
        st = compress(st, prefix[i:i + 64])
    return st


def sha256(data):
    st = IV
    ml = len(data) * 8
    data = bytes(data) + b"\x80"
    while len(data) % 64 != 56:
        data += b"\x00"
    data += struct.pack(">Q", ml)
    for i in range(0, len(data), 64):
        st = compress(st, data[i:i + 64])
    return struct.pack(">8I", *st)


def finish_from_midstate(state, counter, tail):
    """SHA-256 digest of a message whose first ``counter`` bytes (a multiple of 64) left the
    compression state ``state`` and whose remaining bytes are ``tail``"""
    total_bits = (counter + len(tail)) * 8
    data = bytes(tail) + b"\x80"
    while len(data) % 64 != 56:
        data += b"\x00"
    data += struct.pack(">Q", total_bits & ((1 << 64) - 1))
    st = tuple(state)
    for i in range(0, len(data), 64):
        st = compress(st, data[i:i + 64])
    return struct.pack(">8I", *st)
