"""Independent RLP codec (strict decoding, like the Ethereum yellow paper)."""


class RlpError(Exception):
    pass


def enc_len(n, off):
    if n < 56:
        return bytes([off + n])
    b = n.to_bytes((n.bit_length() + 7) // 8, "big")
    return bytes([off + 55 + len(b)]) + b


def encode(x):
    if isinstance(x, (bytes, bytearray)):
        x = bytes(x)
        if len(x) == 1 and x[0] < 0x80:
            return x
        return enc_len(len(x), 0x80) + x
    payload = b"".join(encode(i) for i in x)
    return enc_len(len(payload), 0xc0) + payload


def _item(b, i, strict=True, depth=0, max_depth=200):
    """returns (value, next_index)"""
    if i >= len(b):
        raise RlpError("truncated")
    p = b[i]
    if p < 0x80:
        return bytes([p]), i + 1
    if p < 0xb8:
        n = p - 0x80
        if i + 1 + n > len(b):
            raise RlpError("truncated string")
        s = b[i + 1:i + 1 + n]
        if strict and n == 1 and s[0] < 0x80:
            raise RlpError("non-canonical single byte")
        return s, i + 1 + n
    if p < 0xc0:
        ll = p - 0xb7
        if i + 1 + ll > len(b):
            raise RlpError("truncated length")
        if strict and b[i + 1] == 0:
            raise RlpError("leading zero in length")
        n = int.from_bytes(b[i + 1:i + 1 + ll], "big")
        if strict and n < 56:
            raise RlpError("non-canonical long string")
        if i + 1 + ll + n > len(b):
            raise RlpError("truncated long string")
        return b[i + 1 + ll:i + 1 + ll + n], i + 1 + ll + n
    if p < 0xf8:
        n = p - 0xc0
        start = i + 1
    else:
        ll = p - 0xf7
        if i + 1 + ll > len(b):
            raise RlpError("truncated list length")
        if strict and b[i + 1] == 0:
            raise RlpError("leading zero in list length")
        n = int.from_bytes(b[i + 1:i + 1 + ll], "big")
        if strict and n < 56:
            raise RlpError("non-canonical long list")
        start = i + 1 + ll
    end = start + n
    if end > len(b):
        raise RlpError("truncated list")
    if depth >= max_depth:
        raise RlpError("lists nested deeper than %d" % max_depth)
    out = []
    j = start
    while j < end:
        v, j = _item(b, j, strict, depth + 1, max_depth)
        out.append(v)
    if j != end:
        raise RlpError("list payload overrun")
    return out, end


def decode(b, strict=True, max_depth=200):
    """max_depth: list nesting beyond it is an RlpError (the firmware's parser keeps a stack of
    MAX_RLP_CTX_DEPTH = 5 frames and answers an error beyond it; srlp.h)"""
    b = bytes(b)
    v, j = _item(b, 0, strict, 0, max_depth)
    if j != len(b):
        raise RlpError("trailing bytes")
    return v


def list_payload_len(b):
    """payload length announced by a top-level list prefix"""
    p = b[0]
    if 0xc0 <= p <= 0xf7:
        return p - 0xc0
    if p >= 0xf8:
        ll = p - 0xf7
        return int.from_bytes(b[1:1 + ll], "big")
    raise RlpError("not a list")


def total_len(b):
    """total encoded length announced by the prefix of the first item in b"""
    p = b[0]
    if p < 0x80:
        return 1
    if p < 0xb8:
        return 1 + p - 0x80
    if p < 0xc0:
        ll = p - 0xb7
        if len(b) < 1 + ll:
            raise RlpError("short")
        return 1 + ll + int.from_bytes(b[1:1 + ll], "big")
    if p < 0xf8:
        return 1 + p - 0xc0
    ll = p - 0xf7
    if len(b) < 1 + ll:
        raise RlpError("short")
    return 1 + ll + int.from_bytes(b[1:1 + ll], "big")
