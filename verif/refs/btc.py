"""Byte-level Bitcoin transaction parser, script operation parser and the
reference 'blanking' transformation of property C14.  No third-party code."""
import struct


class RefError(Exception):
    pass


class Reader:
    def __init__(self, b):
        self.b = bytes(b)
        self.i = 0

    def take(self, n):
        if n < 0 or self.i + n > len(self.b):
            raise RefError("truncated: need %d at %d of %d" % (n, self.i, len(self.b)))
        out = self.b[self.i:self.i + n]
        self.i += n
        return out

    def varint(self):
        r = self.take(1)[0]
        if r < 0xfd:
            return r
        if r == 0xfd:
            return struct.unpack("<H", self.take(2))[0]
        if r == 0xfe:
            return struct.unpack("<I", self.take(4))[0]
        return struct.unpack("<Q", self.take(8))[0]

    def rest(self):
        return len(self.b) - self.i


def enc_varint(n):
    if n < 0xfd:
        return bytes([n])
    if n <= 0xffff:
        return b"\xfd" + struct.pack("<H", n)
    if n <= 0xffffffff:
        return b"\xfe" + struct.pack("<I", n)
    return b"\xff" + struct.pack("<Q", n)


def parse_tx(raw):
    """Parse a serialized transaction (legacy form, or BIP144 form when the bytes
    after the version are 00 01).  Returns a dict; raises RefError when the bytes
    are not exactly one transaction."""
    r = Reader(raw)
    version = r.take(4)
    segwit = False
    if r.rest() >= 2 and r.b[r.i] == 0 and r.b[r.i + 1] == 1:
        segwit = True
        r.take(2)
    nin = r.varint()
    vin = []
    for _ in range(nin):
        if r.rest() == 0:
            raise RefError("truncated inputs")
        outpoint = r.take(36)
        sl = r.varint()
        script = r.take(sl)
        seq = r.take(4)
        vin.append({"outpoint": outpoint, "script": script, "sequence": seq})
    nout = r.varint()
    vout = []
    for _ in range(nout):
        if r.rest() == 0:
            raise RefError("truncated outputs")
        value = r.take(8)
        sl = r.varint()
        script = r.take(sl)
        vout.append({"value": value, "script": script})
    witness = None
    if segwit:
        witness = []
        for _ in range(nin):
            n = r.varint()
            stack = []
            for _ in range(n):
                stack.append(r.take(r.varint()))
            witness.append(stack)
    locktime = r.take(4)
    if r.rest() != 0:
        raise RefError("trailing bytes: %d" % r.rest())
    return {"version": version, "segwit": segwit, "vin": vin, "vout": vout,
            "witness": witness, "locktime": locktime}


def serialize_tx(tx, with_witness=True):
    out = bytearray(tx["version"])
    wit = tx.get("witness")
    has_wit = bool(wit) and any(len(s) for s in wit)
    if with_witness and has_wit:
        out += b"\x00\x01"
    out += enc_varint(len(tx["vin"]))
    for i in tx["vin"]:
        out += i["outpoint"] + enc_varint(len(i["script"])) + i["script"] + i["sequence"]
    out += enc_varint(len(tx["vout"]))
    for o in tx["vout"]:
        out += o["value"] + enc_varint(len(o["script"])) + o["script"]
    if with_witness and has_wit:
        for stack in wit:
            out += enc_varint(len(stack))
            for item in stack:
                out += enc_varint(len(item)) + item
    out += tx["locktime"]
    return bytes(out)


def parse_ops(script):
    """Split a script into operations: list of (opcode, data|None, raw_bytes).
    Raises RefError for a push running past the end."""
    ops = []
    i = 0
    n = len(script)
    while i < n:
        start = i
        op = script[i]
        i += 1
        if op > 0x4e:
            ops.append((op, None, script[start:i]))
            continue
        if op < 0x4c:
            size = op
        elif op == 0x4c:
            if i + 1 > n:
                raise RefError("PUSHDATA1 without length")
            size = script[i]
            i += 1
        elif op == 0x4d:
            if i + 2 > n:
                raise RefError("PUSHDATA2 without length")
            size = script[i] | (script[i + 1] << 8)
            i += 2
        else:
            if i + 4 > n:
                raise RefError("PUSHDATA4 without length")
            size = int.from_bytes(script[i:i + 4], "little")
            i += 4
        if i + size > n:
            raise RefError("push past end of script")
        ops.append((op, script[i:i + size], script[start:i + size]))
        i += size
    return ops


def minimal_push(data):
    n = len(data)
    if n < 0x4c:
        return bytes([n]) + data
    if n <= 0xff:
        return b"\x4c" + bytes([n]) + data
    if n <= 0xffff:
        return b"\x4d" + struct.pack("<H", n) + data
    return b"\x4e" + struct.pack("<I", n) + data


def blank_script_variants(script):
    """Allowed images of one input script: (n-1) empty pushes followed by the original
    last operation - either byte-identical or, for a data push, re-encoded with the
    shortest push form (same data)."""
    ops = parse_ops(script)
    if not ops:
        raise RefError("empty script")
    op, data, raw = ops[-1]
    head = b"\x00" * (len(ops) - 1)
    allowed = {head + raw}
    if data is not None:
        allowed.add(head + minimal_push(data))
    return allowed, head + (minimal_push(data) if data is not None else raw)


def blank_tx(raw):
    """Reference image of the transformation (canonical: minimal final push).
    Returns (canonical_bytes, predicate) where predicate(candidate_bytes) says whether a
    candidate is an allowed image."""
    tx = parse_tx(raw)
    allowed_scripts = []
    canon = {"version": tx["version"], "vin": [], "vout": tx["vout"],
             "witness": tx["witness"], "locktime": tx["locktime"]}
    for i in tx["vin"]:
        allowed, c = blank_script_variants(i["script"])
        allowed_scripts.append(allowed)
        canon["vin"].append({"outpoint": i["outpoint"], "script": c, "sequence": i["sequence"]})
    canon_bytes = serialize_tx(canon)

    def ok(candidate):
        try:
            t2 = parse_tx(candidate)
        except RefError:
            return False
        if (t2["version"] != tx["version"] or t2["locktime"] != tx["locktime"]
                or len(t2["vin"]) != len(tx["vin"]) or t2["vout"] != tx["vout"]):
            return False
        if (t2["witness"] or None) != (tx["witness"] or None):
            # witness must be untouched (only relevant for BIP144 input)
            w1 = [list(s) for s in (tx["witness"] or [])]
            w2 = [list(s) for s in (t2["witness"] or [])]
            if any(w1) or any(w2):
                if w1 != w2:
                    return False
        for a, b, al in zip(tx["vin"], t2["vin"], allowed_scripts):
            if a["outpoint"] != b["outpoint"] or a["sequence"] != b["sequence"]:
                return False
            if b["script"] not in al:
                return False
        return True

    return canon_bytes, ok
