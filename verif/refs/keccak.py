"""Pure-python Keccak-f[1600] / Keccak-256 (original padding 0x01, as Ethereum uses)."""

_RC = [
    0x0000000000000001, 0x0000000000008082, 0x800000000000808A, 0x8000000080008000,
    0x000000000000808B, 0x0000000080000001, 0x8000000080008081, 0x8000000000008009,
    0x000000000000008A, 0x0000000000000088, 0x0000000080008009, 0x000000008000000A,
    0x000000008000808B, 0x800000000000008B, 0x8000000000008089, 0x8000000000008003,
    0x8000000000008002, 0x8000000000000080, 0x000000000000800A, 0x800000008000000A,
    0x8000000080008081, 0x8000000000008080, 0x0000000080000001, 0x8000000080008008]
_ROT = [[0, 36, 3, 41, 18], [1, 44, 10, 45, 2], [62, 6, 43, 15, 61],
        [28, 55, 25, 21, 56], [27, 20, 39, 8, 14]]
_M = (1 << 64) - 1


def _rol(x, n):
    n %= 64
    return ((x << n) | (x >> (64 - n))) & _M if n else x


def _f(A):
    for rnd in range(24):
        C = [A[x][0] ^ A[x][1] ^ A[x][2] ^ A[x][3] ^ A[x][4] for x in range(5)]
        D = [C[(x - 1) % 5] ^ _rol(C[(x + 1) % 5], 1) for x in range(5)]
        A = [[A[x][y] ^ D[x] for y in range(5)] for x in range(5)]
        B = [[0] * 5 for _ in range(5)]
        for x in range(5):
            for y in range(5):
                B[y][(2 * x + 3 * y) % 5] = _rol(A[x][y], _ROT[x][y])
        A = [[B[x][y] ^ ((~B[(x + 1) % 5][y]) & B[(x + 2) % 5][y]) for y in range(5)]
             for x in range(5)]
        A[0][0] ^= _RC[rnd]
    return A


def keccak256(data):
    rate = 136
    data = bytearray(data)
    data.append(0x01)
    while len(data) % rate:
        data.append(0)
    data[-1] |= 0x80
    A = [[0] * 5 for _ in range(5)]
    for off in range(0, len(data), rate):
        blk = data[off:off + rate]
        for i in range(rate // 8):
            x, y = i % 5, i // 5
            A[x][y] ^= int.from_bytes(blk[8 * i:8 * i + 8], "little")
        A = _f(A)
    out = b""
    for i in range(4):
        x, y = i % 5, i // 5
        out += A[x][y].to_bytes(8, "little")
    return out
