"""Spec classifier for client requests, written from docs/protocol.md and
docs/protocol-v1.md (request grammar, error code sections).  Never imports the
middleware.  classify(doc, v1) -> (allowed_codes, accept_allowed, contact_open)

* allowed_codes: result codes the documents allow as a *rejection* of this value
* accept_allowed: the value may be accepted (handed to the device)
* contact_open: whether device contact is left open for a rejected value
A value with at least one shape defect must be rejected with the code of one of its
defects; a value without defects must be accepted; where the documents do not decide,
both are allowed."""
import re

from . import btc as B

KEYID_RE = re.compile(r"m(/[0-9]+'?){5}\Z")
V5_COMMANDS = {"version", "sign", "getPubKey", "advanceBlockchain", "resetAdvanceBlockchain",
               "blockchainState", "updateAncestorBlock", "blockchainParameters",
               "signerHeartbeat", "uiHeartbeat"}
V1_COMMANDS = {"version", "sign", "getPubKey"}


def is_int(x):
    return isinstance(x, int) and not isinstance(x, bool)


def hexq(x, nonempty=True):
    """'ok' | 'bad' | 'open' (hex with blanks: bytes.fromhex tolerates them, the documents
    say 'hexadecimal string')"""
    if not isinstance(x, str):
        return "bad"
    if x == "":
        return "bad" if nonempty else "ok"
    if re.fullmatch(r"([0-9a-fA-F]{2})+", x):
        return "ok"
    if re.fullmatch(r"[0-9a-fA-F\s]+", x) and len(re.sub(r"\s", "", x)) % 2 == 0 and re.sub(r"\s", "", x):
        return "open"
    return "bad"


def hexlen(x):
    return len(re.sub(r"\s", "", x)) // 2


def keyid_q(x):
    if not isinstance(x, str):
        return "bad"
    if KEYID_RE.match(x):
        for part in x[2:].split("/"):
            if int(part.rstrip("'")) >= 2 ** 31:
                return "bad"
        return "ok"
    # digits outside ASCII: the documents do not say
    if x.startswith("m/") and any(ch.isdecimal() and not ch.isascii() for ch in x):
        return "open"
    return "bad"


class Verdict:
    def __init__(self):
        self.defects = set()
        self.open_codes = set()      # rejections that are allowed although no defect is certain
        self.accept_open = False     # acceptance allowed although a defect-like feature is present
        self.contact_open = False

    def result(self):
        if self.defects:
            return set(self.defects) | self.open_codes, self.accept_open, self.contact_open
        return set(self.open_codes), True, self.contact_open


def classify(doc, v1=False):
    FORMAT, INVALID, UNKNOWN, WRONGV = (-2, -2, -2, -666) if v1 else (-901, -902, -903, -904)
    AUTH, MSG, KEY = (-2, -2, -2) if v1 else (-101, -102, -103)
    VERSION = 1 if v1 else 5
    v = Verdict()
    if not isinstance(doc, dict):
        v.defects.add(FORMAT)
        return v.result()
    if "command" not in doc:
        v.defects.add(INVALID)
    cmd = doc.get("command")
    if "version" in doc:
        ver = doc["version"]
        if is_int(ver) and ver == VERSION:
            pass
        elif isinstance(ver, (int, float)) and ver == VERSION:
            v.open_codes.add(WRONGV)       # 5.0 / true: not decided by the documents
        else:
            v.defects.add(WRONGV)
    elif cmd != "version" and "command" in doc:
        v.defects.add(INVALID)
    if "command" not in doc:
        return v.result()
    known = V1_COMMANDS if v1 else V5_COMMANDS
    if not isinstance(cmd, str):
        v.defects.add(UNKNOWN)
        v.open_codes.add(INVALID)
        return v.result()
    if cmd not in known:
        v.defects.add(UNKNOWN)
        return v.result()
    extra_top = set(doc) - {"command", "version"} - {
        "sign": {"keyId", "auth", "message"}, "getPubKey": {"keyId"},
        "advanceBlockchain": {"blocks", "brothers"}, "updateAncestorBlock": {"blocks"},
        "signerHeartbeat": {"udValue"}, "uiHeartbeat": {"udValue"}}.get(cmd, set())
    if extra_top:
        v.open_codes.add(INVALID)

    def keyid():
        q = keyid_q(doc.get("keyId")) if "keyId" in doc else "bad"
        if q == "bad":
            v.defects.add(KEY)
        elif q == "open":
            v.open_codes.add(KEY)

    if cmd == "getPubKey":
        keyid()
    elif cmd == "sign" and v1:
        keyid()
        m = doc.get("message")
        q = hexq(m)
        if q == "bad" or (q == "ok" and hexlen(m) != 32) or (q == "open" and hexlen(m) != 32):
            v.defects.add(MSG)
        elif q == "open":
            v.open_codes.add(MSG)
    elif cmd == "sign":
        keyid()
        form = None
        m = doc.get("message")
        if not isinstance(m, dict):
            v.defects.add(MSG)
        else:
            form = message_form(m, v, MSG)
        if "auth" in doc:
            if not auth_ok(doc["auth"], v, AUTH):
                v.defects.add(AUTH)
            elif form == "hash":
                v.accept_open = True        # authorization given with an unauthorized message
                v.open_codes |= {AUTH, MSG}
        elif form in ("legacy", "segwit"):
            v.defects.add(AUTH)
        elif form is None:
            # a defective message that is not in the hash form: the missing authorization
            # is a defensible reason as well
            v.open_codes.add(AUTH)
    elif cmd in ("advanceBlockchain", "updateAncestorBlock"):
        BLK, BRO = -204, -205
        blocks = doc.get("blocks")
        blocks_ok = isinstance(blocks, list) and len(blocks) > 0 and all(isinstance(b, str) for b in blocks)
        if not blocks_ok:
            v.defects.add(BLK)
        else:
            for b in blocks:
                if hexq(b) != "ok":
                    # "serialisation of a block header": checked by the implementation only
                    # once the dialogue has started
                    v.defects.add(BLK)
                    v.contact_open = True
        if cmd == "advanceBlockchain":
            bro = doc.get("brothers")
            if (not isinstance(bro, list) or not isinstance(blocks, list)
                    or len(bro) != len(blocks)
                    or not all(isinstance(x, list) for x in bro)):
                v.defects.add(BRO)
            else:
                for lst in bro:
                    for item in lst:
                        q = hexq(item)
                        if q == "bad":
                            v.defects.add(BRO)
                        elif q == "open":
                            v.open_codes.add(BRO)
    elif cmd in ("signerHeartbeat", "uiHeartbeat"):
        n = 16 if cmd == "signerHeartbeat" else 32
        u = doc.get("udValue")
        q = hexq(u)
        if q == "bad" or hexlen(u) != n:
            v.defects.add(-301)
        elif q == "open":
            v.open_codes.add(-301)
    return v.result()


def auth_ok(a, v, AUTH):
    if not isinstance(a, dict):
        return False
    q = hexq(a.get("receipt"))
    if q == "bad":
        return False
    if q == "open":
        v.open_codes.add(AUTH)
    p = a.get("receipt_merkle_proof")
    if not isinstance(p, list) or len(p) == 0:
        return False
    for n in p:
        q = hexq(n)
        if q == "bad":
            return False
        if q == "open":
            v.open_codes.add(AUTH)
    if set(a) - {"receipt", "receipt_merkle_proof"}:
        v.open_codes.add(AUTH)
    return True


def message_form(m, v, MSG):
    keys = set(m)
    if keys == {"hash"}:
        q = hexq(m["hash"])
        if q == "bad" or hexlen(m["hash"]) != 32:
            v.defects.add(MSG)
            return None
        if q == "open":
            v.open_codes.add(MSG)
        return "hash"
    mode = m.get("sighashComputationMode")
    want = {"tx", "input", "sighashComputationMode"}
    if mode == "segwit":
        want |= {"witnessScript", "outpointValue"}
    if keys != want or mode not in ("legacy", "segwit"):
        v.defects.add(MSG)
        return None
    ok = True
    q = hexq(m["tx"])
    if q == "bad":
        ok = False
    elif q == "open":
        v.open_codes.add(MSG)
    if not is_int(m["input"]) or not (0 <= m["input"] <= 2 ** 32 - 1):
        ok = False
    if mode == "segwit":
        q2 = hexq(m["witnessScript"])
        if q2 == "bad":
            ok = False
        elif q2 == "open":
            v.open_codes.add(MSG)
        ov = m["outpointValue"]
        if not is_int(ov) or not (1 <= ov <= 2 ** 64 - 1):
            ok = False
    if not ok:
        v.defects.add(MSG)
        return None
    if q == "ok":
        # a transaction that cannot be decoded or has an input with an empty script is
        # answered "invalid message" without contacting the device
        try:
            tx = B.parse_tx(bytes.fromhex(m["tx"]))
            if tx["segwit"] or len(tx["vin"]) == 0:
                v.open_codes.add(MSG)
            else:
                for i in tx["vin"]:
                    if not B.parse_ops(i["script"]):
                        raise B.RefError("empty script")
        except B.RefError:
            v.defects.add(MSG)
            return None
    return mode
