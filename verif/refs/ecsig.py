"""Reference helpers for secp256k1 ECDSA signatures: strict DER codec written from
X.690 (no third-party code) and two independent verifiers (libsecp256k1 binding and the
pure-python ``ecdsa`` package).  Never imports a middleware module."""

N = 0xFFFFFFFFFFFFFFFFFFFFFFFFFFFFFFFEBAAEDCE6AF48A03BBFD25E8CD0364141
P = 0xFFFFFFFFFFFFFFFFFFFFFFFFFFFFFFFFFFFFFFFFFFFFFFFFFFFFFFFEFFFFFC2F


class DerError(Exception):
    pass


def _int(b, i):
    if i + 2 > len(b) or b[i] != 0x02:
        raise DerError("integer tag expected at %d" % i)
    ln = b[i + 1]
    if ln & 0x80:
        raise DerError("long-form length in integer")
    if ln == 0 or i + 2 + ln > len(b):
        raise DerError("integer length")
    v = b[i + 2:i + 2 + ln]
    if v[0] & 0x80:
        raise DerError("negative integer")
    if ln > 1 and v[0] == 0 and not v[1] & 0x80:
        raise DerError("non-minimal integer")
    return int.from_bytes(v, "big"), i + 2 + ln


def der_decode(sig):
    """strict DER: SEQUENCE { INTEGER r, INTEGER s }, nothing before or after."""
    b = bytes(sig)
    if len(b) < 8 or b[0] != 0x30:
        raise DerError("sequence tag")
    if b[1] & 0x80:
        raise DerError("long-form length")
    if b[1] != len(b) - 2:
        raise DerError("sequence length %d, have %d" % (b[1], len(b) - 2))
    r, i = _int(b, 2)
    s, i = _int(b, i)
    if i != len(b):
        raise DerError("trailing bytes inside the sequence")
    return r, s


def _enc_int(v):
    raw = v.to_bytes(max(1, (v.bit_length() + 7) // 8), "big")
    if raw[0] & 0x80:
        raw = b"\x00" + raw
    return b"\x02" + bytes([len(raw)]) + raw


def der_encode(r, s):
    body = _enc_int(r) + _enc_int(s)
    return b"\x30" + bytes([len(body)]) + body


def is_strict_der(sig):
    try:
        r, s = der_decode(sig)
    except DerError:
        return False
    return 0 < r < N and 0 < s < N


def verify_libsecp(pub_uncompressed, digest, sig_der):
    """libsecp256k1 verification of a raw 32-byte digest; high-S is normalised first
    (the property does not speak about the S range)."""
    import secp256k1 as ec
    pk = ec.PublicKey(bytes(pub_uncompressed), raw=True)
    try:
        raw = pk.ecdsa_deserialize(bytes(sig_der))
    except Exception:
        return False
    _, norm = pk.ecdsa_signature_normalize(raw)
    return bool(pk.ecdsa_verify(bytes(digest), norm, raw=True))


def verify_ecdsa_pkg(pub_uncompressed, digest, sig_der):
    """``ecdsa`` package verification of a raw 32-byte digest."""
    import ecdsa
    try:
        vk = ecdsa.VerifyingKey.from_string(bytes(pub_uncompressed), curve=ecdsa.SECP256k1)
        return bool(vk.verify_digest(bytes(sig_der), bytes(digest),
                                     sigdecode=ecdsa.util.sigdecode_der))
    except Exception:
        return False


def pub_of_libsecp(priv32):
    import secp256k1 as ec
    return ec.PrivateKey(bytes(priv32), raw=True).pubkey.serialize(compressed=False)


def pub_of_ecdsa_pkg(priv32):
    import ecdsa
    sk = ecdsa.SigningKey.from_string(bytes(priv32), curve=ecdsa.SECP256k1)
    return sk.get_verifying_key().to_string("uncompressed")


def sign_libsecp(priv32, digest):
    """deterministic (RFC 6979), low-S DER signature of a raw digest"""
    import secp256k1 as ec
    k = ec.PrivateKey(bytes(priv32), raw=True)
    return k.ecdsa_serialize(k.ecdsa_sign(bytes(digest), raw=True))


def on_curve(pub_uncompressed):
    b = bytes(pub_uncompressed)
    if len(b) != 65 or b[0] != 4:
        return False
    x = int.from_bytes(b[1:33], "big")
    y = int.from_bytes(b[33:], "big")
    return x < P and y < P and (y * y - x * x * x - 7) % P == 0


def seeded_scalar(rng):
    while True:
        d = int.from_bytes(rng.bytes(32), "big")
        if 0 < d < N:
            return d.to_bytes(32, "big")
