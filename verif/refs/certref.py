"""Reference verifiers for attestation certificates (oracle side of C06, C07, C16).

Never imports a middleware module.  Library split (BUILDING rule 2):

* version 1 (code under test: libsecp256k1 through ``secp256k1``)  -> here: ``ecdsa`` + ``hmac``
* version 2 SGX elements (code under test: ``ecdsa`` on P-256)      -> here: ``cryptography``
* version 2 X.509 elements (code under test: ``cryptography`` X.509 parser) -> here: an own DER
  walker that cuts out TBS / signature / validity / SPKI; only the ECDSA primitive and the SPKI
  key loader are ``cryptography``'s.

A *link verdict* is one of OK / FAIL / OPEN.  OPEN = the property statement leaves the verdict
to the implementation (high-S or non-strict-DER signature that nevertheless carries a verifying
(r, s); messages longer than the documented struct;
element kinds chained in an order the statement does not speak about).
"""
import hashlib
import hmac
import struct
from datetime import datetime, timezone

import ecdsa
from ecdsa import SECP256k1
from ecdsa.ecdsa import Signature as _EcdsaSig

OK, FAIL, OPEN = "ok", "fail", "open"

N_K1 = SECP256k1.order


# --------------------------------------------------------------------------------------
# DER  Ecdsa-Sig-Value ::= SEQUENCE { r INTEGER, s INTEGER }
# --------------------------------------------------------------------------------------
def _ber_len(b, i):
    """-> (length, next index, minimal?) or None"""
    if i >= len(b):
        return None
    first = b[i]
    if first < 0x80:
        return first, i + 1, True
    n = first & 0x7F
    if n == 0 or n > 4 or i + 1 + n > len(b):
        return None
    val = int.from_bytes(b[i + 1:i + 1 + n], "big")
    minimal = b[i + 1] != 0 and not (n == 1 and val < 0x80)
    return val, i + 1 + n, minimal


def der_sig_parse(sig):
    """Most lenient reading of ``sig`` as SEQUENCE{INTEGER r, INTEGER s}: length octets and integer
    padding may be non-minimal, integers may look negative - but the sequence must cover the whole
    field and the two integers the whole sequence (bytes that belong to no part of the structure
    make the field something else than a signature, for every library).

    -> (r, s, strict) or None when there is no such reading.  ``strict`` is True iff the
    encoding is the unique DER encoding of (r, s) (BIP66 rules without the low-S rule)."""
    sig = bytes(sig)
    if len(sig) < 2 or sig[0] != 0x30:
        return None
    t = _ber_len(sig, 1)
    if t is None:
        return None
    ln, i, strict = t
    if i + ln != len(sig):
        return None          # the structure must cover the whole field: bytes after it belong to nothing
    end = i + ln
    vals = []
    for _ in range(2):
        if i >= end or sig[i] != 0x02:
            return None
        t = _ber_len(sig, i + 1)
        if t is None:
            return None
        l2, j, mini = t
        if j + l2 > end:
            return None
        body = sig[j:j + l2]
        if not mini or l2 == 0:
            strict = False
        else:
            if body[0] & 0x80:
                strict = False
            if l2 > 1 and body[0] == 0 and not (body[1] & 0x80):
                strict = False
        vals.append(int.from_bytes(body, "big") if l2 else 0)
        i = j + l2
    if i != end:
        return None          # bytes after s inside the sequence
    return vals[0], vals[1], strict


def der_sig_encode(r, s):
    def enc_int(v):
        b = v.to_bytes(max(1, (v.bit_length() + 7) // 8), "big")
        if b[0] & 0x80:
            b = b"\x00" + b
        return b"\x02" + bytes([len(b)]) + b
    body = enc_int(r) + enc_int(s)
    assert len(body) < 0x80
    return b"\x30" + bytes([len(body)]) + body


# --------------------------------------------------------------------------------------
# version 1: secp256k1 with `ecdsa`
# --------------------------------------------------------------------------------------
V1_NAMES = ("device", "attestation", "ui", "signer")
V1_ROOT = "root"


def v1_extract(name, message):
    """docs/attestation.md, function ``extract``."""
    if name == "device":
        return message[-65:]
    if name == "attestation":
        return message[1:]
    if name in ("ui", "signer"):
        return message
    raise ValueError("Invalid element")


def _precompute(vk):
    """VerifyingKey.precompute() for keys parsed from bytes (their point carries no order)."""
    from ecdsa.ellipticcurve import PointJacobi
    pt = vk.pubkey.point
    vk.pubkey.point = PointJacobi(SECP256k1.curve, pt.x(), pt.y(), 1, N_K1, generator=True)
    vk.pubkey.point * 2


class K1Verifier:
    """Link verdicts on secp256k1 with memoisation (keys are precomputed once they repeat)."""

    def __init__(self):
        self.keys = {}      # (pub bytes, tweak bytes|None) -> [VerifyingKey|None, uses]
        self.links = {}

    def _key(self, pub, tweak):
        k = (pub, tweak)
        ent = self.keys.get(k)
        if ent is None:
            ent = [self._mk_key(pub, tweak), 0]
            self.keys[k] = ent
        ent[1] += 1
        if ent[1] == 4 and ent[0] not in (None, OPEN):
            _precompute(ent[0])
        return ent[0]

    @staticmethod
    def _mk_key(pub, tweak):
        if len(pub) not in (33, 65):
            return None
        try:
            vk = ecdsa.VerifyingKey.from_string(
                pub, curve=SECP256k1, hashfunc=hashlib.sha256,
                valid_encodings=("uncompressed", "compressed", "hybrid"))
        except Exception:
            return None
        if tweak is None:
            return vk
        unc = vk.to_string("uncompressed")
        t = int.from_bytes(hmac.new(tweak, unc, hashlib.sha256).digest(), "big")
        if t == 0 or t >= N_K1:
            return OPEN
        pt = vk.pubkey.point + SECP256k1.generator * t
        try:
            return ecdsa.VerifyingKey.from_string(pt.to_bytes("uncompressed"), curve=SECP256k1,
                                                  hashfunc=hashlib.sha256)
        except Exception:
            return OPEN      # point at infinity: 2^-256

    def link(self, pub, tweak, message, signature):
        """pub: certifier key bytes as embedded / given; tweak: bytes or None."""
        k = (pub, tweak, message, signature)
        v = self.links.get(k)
        if v is None:
            v = self._link(pub, tweak, message, signature)
            self.links[k] = v
        return v

    def _link(self, pub, tweak, message, signature):
        vk = self._key(pub, tweak)
        if vk is None:
            return FAIL
        if vk == OPEN:
            return OPEN
        p = der_sig_parse(signature)
        if p is None:
            return FAIL
        r, s, strict = p
        if not (1 <= r < N_K1 and 1 <= s < N_K1):
            return FAIL
        e = int.from_bytes(hashlib.sha256(message).digest(), "big")
        if not vk.pubkey.verifies(e, _EcdsaSig(r, s)):
            return FAIL
        if strict and s <= N_K1 // 2:
            return OK
        return OPEN


def v1_index(doc):
    els = {}
    for e in doc["elements"]:
        els[e["name"]] = e
    return els


def v1_malformed_field(doc):
    """(element name, field) of the first element field that is declared but is not a non-empty hex
    string (docs: message, signature and the optional tweak are hex-encoded), or None."""
    for e in doc["elements"]:
        for f in ("message", "signature", "tweak"):
            if f == "tweak" and f not in e:
                continue
            v = e.get(f)
            try:
                ok = isinstance(v, str) and len(bytes.fromhex(v)) > 0
            except ValueError:
                ok = False
            if not ok:
                return e.get("name"), f
    return None


def v1_structure(doc):
    """None when every target has a repetition-free path to the root, else a reason."""
    els = v1_index(doc)
    for t in doc["targets"]:
        if t not in els:
            return "target-missing"
        seen = set()
        cur = t
        while True:
            if cur in seen:
                return "cycle"
            seen.add(cur)
            sb = els[cur]["signed_by"]
            if sb == V1_ROOT:
                break
            if sb not in els:
                return "dangling"
            cur = sb
    return None


def v1_validate(doc, root_pub, ver):
    """-> {target: (OK, value hex, tweak) | (FAIL, name) | (OPEN, name)}; doc must pass v1_structure."""
    els = v1_index(doc)
    out = {}
    for t in doc["targets"]:
        path = [t]
        while els[path[-1]]["signed_by"] != V1_ROOT:
            path.append(els[path[-1]]["signed_by"])
        path.reverse()                      # root-signed element first
        certifier_pub = root_pub
        verdict = None
        for name in path:
            e = els[name]
            msg = bytes.fromhex(e["message"])
            tw = bytes.fromhex(e["tweak"]) if "tweak" in e else None
            lv = ver.link(certifier_pub, tw, msg, bytes.fromhex(e["signature"]))
            if lv != OK:
                verdict = (lv, name)
                break
            certifier_pub = v1_extract(name, msg)
        if verdict is None:
            e = els[t]
            verdict = (OK, v1_extract(t, bytes.fromhex(e["message"])).hex(), e.get("tweak"))
        out[t] = verdict
    return out


# --------------------------------------------------------------------------------------
# SGX structs (openenclave sgxtypes.h, as documented in docs/attestation.md)
# --------------------------------------------------------------------------------------
_RB = struct.Struct("<16sI12s16sQQ32s32s32s32s64sHHH42s16s64s")
_RB_NAMES = ("cpusvn", "miscselect", "reserved1", "isvextprodid", "flags", "xfrm", "mrenclave",
             "reserved2", "mrsigner", "reserved3", "configid", "isvprodid", "isvsvn", "configsvn",
             "reserved4", "isvfamilyid", "report_data")
_QH = struct.Struct("<HHIHH16s20s")
REPORT_BODY_LEN = _RB.size          # 384
QUOTE_LEN = _QH.size + _RB.size     # 432
REPORT_DATA_OFF = REPORT_BODY_LEN - 64
assert REPORT_BODY_LEN == 384 and QUOTE_LEN == 432


def _hx(v):
    return v.hex() if isinstance(v, bytes) else v


def report_body_dict(b):
    f = dict(zip(_RB_NAMES, _RB.unpack_from(b, 0)))
    d = {}
    for k in _RB_NAMES:
        if k == "flags":
            d["attributes"] = {"flags": f["flags"], "xfrm": f["xfrm"]}
        elif k == "xfrm":
            continue
        elif k == "report_data":
            d["report_data"] = {"field": f[k].hex()}
        else:
            d[k] = _hx(f[k])
    return d


def _typed(hexed):
    """typed twin of a field dictionary produced by report_body_dict / quote_dict: hex -> bytes"""
    return {k: (_typed(v) if isinstance(v, dict) else bytes.fromhex(v) if isinstance(v, str) else v)
            for k, v in hexed.items()}


def quote_fields(b):
    """Fields of a sgx_quote_t as the struct defines them: integers unsigned little-endian,
    byte arrays as bytes, nested structs as dictionaries."""
    return _typed(quote_dict(b))


# integer fields of sgx_quote_t: name -> (offset in the quote, width in bytes)
QUOTE_INT_FIELDS = {
    "version": (0, 2), "sign_type": (2, 2), "tee_type": (4, 4), "qe_svn": (8, 2), "pce_svn": (10, 2),
    "report_body.miscselect": (48 + 16, 4), "report_body.attributes.flags": (48 + 48, 8),
    "report_body.attributes.xfrm": (48 + 56, 8), "report_body.isvprodid": (48 + 256, 2),
    "report_body.isvsvn": (48 + 258, 2), "report_body.configsvn": (48 + 260, 2),
}


def v2_root_element(pem):
    b = "".join(l for l in pem.strip().split("\n") if not l.startswith("-----"))
    return V2Element({"name": V2_ROOT, "type": "x509_pem", "message": b, "signed_by": V2_ROOT})


def quote_dict(b):
    v = _QH.unpack_from(b, 0)
    d = dict(zip(("version", "sign_type", "tee_type", "qe_svn", "pce_svn", "uuid", "user_data"),
                 map(_hx, v)))
    d["report_body"] = report_body_dict(b[_QH.size:])
    return d


# --------------------------------------------------------------------------------------
# X.509 DER walker
# --------------------------------------------------------------------------------------
class DerError(Exception):
    pass


def _tlv(b, i, end):
    if i + 2 > end:
        raise DerError("short")
    tag = b[i]
    t = _ber_len(b, i + 1)
    if t is None:
        raise DerError("length")
    ln, j, minimal = t
    if not minimal or j + ln > end:
        raise DerError("length")
    return tag, j, j + ln


_HASH_OIDS = {
    bytes.fromhex("2a8648ce3d040301"): "sha224",
    bytes.fromhex("2a8648ce3d040302"): "sha256",
    bytes.fromhex("2a8648ce3d040303"): "sha384",
    bytes.fromhex("2a8648ce3d040304"): "sha512",
}


def _time(b, tag):
    s = b.decode("ascii")
    if tag == 0x17 and len(s) == 13 and s.endswith("Z"):
        yy = int(s[0:2])
        year = 2000 + yy if yy < 50 else 1900 + yy
        rest = s[2:12]
    elif tag == 0x18 and len(s) == 15 and s.endswith("Z"):
        year = int(s[0:4])
        rest = s[4:14]
    else:
        raise DerError("time")
    return datetime(year, int(rest[0:2]), int(rest[2:4]), int(rest[4:6]), int(rest[6:8]),
                    int(rest[8:10]), tzinfo=timezone.utc)


class X509View:
    """The parts of a certificate the property speaks about, cut out of the DER bytes."""

    def __init__(self, der):
        try:
            self._parse(bytes(der))
        except DerError:
            raise
        except Exception as e:   # index errors, bad ascii...
            raise DerError(repr(e))

    def _parse(self, b):
        tag, i, end = _tlv(b, 0, len(b))
        if tag != 0x30 or end != len(b):
            raise DerError("outer")
        self.outer_header = (0, i)
        # tbs
        tag, j, tend = _tlv(b, i, end)
        if tag != 0x30:
            raise DerError("tbs")
        self.tbs_span = (i, tend)
        self.tbs = b[i:tend]
        # outer algorithm
        tag, k, aend = _tlv(b, tend, end)
        if tag != 0x30:
            raise DerError("alg")
        self.alg_span = (tend, aend)
        self.outer_alg = b[tend:aend]
        # signature bit string
        tag, m, send = _tlv(b, aend, end)
        if tag != 0x03 or send != end or m >= send or b[m] != 0:
            raise DerError("sig")
        self.sig_span = (m + 1, send)
        self.signature = b[m + 1:send]
        # inside tbs
        p = j
        tag, q, e2 = _tlv(b, p, tend)
        if tag == 0xA0:
            p = e2
            tag, q, e2 = _tlv(b, p, tend)
        if tag != 0x02:
            raise DerError("serial")
        p = e2
        tag, q, e2 = _tlv(b, p, tend)          # signature algorithm (inner)
        if tag != 0x30:
            raise DerError("inner alg")
        self.inner_alg = b[p:e2]
        p = e2
        tag, q, e2 = _tlv(b, p, tend)          # issuer
        p = e2
        tag, q, e2 = _tlv(b, p, tend)          # validity
        if tag != 0x30:
            raise DerError("validity")
        t1, a1, b1 = _tlv(b, q, e2)
        t2, a2, b2 = _tlv(b, b1, e2)
        self.not_before = _time(b[a1:b1], t1)
        self.not_after = _time(b[a2:b2], t2)
        self.validity_span = (p, e2)
        p = e2
        tag, q, e2 = _tlv(b, p, tend)          # subject
        p = e2
        tag, q, e2 = _tlv(b, p, tend)          # spki
        if tag != 0x30:
            raise DerError("spki")
        self.spki = b[p:e2]
        self.spki_span = (p, e2)
        # hash of the signature algorithm
        tag, q, e2 = _tlv(self.outer_alg, 0, len(self.outer_alg))
        tag, q2, e3 = _tlv(self.outer_alg, q, e2)
        self.hash_name = _HASH_OIDS.get(self.outer_alg[q2:e3]) if tag == 0x06 else None

    def public_key(self):
        from cryptography.hazmat.primitives.serialization import load_der_public_key
        return load_der_public_key(self.spki)


def _crypto_hash(name):
    from cryptography.hazmat.primitives import hashes
    return {"sha224": hashes.SHA224, "sha256": hashes.SHA256, "sha384": hashes.SHA384,
            "sha512": hashes.SHA512}[name]()


def ec_verify(pubkey, signature, data, hash_name="sha256"):
    """ECDSA with `cryptography`; pubkey is an EllipticCurvePublicKey.  -> OK / FAIL / OPEN"""
    from cryptography.hazmat.primitives.asymmetric import ec
    from cryptography.exceptions import InvalidSignature
    p = der_sig_parse(signature)
    if p is None:
        return FAIL
    r, s, strict = p
    order_bits = pubkey.curve.key_size
    if r <= 0 or s <= 0 or r.bit_length() > order_bits + 1 or s.bit_length() > order_bits + 1:
        return FAIL
    try:
        canon = der_sig_encode(r, s)
    except AssertionError:
        return FAIL
    try:
        pubkey.verify(canon, data, ec.ECDSA(_crypto_hash(hash_name)))
    except InvalidSignature:
        return FAIL
    return OK if strict else OPEN


def p256_from_point(b):
    """-> (EllipticCurvePublicKey, documented_encoding?) or None"""
    from cryptography.hazmat.primitives.asymmetric import ec
    b = bytes(b)
    try:
        if len(b) == 65 and b[0] == 4:
            return ec.EllipticCurvePublicKey.from_encoded_point(ec.SECP256R1(), b), True
        # the other encodings of a point the loader accepts: the key is the point, whatever its spelling
        if len(b) == 64:
            return ec.EllipticCurvePublicKey.from_encoded_point(ec.SECP256R1(), b"\x04" + b), True
        if len(b) == 33 and b[0] in (2, 3):
            return ec.EllipticCurvePublicKey.from_encoded_point(ec.SECP256R1(), b), True
        if len(b) == 65 and b[0] in (6, 7):
            k = ec.EllipticCurvePublicKey.from_encoded_point(ec.SECP256R1(), b"\x04" + b[1:])
            if (b[-1] & 1) == (b[0] & 1):
                return k, True
    except Exception:
        return None
    return None


def p256_raw(key):
    from cryptography.hazmat.primitives.serialization import Encoding, PublicFormat
    return key.public_bytes(Encoding.X962, PublicFormat.UncompressedPoint)[1:]


# --------------------------------------------------------------------------------------
# version 2 walk
# --------------------------------------------------------------------------------------
V2_ROOT = "sgx_root"


class V2Element:
    """Oracle-side view of one version-2 element (dict as in the JSON document)."""

    def __init__(self, d):
        import base64
        self.d = d
        self.name = d["name"]
        self.kind = d["type"]
        self.signed_by = d["signed_by"]
        self.x509 = None
        self.x509_error = None
        if self.kind == "x509_pem":
            try:
                self.der = base64.b64decode(d["message"])
                self.x509 = X509View(self.der)
            except Exception as e:   # noqa
                self.x509_error = e

    # key this element certifies others with
    def p256_key(self):
        """-> (key, documented?) or None"""
        from cryptography.hazmat.primitives.asymmetric import ec
        if self.kind == "x509_pem":
            if self.x509 is None:
                return None
            try:
                k = self.x509.public_key()
            except Exception:
                return None
            if not isinstance(k, ec.EllipticCurvePublicKey) or not isinstance(k.curve, ec.SECP256R1):
                return None
            return k, True
        if self.kind == "sgx_attestation_key":
            return p256_from_point(bytes.fromhex(self.d["key"]))
        return None


def v2_link(el, certifier, now):
    """Verdict of `el` under `certifier` (a V2Element; the root of trust is an x509 V2Element)."""
    from cryptography.hazmat.primitives.asymmetric import ec
    if el.kind == "x509_pem":
        if certifier.kind != "x509_pem":
            return FAIL          # "signed by the key of the *certificate* that certifies it"
        if el.x509 is None or certifier.x509 is None:
            return FAIL
        c = el.x509
        if not (c.not_before <= now <= c.not_after):
            return FAIL
        if c.hash_name is None:
            return OPEN          # unsigned part of the certificate names an unknown algorithm
        try:
            k = certifier.x509.public_key()
        except Exception:
            return FAIL
        if not isinstance(k, ec.EllipticCurvePublicKey):
            return FAIL
        v = ec_verify(k, c.signature, c.tbs, c.hash_name)
        if v != FAIL and c.inner_alg != c.outer_alg:
            return OPEN
        return v

    if el.kind == "sgx_attestation_key":
        kk = certifier.p256_key()
        if kk is None:
            return FAIL
        ck, cdoc = kk
        msg = bytes.fromhex(el.d["message"])
        own = p256_from_point(bytes.fromhex(el.d["key"]))
        if own is None or len(msg) < REPORT_BODY_LEN:
            return FAIL
        key, documented = own
        want = hashlib.sha256(p256_raw(key) + bytes.fromhex(el.d["auth_data"])).digest()
        if msg[REPORT_DATA_OFF:REPORT_DATA_OFF + 32] != want:
            return FAIL
        v = ec_verify(ck, bytes.fromhex(el.d["signature"]), msg)
        if v == OK and not (documented and cdoc and len(msg) == REPORT_BODY_LEN):
            return OPEN
        return v

    if el.kind == "sgx_quote":
        kk = certifier.p256_key()
        if kk is None:
            return FAIL
        ck, cdoc = kk
        msg = bytes.fromhex(el.d["message"])
        if len(msg) < QUOTE_LEN:
            return FAIL
        want = hashlib.sha256(bytes.fromhex(el.d["custom_data"])).digest()
        off = QUOTE_LEN - 64
        if msg[off:off + 32] != want:
            return FAIL
        v = ec_verify(ck, bytes.fromhex(el.d["signature"]), msg)
        if v == OK and not (cdoc and certifier.kind == "sgx_attestation_key"
                            and len(msg) == QUOTE_LEN):
            return OPEN      # "the quote is signed by that attestation key"
        return v
    return FAIL


def v2_validate(doc, root_el, now, cache=None):
    """-> {target: (OK, value) | (FAIL, name) | (OPEN, name)}.  doc must be structurally sound.
    value for a quote = {"message": custom data hex, "sgx_quote": quote_dict}; for other kinds the
    statement defines no value: (OPEN, name)."""
    els = {}
    for e in doc["elements"]:
        els[e["name"]] = V2Element(e) if cache is None else cache(e)
    out = {}
    for t in doc["targets"]:
        path = [t]
        while els[path[-1]].signed_by != V2_ROOT:
            path.append(els[path[-1]].signed_by)
        path.reverse()
        certifier = root_el
        verdict = None
        for name in path:
            lv = v2_link(els[name], certifier, now)
            if lv != OK:
                verdict = (lv, name)
                break
            certifier = els[name]
        if verdict is None:
            e = els[t]
            if e.kind == "sgx_quote":
                verdict = (OK, {"message": bytes.fromhex(e.d["custom_data"]).hex(),
                                "sgx_quote": quote_dict(bytes.fromhex(e.d["message"]))})
            else:
                verdict = (OPEN, t)
        out[t] = verdict
    return out
