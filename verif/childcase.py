"""Child process entry: run ONE case of a check under other interpreter flags (python -O: assert
statements are compiled away, __debug__ is False) and print the violations as JSON.
stdin: {"id": "C14", "tier": "quick", "seed": 0, "case": {...}}"""
import json
import sys

from . import env, framework


def main():
    req = json.load(sys.stdin)
    env.install()
    from .cli import load_check
    from .xplore import Stats
    chk = load_check(req["id"], req["tier"], req["seed"])
    chk.prepare()
    out = []
    try:
        vs = chk.run_case(req["case"], Stats()) or []
        for v in vs[:200]:
            d = dict(v.d)
            d["observed"] = framework.jsonable(d["observed"])
            d["expected"] = framework.jsonable(d["expected"])
            d["case"] = framework.jsonable(d["case"])
            out.append(d)
    except BaseException as e:   # noqa
        site = framework.repo_frame(e)
        out.append({"key": "%s:exception-escaped-from-code-under-test:%s@%s" % (req["id"], type(e).__name__, site),
                    "case": req["case"], "choices": None, "observed": repr(e)[:300], "expected": "no exception",
                    "clause": "exception-escaped", "property": req["id"], "harness": site is None})
    sys.stdout.write("\nCHILDCASE-RESULT " + json.dumps(out) + "\n")


if __name__ == "__main__":
    main()
