"""Child process of C16: load -> validate -> save -> load -> validate of a few documents under whatever
locale / encoding settings the parent chose for this process (e.g. LC_ALL=C PYTHONUTF8=0).

usage: python -m verif.certchild <manifest.json>   (prints one JSON line)
manifest: {"root1": hex, "root2": pem, "owned": bool, "t0": iso, "docs": [{"id": ..., "path": ...}]}
"""
import json
import locale
import sys


def main(argv):
    from datetime import datetime, timezone
    from .certharness import CertImpl, norm_result
    man = json.load(open(argv[0], encoding="ascii"))
    impl = CertImpl()
    impl.owned = bool(man.get("owned", True))
    T0 = datetime.strptime(man["t0"], "%Y-%m-%dT%H:%M:%S").replace(tzinfo=timezone.utc)
    out = {"encoding": locale.getpreferredencoding(False), "utf8_mode": sys.flags.utf8_mode, "docs": {}}

    def validate(cert):
        version = cert.to_dict().get("version")
        if version == 1:
            return norm_result(cert.validate_and_get_values(impl.root_v1(man["root1"])))
        with impl.clock(T0):
            return norm_result(cert.validate_and_get_values(impl.root_v2(man["root2"])))

    for d in man["docs"]:
        r = {}
        out["docs"][d["id"]] = r
        try:
            cert = impl.AC.HSMCertificate.from_jsonfile(d["path"])
        except Exception as e:   # noqa
            r["load"] = type(e).__name__
            continue
        r["load"] = "ok"
        try:
            v1 = validate(cert)
            r["verdicts"] = repr(sorted((repr(k), repr(v)) for k, v in v1.items()))
        except Exception as e:   # noqa
            v1 = None
            r["verdicts"] = "raise:" + type(e).__name__
        try:
            cert.save_to_jsonfile(d["path"] + ".saved")
        except Exception as e:   # noqa
            r["save"] = type(e).__name__
            continue
        r["save"] = "ok"
        try:
            again = impl.AC.HSMCertificate.from_jsonfile(d["path"] + ".saved")
        except Exception as e:   # noqa
            r["reload"] = type(e).__name__
            continue
        r["reload"] = "ok"
        try:
            v2 = validate(again)
            r["same"] = (v1 is not None and v1 == v2)
        except Exception as e:   # noqa
            r["same"] = (v1 is None)
    sys.stdout.write(json.dumps(out) + "\n")


if __name__ == "__main__":
    main(sys.argv[1:])
