"""Run the unmodified comm.server.TCPServer (on socketserver) over the virtual network."""
from . import vnet


def run_server(proto, world, client_fragments, ctx=None, bringup=False):
    """client_fragments: list (one per client) of lists of byte fragments.
    Returns (net, info, crashed)."""
    import socketserver
    import comm.server as SRV
    net = vnet.Net(ctx)
    sched = net.sched
    if not bringup:
        proto.initialize_device = lambda: None     # the device is connected and was brought up already

    def on_exchange(apdu):
        world.tag = vnet.real_threading.current_thread().name
        world.serving = net.listening is not None      # the bring-up is over: the server listens
        sched.yield_point("exchange")
    world.on_exchange = on_exchange
    for frags in client_fragments:
        net.add_client(frags)
    server = SRV.TCPServer("localhost", 9999, proto)
    info = {"early_shutdown": False}
    sched.horizon = lambda: all(c.finished() for c in net.clients)

    def on_horizon():
        srv = server.server
        if srv is not None:
            info["early_shutdown"] = bool(getattr(srv, "_BaseServer__shutdown_request", False))
            srv._BaseServer__shutdown_request = True
        for other in net.servers:
            if other is not srv:
                other._BaseServer__shutdown_request = True
    sched.on_horizon = on_horizon
    import socket as real_socket
    saved = (socketserver.socket, socketserver._ServerSelector, socketserver.threading,
             vars(SRV).get("threading"))
    saved_srv_socket = vars(SRV).get("socket")
    saved_gai = real_socket.getaddrinfo
    saved_sock = (real_socket.setdefaulttimeout, real_socket.getdefaulttimeout)
    # what the code under test set before the server was started (e.g. while connecting to the
    # device) is carried into the model and taken off the real process
    net.default_timeout = real_socket.getdefaulttimeout()
    real_socket.setdefaulttimeout(None)
    fake_thr = vnet.FakeThreadingModule(sched)
    rt = vnet.real_threading
    saved_rt = (rt.Thread, rt.Timer)
    crashed = []
    vnet.ACTIVE_SCHED[0] = sched
    try:
        # any thread the code under test creates anywhere joins the schedule
        rt.Thread = fake_thr.Thread
        rt.Timer = fake_thr.Timer
        fake_sock = vnet.FakeSocketModule(net)
        socketserver.socket = fake_sock
        # name resolution of the bind host belongs to the model too: the host stands for an IPv4
        # and an IPv6 address (seeded change C12-m21: one listener thread per address)
        if saved_srv_socket is real_socket:
            SRV.socket = fake_sock
        real_socket.getaddrinfo = fake_sock.getaddrinfo
        socketserver._ServerSelector = lambda: vnet.FakeSelector(net)
        socketserver.threading = fake_thr
        if "threading" in vars(SRV):
            SRV.threading = fake_thr
        # a process-wide default socket timeout set by the code under test reaches the sockets the
        # server accepts afterwards

        def setdefaulttimeout(t):
            net.default_timeout = t
        real_socket.setdefaulttimeout = setdefaulttimeout
        real_socket.getdefaulttimeout = lambda: net.default_timeout

        def body():
            try:
                server.run()
            except vnet.SchedAbort:
                raise
            except BaseException as e:   # noqa
                crashed.append(repr(e))
        main = sched.new_thread(body, "server")
        sched.run_main(main)
    finally:
        vnet.ACTIVE_SCHED[0] = None
        rt.Thread, rt.Timer = saved_rt
        (socketserver.socket, socketserver._ServerSelector, socketserver.threading, _thr) = saved
        if _thr is not None:
            SRV.threading = _thr
        real_socket.setdefaulttimeout, real_socket.getdefaulttimeout = saved_sock
        real_socket.getaddrinfo = saved_gai
        if saved_srv_socket is real_socket:
            SRV.socket = real_socket
        world.on_exchange = None
    return net, info, crashed
