"""./vf selftest [IDs...] : apply each recorded mutant to a scratch copy of the middleware
(never to /repo), run the property's quick check there, and record whether it reports a
violation.  Results go to evidence/selftest.json."""
import json
import os
import re
import shutil
import subprocess
import sys
import tempfile
import time

from . import env


def seeded_mutants(ids):
    """the seeded changes of /verif/seeded (patch files) as selftest entries: ./vf selftest seeded [IDs]"""
    import glob
    out = []
    for d in sorted(glob.glob(os.path.join(env.HOME, "seeded", "*", "meta.json"))):
        m = json.load(open(d))
        if ids and m["id"] not in ids and m["property"] not in ids:
            continue
        out.append({"id": "seeded:" + m["id"], "check": m.get("check", m["property"]), "what": m["needs_to_manifest"][:90],
                    "expect": ("equivalent" if m.get("expect") == "not-a-violation" else
                               "open-miss" if m.get("expect") == "open-miss" else "detected"),
                    "patch": os.path.join(os.path.dirname(d), "patch.diff")})
    return out


def main(ids):
    if ids and ids[0] == "seeded":
        muts = seeded_mutants(ids[1:])
        ids = ids or ["seeded"]
    else:
        with open(os.path.join(env.HOME, "mutants", "mutants.json")) as f:
            muts = json.load(f)["mutants"]
        if ids:
            muts = [m for m in muts if m["id"] in ids or m["check"] in ids]
    results = []
    bad = 0
    for m in muts:
        scratch = tempfile.mkdtemp(prefix="verif-selftest-", dir=os.environ.get("VERIF_SCRATCH", "/var/tmp"))
        try:
            shutil.copytree(os.path.join(env.REPO, "middleware"), os.path.join(scratch, "middleware"), symlinks=True)
            os.symlink(os.path.join(env.REPO, "firmware"), os.path.join(scratch, "firmware"))
            shutil.copytree(os.path.join(env.REPO, "docs"), os.path.join(scratch, "docs"), symlinks=True)
            if "patch" in m and any(not l[6:].startswith(("middleware/", "docs/")) for l in open(m["patch"])
                                    if l.startswith("+++ b/")):
                n = 0       # only the copied middleware/ and docs/ may be patched (firmware/ is a link)
            elif "patch" in m:
                pr = subprocess.run(["patch", "-p1", "-s", "--fuzz=3", "-i", m["patch"]], cwd=scratch,
                                    capture_output=True, text=True)
                n = 1 if pr.returncode == 0 else 0
            else:
                p = os.path.join(scratch, "middleware", m["file"])
                s = open(p).read()
                n = len(re.findall(m["pattern"], s, flags=re.M))
            if n == 0:
                res = "DID-NOT-APPLY"
            else:
                if "patch" not in m:
                    open(p, "w").write(re.sub(m["pattern"], m["replacement"].replace("\\", "\\\\").replace("\\\\n", "\n") if False else m["replacement"], s, count=1, flags=re.M))
                t0 = time.time()
                envp = dict(os.environ, VERIF_REPO=scratch)
                r = subprocess.run([os.path.join(env.HOME, "vf"), "check", m["check"], "--tier", "quick", "--quiet"],
                                   capture_output=True, text=True, env=envp, timeout=1800)
                viol = r.stdout.count("\nVIOLATION") + (1 if r.stdout.startswith("VIOLATION") else 0)
                res = "detected" if (r.returncode == 1 and viol) else ("silent" if r.returncode == 0 else "exit-%d" % r.returncode)
                replay = None
                if res == "detected":
                    # every reported replay file must reproduce on the mutated tree and not on /repo
                    paths = re.findall(r"^VIOLATION property=\S+ replay=(\S+)", r.stdout, flags=re.M)[:3]
                    rep_m = rep_c = 0
                    for pth in paths:
                        a = subprocess.run([os.path.join(env.HOME, "vf"), "replay", pth], capture_output=True,
                                           text=True, env=envp, timeout=600)
                        b = subprocess.run([os.path.join(env.HOME, "vf"), "replay", pth], capture_output=True,
                                           text=True, env=dict(os.environ), timeout=600)
                        rep_m += a.returncode == 1
                        rep_c += b.returncode == 0
                    replay = "%d/%d reproduce on the mutant, %d/%d silent on the unchanged tree" % (
                        rep_m, len(paths), rep_c, len(paths))
                    if rep_m != len(paths) or rep_c != len(paths):
                        res = "detected-but-replay-mismatch"
            # open-miss: a recorded change the check is KNOWN not to report (DESIGN 8.6, limits); silent as
            # recorded, or detected by now - both are fine, anything else (harness error) is not
            ok = res == m["expect"] or (m["expect"] == "equivalent" and res == "silent") \
                or (m["expect"] == "open-miss" and res in ("silent", "detected"))
            if not ok:
                bad += 1
            results.append({"id": m["id"], "check": m["check"], "what": m["what"], "expect": m["expect"],
                            "result": res, "ok": ok, "replay": locals().get("replay")})
            print("%-7s %-10s expect=%-10s %s  %s  [%s]" % (m["id"], res, m["expect"], "ok" if ok else "MISMATCH",
                                                         m["what"][:60], locals().get("replay")))
            sys.stdout.flush()
        finally:
            shutil.rmtree(scratch, ignore_errors=True)
            shutil.rmtree(os.path.join("/var/tmp/verif-out", os.path.basename(scratch)), ignore_errors=True)
    out = os.environ.get("VERIF_SELFTEST_OUT") or os.path.join(env.HOME, "evidence", "selftest.json")
    prev = {}
    if os.path.exists(out) and ids:
        try:
            prev = {r["id"]: r for r in json.load(open(out))["results"]}
        except Exception:
            prev = {}
    for r in results:
        prev[r["id"]] = r
    allr = sorted(prev.values(), key=lambda r: r["id"]) if ids else results
    json.dump({"results": allr, "mismatches": sum(1 for r in allr if not r["ok"])}, open(out, "w"), indent=1)
    return 1 if bad else 0
