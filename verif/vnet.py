"""Virtual network + cooperative scheduler for real threads (DESIGN 2.4).

The unmodified ``socketserver.TCPServer`` and ``comm.server`` run on fake ``socket``,
selector and ``threading`` modules.  Exactly one real thread holds the baton; at every
scheduling point (accept, recv, sendall, close, select, Event.wait, Thread start / exit,
dongle.exchange) the scheduler picks who runs next: the running thread if still enabled
(default), another enabled thread, or a client action (connect / send a fragment).
Switching away from an enabled thread is a preemption (a non-free choice)."""
import _pyio
import io
import threading as real_threading

from .xplore import HarnessError


_RealThread = real_threading.Thread      # the scheduler's own threads must stay real
_RealLock, _RealRLock = real_threading.Lock, real_threading.RLock
_RealEvent, _RealCondition = real_threading.Event, real_threading.Condition
_RealSemaphore, _RealBoundedSemaphore = real_threading.Semaphore, real_threading.BoundedSemaphore

ACTIVE_SCHED = [None]        # the scheduler of the run in progress (set by vserver.run_server)


def _my_sched():
    """the active scheduler if the calling thread is the scheduled thread holding the baton"""
    s = ACTIVE_SCHED[0]
    if s is None or s.abort or s.current is None:
        return None
    return s if s.current.thread is real_threading.current_thread() else None


class OwnedLock:
    """What ``threading.Lock()`` / ``RLock()`` gives the CODE UNDER TEST (env.own_threading): a real
    lock that, in a thread run by the cooperative scheduler, never sleeps in the kernel - waiting
    for it is a blocking point the scheduler knows about.  (A thread that slept on a real lock
    held by a descheduled thread would hang the exploration.)  Outside a scheduled run it is
    the real lock."""

    def __init__(self, reentrant=False):
        self.real = _RealRLock() if reentrant else _RealLock()
        self.count = 0

    def acquire(self, blocking=True, timeout=-1):
        s = _my_sched()
        if s is None:
            got = self.real.acquire(blocking, timeout)
        else:
            while True:
                got = self.real.acquire(False)
                if got or not blocking:
                    break
                if timeout is not None and timeout >= 0 and s.timeout_fires("Lock.acquire"):
                    break
                s.block_until(lambda: self.count == 0, "Lock.acquire")
        if got:
            self.count += 1
        return got

    def release(self):
        self.real.release()
        self.count -= 1
        # synchronisation operations are scheduling points: another thread may take the lock
        # (or simply run) right after it was given up
        s = _my_sched()
        if s is not None and self.count == 0 and not s.free_running:
            s.yield_point("Lock.release")

    def locked(self):
        return self.count > 0

    def __enter__(self):
        self.acquire()
        return self

    def __exit__(self, *a):
        self.release()
        return False

    def _is_owned(self):
        return self.real._is_owned() if hasattr(self.real, "_is_owned") else self.count > 0


class OwnedEvent:
    def __init__(self):
        self.real = _RealEvent()
        self.set, self.clear, self.is_set = self.real.set, self.real.clear, self.real.is_set
        self.isSet = self.real.is_set

    def wait(self, timeout=None):
        s = _my_sched()
        if s is None:
            return self.real.wait(timeout)
        if self.real.is_set():
            return True
        if timeout is not None:
            return s.timed_block(self.real.is_set, "Event.wait")
        s.block_until(self.real.is_set, "Event.wait")
        return True


class OwnedSemaphore:
    def __init__(self, value=1, bounded=False):
        self.real = (_RealBoundedSemaphore if bounded else _RealSemaphore)(value)
        self.release = self.real.release

    def acquire(self, blocking=True, timeout=None):
        s = _my_sched()
        if s is None:
            return self.real.acquire(blocking, timeout)
        while True:
            if self.real.acquire(False):
                return True
            if not blocking:
                return False
            if timeout is not None and s.timeout_fires("Semaphore.acquire"):
                return False
            s.block_until(lambda: self.real._value > 0, "Semaphore.acquire")

    def __enter__(self):
        self.acquire()
        return self

    def __exit__(self, *a):
        self.release()
        return False


class OwnedCondition:
    def __init__(self, lock=None):
        self.lock = lock if lock is not None else OwnedLock(reentrant=True)
        self.acquire, self.release = self.lock.acquire, self.lock.release
        self.real = _RealCondition(getattr(self.lock, "real", self.lock))
        self.ticket = 0
        self.woken = 0

    def __enter__(self):
        self.lock.acquire()
        return self

    def __exit__(self, *a):
        self.lock.release()
        return False

    def wait(self, timeout=None):
        s = _my_sched()
        if s is None:
            return self.real.wait(timeout)
        depth = 0
        while getattr(self.lock, "count", 1) > 0 and depth < 1000:
            try:
                self.lock.release()
            except RuntimeError:
                break
            depth += 1
            if not isinstance(self.lock, OwnedLock):
                break
        self.ticket += 1
        mine = self.ticket
        fired = False
        try:
            if timeout is not None:
                fired = not s.timed_block(lambda: self.woken >= mine, "Condition.wait")
            else:
                s.block_until(lambda: self.woken >= mine, "Condition.wait")
        finally:
            for _ in range(depth):
                self.lock.acquire()
        return not fired

    def wait_for(self, predicate, timeout=None):
        r = predicate()
        while not r:
            if not self.wait(timeout):
                return predicate()
            r = predicate()
        return r

    def notify(self, n=1):
        self.woken = min(self.ticket, self.woken + n)
        try:
            self.real.notify(n)
        except RuntimeError:
            pass

    def notify_all(self):
        self.woken = self.ticket
        try:
            self.real.notify_all()
        except RuntimeError:
            pass

    notifyAll = notify_all


class SchedAbort(BaseException):
    pass


class ThreadRec:
    def __init__(self, tid, name):
        self.tid = tid
        self.name = name
        self.sem = real_threading.Semaphore(0)
        self.blocked = None
        self.alive = False
        self.started = False
        self.thread = None
        self.owned = False        # created by the code under test (threading.Thread), not by the harness
        self.sleeping = False
        self.wake = None


class WakeAction:
    """time passing for a thread of the code under test that sleeps (time.sleep): an action of the
    environment, like a client's; taking it hands the baton to the woken thread at once.  At most
    ``left`` wake-ups per thread and execution (a polling loop never goes quiescent by itself)."""

    def __init__(self, rec, left=2):
        self.rec = rec
        self.name = "wake:%s" % rec.name
        self.left = left
        self.run_now = rec

    def enabled(self):
        return self.rec.alive and self.rec.sleeping and self.left > 0

    def step(self):
        self.left -= 1
        self.rec.sleeping = False

    def progress(self):
        return (self.left, self.rec.sleeping)


class TimerAction:
    """the time limit of a timed wait (Event.wait(t), Condition.wait(t)) running out: an action of the
    environment that may be taken at any later scheduling point while the thread still waits - not
    only at the moment the wait begins.  ``Sched.timer_budget`` firings per execution."""

    def __init__(self, sched, rec, label):
        self.s = sched
        self.rec = rec
        self.name = "timer:%s:%s" % (rec.name, label)
        self.fired = False
        self.done = False
        self.run_now = rec

    def enabled(self):
        return self.rec.alive and not self.fired and not self.done and self.s.timer_budget > 0

    def step(self):
        self.fired = True
        self.s.timer_budget -= 1

    def progress(self):
        return (self.fired, self.done)


class Sched:
    def __init__(self, ctx, max_points=3000):
        self.timer_budget = 2
        self.ctx = ctx
        self.threads = []
        self.actions = []
        self.current = None
        self.free_running = False
        self.abort = False
        self.deadlock = False
        self.livelock = False
        self.points = 0
        self.max_points = max_points
        self.horizon = None          # callable -> bool
        self.on_horizon = None       # callable performed once when the horizon is reached
        self.horizon_done = False
        self.done = real_threading.Event()
        self.trace = []
        self.errors = []

    # -- threads ------------------------------------------------------------
    def new_thread(self, target, name):
        rec = ThreadRec(len(self.threads), name)
        self.threads.append(rec)

        def body():
            rec.sem.acquire()
            try:
                if not self.abort:
                    target()
            except SchedAbort:
                pass
            except BaseException as e:   # noqa
                self.errors.append("%s: %r" % (name, e))
            finally:
                rec.alive = False
                self.thread_exit(rec)
        rec.thread = _RealThread(target=body, daemon=True, name="vnet-" + name)
        rec.thread.start()
        return rec

    def start_thread(self, rec):
        rec.started = True
        rec.alive = True

    def run_main(self, rec):
        """called from the harness (not a scheduled thread): give the baton to rec and wait
        until every scheduled thread has finished."""
        self.start_thread(rec)
        self.current = rec
        rec.sem.release()
        if not self.done.wait(20):
            self.abort = True
            for t in self.threads:
                t.sem.release()
            raise HarnessError("scheduler: threads did not finish (trace tail %r)" % self.trace[-8:])
        for t in self.threads:
            t.thread.join(2)

    def thread_exit(self, rec):
        # pick someone else to run, or finish
        if self.abort:
            self._maybe_done()
            return
        try:
            self._reschedule("exit:%s" % rec.name, rec, exiting=True)
        except SchedAbort:
            pass
        self._maybe_done()

    def _maybe_done(self):
        if not any(t.alive for t in self.threads if t.started):
            self.done.set()

    def timeout_fires(self, label):
        """a wait with a timeout: that the time runs out before the awaited event is one more
        thing the environment may do (a deviation from the default 'the event comes first')"""
        if self.abort:
            raise SchedAbort()
        if self.free_running or self.ctx is None:
            return False
        return self.ctx.choose(2, "timeout:%s" % label) == 1

    # -- scheduling -----------------------------------------------------------
    def yield_point(self, label):
        if self.abort:
            raise SchedAbort()
        me = self.current
        self._reschedule(label, me)

    def block_until(self, cond, label):
        if self.abort:
            raise SchedAbort()
        me = self.current
        me.blocked = cond
        self._reschedule(label, me)
        me.blocked = None

    def timed_block(self, cond, label):
        """wait for cond with a time limit; True if cond came true, False if the time ran out"""
        if self.abort:
            raise SchedAbort()
        if cond():
            return True
        if self.free_running or self.ctx is None:
            self.block_until(cond, label)
            return True
        me = self.current
        t = TimerAction(self, me, label)
        self.actions.append(t)
        try:
            self.block_until(lambda: t.fired or cond(), label)
        finally:
            t.done = True
        return bool(cond())

    def sleep_point(self, label="sleep"):
        """time.sleep in a thread the code under test started: the thread gives the baton up until
        the environment lets time pass (WakeAction).  In the server's own thread sleeping stays a
        no-op (nothing else of the manager could run meanwhile but what the clients do anyway)."""
        me = self.current
        if me is None or not me.owned:
            return
        if self.abort:
            raise SchedAbort()
        if me.wake is None:
            me.wake = WakeAction(me)
            self.actions.append(me.wake)
        me.sleeping = True
        self.block_until(lambda: not me.sleeping, label)

    def _enabled(self, rec):
        return rec.alive and rec.started and (rec.blocked is None or rec.blocked())

    def _reschedule(self, label, me, exiting=False):
        while True:
            self.points += 1
            if self.points > self.max_points:
                self.livelock = True
                self._abort_all(me, exiting)
            if not self.horizon_done and self.horizon is not None and self.horizon():
                self.horizon_done = True
                self.free_running = True
                if self.on_horizon:
                    self.on_horizon()
            me_enabled = (not exiting) and self._enabled(me)
            others = [("thread", t) for t in self.threads if t is not me and self._enabled(t)]
            acts = [] if self.free_running else [("action", a) for a in self.actions if a.enabled()]
            if me_enabled:
                # the running thread could go on: anything else is a preemption (non-free choice)
                cands = [("thread", me)] + others + acts
            elif others:
                # the running thread blocked or ended: which thread runs next is a free choice;
                # client actions are not offered here (they come in as preemptions, or when no
                # thread can run) - this keeps the free part of the tree small
                cands = others
            else:
                cands = acts
            if not cands:
                if exiting and not any(t.alive for t in self.threads if t.started):
                    return
                if not self.horizon_done:
                    self.deadlock = True
                self._abort_all(me, exiting)
                return
            if self.free_running or self.ctx is None or len(cands) == 1:
                pick = 0
            else:
                names = ",".join("%s:%s" % (k, getattr(o, "name", "?")) for k, o in cands)
                pick = self.ctx.choose(len(cands), "%s|%s" % (label, names), free=not me_enabled)
                self.ctx.state((label, names, tuple(a.progress() for a in self.actions)))
            kind, obj = cands[pick]
            self.trace.append((label, kind, getattr(obj, "name", "?")))
            if kind == "action":
                obj.step()
                nxt = getattr(obj, "run_now", None)
                if nxt is None or nxt is me or not self._enabled(nxt):
                    continue
                kind, obj = "thread", nxt
            if obj is me:
                return
            # hand the baton over
            self.current = obj
            obj.sem.release()
            if exiting:
                return
            me.sem.acquire()
            if self.abort:
                raise SchedAbort()
            return

    def _abort_all(self, me, exiting):
        self.abort = True
        for t in self.threads:
            if t is not me:
                t.sem.release()
        if not exiting:
            raise SchedAbort()


# ---------------------------------------------------------------------------
# fake modules
# ---------------------------------------------------------------------------

class FakeEvent:
    def __init__(self, sched):
        self.s = sched
        self.flag = False

    def set(self):
        self.flag = True

    def clear(self):
        self.flag = False

    def is_set(self):
        return self.flag

    def wait(self, timeout=None):
        if timeout is not None:
            return self.s.timed_block(lambda: self.flag, "Event.wait")
        self.s.block_until(lambda: self.flag, "Event.wait")
        return True


class FakeLock:
    """a lock the scheduler knows about: waiting for it is a blocking point, so that a thread
    that sleeps on a lock held by a descheduled thread does not hang the exploration"""

    def __init__(self, sched, reentrant=False):
        self.s = sched
        self.owner = None
        self.depth = 0
        self.reentrant = reentrant

    def acquire(self, blocking=True, timeout=-1):
        s = self.s
        me = s.current if not s.free_running or s.current is not None else None
        if self.reentrant and self.owner is me and self.depth:
            self.depth += 1
            return True
        if self.depth:
            if not blocking:
                return False
            if timeout is not None and timeout >= 0 and s.timeout_fires("Lock.acquire"):
                return False
            s.block_until(lambda: self.depth == 0, "Lock.acquire")
            me = s.current
        self.owner = me
        self.depth = 1
        return True

    def release(self):
        if not self.depth:
            raise RuntimeError("release unlocked lock")
        self.depth -= 1
        if not self.depth:
            self.owner = None

    def locked(self):
        return bool(self.depth)

    def __enter__(self):
        self.acquire()
        return self

    def __exit__(self, *a):
        self.release()
        return False


class FakeSemaphore:
    def __init__(self, sched, value=1, bounded=False):
        if value < 0:
            raise ValueError("semaphore initial value must be >= 0")
        self.s = sched
        self.value = value
        self.initial = value
        self.bounded = bounded

    def acquire(self, blocking=True, timeout=None):
        s = self.s
        if self.value == 0:
            if not blocking:
                return False
            if timeout is not None and s.timeout_fires("Semaphore.acquire"):
                return False
            s.block_until(lambda: self.value > 0, "Semaphore.acquire")
        self.value -= 1
        return True

    def release(self, n=1):
        if self.bounded and self.value + n > self.initial:
            raise ValueError("Semaphore released too many times")
        self.value += n

    def __enter__(self):
        self.acquire()
        return self

    def __exit__(self, *a):
        self.release()
        return False


class FakeCondition:
    def __init__(self, sched, lock=None):
        self.s = sched
        self.lock = lock if lock is not None else FakeLock(sched, reentrant=True)
        self.acquire = self.lock.acquire
        self.release = self.lock.release
        self.ticket = 0
        self.woken = 0

    def __enter__(self):
        return self.lock.__enter__()

    def __exit__(self, *a):
        return self.lock.__exit__(*a)

    def wait(self, timeout=None):
        lock, s = self.lock, self.s
        saved = (lock.owner, lock.depth)
        lock.owner, lock.depth = None, 0
        self.ticket += 1
        mine = self.ticket
        fired = False
        try:
            if timeout is not None:
                fired = not s.timed_block(lambda: self.woken >= mine, "Condition.wait")
            else:
                s.block_until(lambda: self.woken >= mine, "Condition.wait")
        finally:
            if lock.depth:
                s.block_until(lambda: lock.depth == 0, "Condition.reacquire")
            lock.owner, lock.depth = s.current, saved[1]
        return not fired

    def wait_for(self, predicate, timeout=None):
        r = predicate()
        while not r:
            if not self.wait(timeout):
                return predicate()
            r = predicate()
        return r

    def notify(self, n=1):
        self.woken = min(self.ticket, self.woken + n)

    def notify_all(self):
        self.woken = self.ticket

    notifyAll = notify_all


class SchedBufferedReader(_pyio.BufferedReader):
    """io.BufferedReader holds an internal lock over the blocking read and over close();
    the C implementation's lock is invisible to the scheduler (a second thread closing the
    file while a descheduled thread sits in recv would hang the run), so the pure-Python
    reader is used with a lock the scheduler owns"""

    def __init__(self, raw, sched, buffer_size=io.DEFAULT_BUFFER_SIZE):
        _pyio.BufferedReader.__init__(self, raw, buffer_size)
        self._read_lock = FakeLock(sched)

    def close(self):
        with self._read_lock:
            _pyio.BufferedReader.close(self)


class FakeThreadingModule:
    """stands in for ``threading`` inside socketserver and comm.server"""

    def __init__(self, sched):
        s = sched
        self.sched = sched

        class Thread:
            def __init__(self, group=None, target=None, name=None, args=(), kwargs=None, daemon=None):
                self._target = target
                self._args = args
                self._kwargs = kwargs or {}
                self.daemon = daemon
                self.name = name or "helper"
                self._rec = None

            def run(self):
                if self._target:
                    self._target(*self._args, **self._kwargs)

            def start(self):
                self._rec = s.new_thread(self.run, "%s%d" % (self.name, len(s.threads)))
                self._rec.owned = True
                s.start_thread(self._rec)
                s.yield_point("Thread.start")

            def join(self, timeout=None):
                rec = self._rec
                if timeout is not None and rec.alive and s.timeout_fires("Thread.join"):
                    return
                s.block_until(lambda: not rec.alive, "Thread.join")

            def is_alive(self):
                return self._rec is not None and self._rec.alive
        self.Thread = Thread

        class Timer(Thread):
            def __init__(self, interval, function, args=None, kwargs=None):
                Thread.__init__(self, target=function, args=args or (), kwargs=kwargs or {}, name="timer")

            def cancel(self):
                self._target = None
        self.Timer = Timer
        self.Event = lambda: FakeEvent(s)
        self.Lock = lambda: FakeLock(s)
        self.RLock = lambda: FakeLock(s, reentrant=True)
        self.Semaphore = lambda value=1: FakeSemaphore(s, value)
        self.BoundedSemaphore = lambda value=1: FakeSemaphore(s, value, bounded=True)
        self.Condition = lambda lock=None: FakeCondition(s, lock)
        self.current_thread = real_threading.current_thread

    def __getattr__(self, name):
        # what does not synchronise (local, get_ident, main_thread, excepthook ...) is the real module's
        if name == "Barrier":
            raise NotImplementedError("threading.Barrier is not modelled by the scheduler")
        return getattr(real_threading, name)


class Conn:
    """server side of an accepted connection"""

    def __init__(self, net, client):
        self.net = net
        self.client = client
        self.inbuf = b""
        self.eof = False
        self.out = b""
        self.closed = False
        self.shut_wr = False
        self.peer_closed = False
        self.reset = False
        # a socket accepted while a process-wide default timeout is set inherits it
        # (socket.setdefaulttimeout); settimeout() sets its own
        self.timeout = net.default_timeout

    def makefile(self, mode="r", buffering=-1, **k):
        raw = _Raw(self)
        if "r" in mode:
            return SchedBufferedReader(raw, self.net.sched) if buffering != 0 else raw
        return raw

    def sendall(self, data):
        self.net.sched.yield_point("sendall:%s" % self.client.name)
        if self.reset:
            raise ConnectionResetError(104, "Connection reset by peer")
        if self.closed or self.peer_closed:
            raise BrokenPipeError("Broken pipe")
        self.out += bytes(data)

    send = sendall

    def wait_readable(self):
        """blocks until there is something to read; with a timeout on the socket, running out of
        time before the peer sends is one more thing that may happen (a deviation)"""
        s = self.net.sched
        if self.timeout is not None and not (self.inbuf or self.eof):
            if s.timeout_fires("recv:%s" % self.client.name):
                raise TimeoutError("timed out")
        s.block_until(lambda: self.inbuf or self.eof, "recv:%s" % self.client.name)
        if self.reset and not self.inbuf:
            raise ConnectionResetError(104, "Connection reset by peer")

    def recv(self, n):
        self.wait_readable()
        d, self.inbuf = self.inbuf[:n], self.inbuf[n:]
        return d

    def shutdown(self, how):
        self.shut_wr = True

    def close(self):
        self.net.sched.yield_point("close:%s" % self.client.name)
        self.closed = True

    def settimeout(self, t):
        self.timeout = t

    def gettimeout(self):
        return self.timeout

    def setsockopt(self, *a):
        pass

    def fileno(self):
        return 100 + self.client.idx

    def getpeername(self):
        return ("10.0.0.%d" % (self.client.idx + 1), 40000)


class _Raw(io.RawIOBase):
    def __init__(self, conn):
        self.conn = conn

    def readable(self):
        return True

    def readinto(self, b):
        c = self.conn
        c.wait_readable()
        n = min(len(b), len(c.inbuf))
        b[:n] = c.inbuf[:n]
        c.inbuf = c.inbuf[n:]
        return n


class ListenSocket:
    def __init__(self, net):
        self.net = net
        self.pending = []
        self.closed = False

    def setsockopt(self, *a):
        pass

    def bind(self, addr):
        self.addr = addr

    def getsockname(self):
        return getattr(self, "addr", ("localhost", 9999))

    def listen(self, n):
        # a bind host that stands for several addresses (see FakeSocketModule.getaddrinfo) can
        # be given one listening socket per address
        if self not in self.net.listeners:
            self.net.listeners.append(self)

    def accept(self):
        self.net.sched.yield_point("accept")
        if not self.pending:
            raise BlockingIOError()
        client = self.pending.pop(0)
        conn = Conn(self.net, client)
        client.conn = conn
        conn.inbuf = client.early
        client.early = b""
        if client.hung_up:
            conn.eof = True
            conn.peer_closed = True
            conn.reset = client.was_reset
        return conn, conn.getpeername()

    def close(self):
        self.closed = True

    def fileno(self):
        return 3 + (self.net.listeners.index(self) if self in self.net.listeners else 0)

    def settimeout(self, t):
        pass


class FakeSocketModule:
    AF_INET = 2
    SOCK_STREAM = 1
    SOL_SOCKET = 1
    SO_REUSEADDR = 2
    SHUT_WR = 1
    error = OSError

    def __init__(self, net):
        self.net = net

    def socket(self, *a, **k):
        return ListenSocket(self.net)

    def getaddrinfo(self, host, port, family=0, type=0, proto=0, flags=0):
        # the bind host of the model stands for an IPv4 and an IPv6 address, as "localhost" and ""
        # do on most systems; numeric hosts stand for themselves
        import socket as real
        if isinstance(host, str) and host and (host[0].isdigit() or ":" in host):
            return real.getaddrinfo(host, port, family, type, proto, flags | real.AI_NUMERICHOST)
        if isinstance(port, str):
            port = int(port) if port.isdigit() else real.getservbyname(port)
        passive = bool(flags & real.AI_PASSIVE) and not host
        out = [(real.AF_INET, real.SOCK_STREAM, 6, "", ("0.0.0.0" if passive else "127.0.0.1", port or 0)),
               (real.AF_INET6, real.SOCK_STREAM, 6, "", ("::" if passive else "::1", port or 0, 0, 0))]
        return [e for e in out if family in (0, e[0])]

    def __getattr__(self, name):
        # constants, exception classes and helpers of the real module (IPPROTO_TCP, TCP_NODELAY,
        # timeout, gaierror ...); nothing that would open a real socket
        import socket as real
        if name in ("socket", "create_connection", "create_server", "socketpair", "fromfd", "socket_type"):
            raise AttributeError(name)
        return getattr(real, name)


class FakeSelector:
    def __init__(self, net):
        self.net = net
        self.objs = []

    def __enter__(self):
        return self

    def __exit__(self, *a):
        return False

    def register(self, fileobj, events, data=None):
        self.objs.append(fileobj)
        if fileobj not in self.net.servers:
            self.net.servers.append(fileobj)

    def unregister(self, fileobj):
        pass

    def close(self):
        pass

    def select(self, timeout=None):
        srv = self.objs[0]
        sock = srv.socket
        self.net.sched.block_until(
            lambda: bool(sock.pending) or getattr(srv, "_BaseServer__shutdown_request", False),
            "select")
        return [(srv, 1)] if sock.pending else []


HANGUP = object()      # fragment marker: the client closes its end of the connection
RESET = object()       # fragment marker: the client's end goes away abortively (the server sees a RST)


class Client:
    """scripted client: connect, send the request in fragments (HANGUP = close the connection);
    the reply is collected passively"""

    def __init__(self, net, idx, fragments):
        self.net = net
        self.idx = idx
        self.name = "c%d" % idx
        self.fragments = list(fragments)
        self.pos = -1          # -1: not connected
        self.conn = None
        self.early = b""
        self.queued = False
        self.hung_up = False
        self.was_reset = False

    def enabled(self):
        if self.pos == -1:
            target = self.target()
            return target is not None and not target.closed
        return self.pos < len(self.fragments)

    def target(self):
        """the listening socket this client connects to: with one listener (the unmodified server)
        that one; with one listener per address of the bind host the clients spread over them"""
        ls = self.net.listeners
        return ls[self.idx % len(ls)] if ls else None

    def progress(self):
        return (self.pos, self.conn is not None, bool(self.conn and self.conn.closed),
                len(self.conn.out) if self.conn else 0)

    def step(self):
        if self.pos == -1:
            self.target().pending.append(self)
            self.queued = True
            self.pos = 0
            return
        frag = self.fragments[self.pos]
        self.pos += 1
        if frag is HANGUP:
            self.hung_up = True
            if self.conn is not None:
                self.conn.eof = True
                self.conn.peer_closed = True
            return
        if frag is RESET:
            self.hung_up = True
            self.was_reset = True
            if self.conn is not None:
                self.conn.eof = True
                self.conn.peer_closed = True
                self.conn.reset = True
            return
        if self.conn is not None:
            self.conn.inbuf += frag
        else:
            self.early += frag

    def finished(self):
        c = self.conn
        return c is not None and (c.closed or c.out.endswith(b"\n"))


class Net:
    def __init__(self, ctx):
        self.sched = Sched(ctx)
        self.listeners = []
        self.servers = []          # the socketserver objects that entered serve_forever
        self.clients = []
        self.default_timeout = None      # what socket.setdefaulttimeout was last given

    @property
    def listening(self):
        return self.listeners[0] if self.listeners else None

    def add_client(self, fragments):
        c = Client(self, len(self.clients), fragments)
        self.clients.append(c)
        self.sched.actions.append(c)
        return c
