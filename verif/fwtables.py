"""Numeric tables parsed out of the firmware headers and sources at run time
(DESIGN 0): status words by name, FAIL/THROW sites per C file, blockchain-state
selector ids.  The oracle follows the firmware, not the middleware's copy."""
import os
import re

from . import env

FW = os.path.join(env.REPO, "firmware", "src")


def _read(rel):
    with open(os.path.join(FW, rel)) as f:
        return f.read()


def parse_enum_values(text):
    """name -> value for C enum bodies with '= 0x..' anchors and auto-increment"""
    out = {}
    for body in re.findall(r"enum\s*\w*\s*\{(.*?)\}", text, flags=re.S):
        body = re.sub(r"//[^\n]*", "", body)
        body = re.sub(r"/\*.*?\*/", "", body, flags=re.S)
        cur = -1
        for item in body.split(","):
            item = item.strip()
            if not item:
                continue
            m = re.match(r"(\w+)\s*(?:=\s*([^,]+))?$", item)
            if not m:
                continue
            name, val = m.group(1), m.group(2)
            if val is not None:
                val = val.strip()
                try:
                    cur = int(val, 0)
                except ValueError:
                    if val in out:
                        cur = out[val]
                    else:
                        continue
            else:
                cur += 1
            out[name] = cur
    return out


def fail_sites(rel):
    text = _read(rel)
    return set(re.findall(r"(?:FAIL|THROW)\(\s*([A-Za-z_0-9]+)\s*\)", text))


_cache = {}


def tables():
    if _cache:
        return _cache
    bc = parse_enum_values(_read("powhsm/src/bc_err.h"))
    auth = parse_enum_values(_read("powhsm/src/auth.h"))
    err = parse_enum_values(_read("powhsm/src/err.h"))
    state_h = _read("powhsm/src/bc_state.h")
    selectors = {m.group(1): int(m.group(2), 16)
                 for m in re.finditer(r"#define\s+(\w+)\s+(0x[0-9a-fA-F]+)", state_h)}
    ins = parse_enum_values(_read("powhsm/src/instructions.h"))
    _cache.update({
        "bc": bc, "auth": auth, "err": err, "selectors": selectors, "ins": ins,
        "advance_sites": fail_sites("powhsm/src/bc_advance.c"),
        "ancestor_sites": fail_sites("powhsm/src/bc_ancestor.c"),
        "auth_path_sites": fail_sites("powhsm/src/auth_path.c"),
        "auth_tx_sites": fail_sites("powhsm/src/auth_tx.c"),
        "auth_receipt_sites": fail_sites("powhsm/src/auth_receipt.c"),
        "auth_trie_sites": fail_sites("powhsm/src/auth_trie.c"),
    })
    # sanity: the anchors the oracle relies on
    assert bc["PROT_INVALID"] == 0x6B87 and bc["CHAIN_MISMATCH"] > bc["PROT_INVALID"], bc
    assert auth["ERR_AUTH_INVALID_PATH"] == 0x6A8F, auth
    assert selectors.get("BEST_BLOCK") == 0x01 and selectors.get("U_NEXT_EXPECTED_BLOCK") == 0x84
    return _cache


# documented cause for firmware error *names* whose meaning is unambiguous (DESIGN C04 (iii))
ADV_CAUSE = {
    "CHAIN_MISMATCH": -201,
    "MM_HASH_MISMATCH": -202, "MERKLE_PROOF_MISMATCH": -202, "BTC_DIFF_MISMATCH": -202,
    "CB_TXN_HASH_MISMATCH": -202, "BTC_CB_TXN_INVALID": -202,
    "ANCESTOR_TIP_MISMATCH": -203,
    "BROTHERS_TOO_MANY": -205, "BROTHER_PARENT_MISMATCH": -205, "BROTHER_SAME_AS_BLOCK": -205,
    "BROTHER_ORDER_INVALID": -205,
    "RLP_INVALID": -204, "BLOCK_TOO_OLD": -204, "BLOCK_TOO_SHORT": -204,
    "PARENT_HASH_INVALID": -204, "RECEIPT_ROOT_INVALID": -204, "BLOCK_NUM_INVALID": -204,
    "BLOCK_DIFF_INVALID": -204, "UMM_ROOT_INVALID": -204, "BTC_HEADER_INVALID": -204,
    "MERKLE_PROOF_INVALID": -204, "MM_RLP_LEN_MISMATCH": -204, "MERKLE_PROOF_OVERFLOW": -204,
    "CB_TXN_OVERFLOW": -204, "BUFFER_OVERFLOW": -204,
}
SIGN_CAUSE = {
    "path": {"ERR_AUTH_INVALID_PATH": -103},
    "btc": {"ERR_AUTH_TX_HASH_MISMATCH": -102, "ERR_AUTH_INVALID_TX_VERSION": -102,
            "ERR_AUTH_INVALID_TX_INPUT_INDEX": -102,
            "ERR_AUTH_INVALID_SIGHASH_COMPUTATION_MODE": -102,
            "ERR_AUTH_INVALID_EXTRADATA_SIZE": -102},
    "receipt": {"ERR_AUTH_RECEIPT_RLP": -101, "ERR_AUTH_RECEIPT_INVALID": -101},
    "proof": {"ERR_AUTH_NODE_INVALID_VERSION": -101, "ERR_AUTH_RECEIPT_HASH_MISMATCH": -101,
              "ERR_AUTH_NODE_CHAINING_MISMATCH": -101, "ERR_AUTH_RECEIPT_ROOT_MISMATCH": -101},
}


def named_causes(step_kind):
    """step_kind -> {sw: expected reply code} for the status words the firmware can emit
    at that kind of step and whose name states a documented cause unambiguously."""
    t = tables()
    out = {}
    if step_kind in ("adv-chunk", "adv-bchunk", "adv-blist", "upd-chunk"):
        sites = t["ancestor_sites"] if step_kind == "upd-chunk" else t["advance_sites"]
        for name, code in ADV_CAUSE.items():
            if name not in sites or name not in t["bc"]:
                continue
            bro = name.startswith("BROTHER")
            if step_kind == "adv-chunk" and bro:
                continue
            if step_kind == "adv-blist" and name != "BROTHERS_TOO_MANY":
                continue
            if step_kind in ("adv-bchunk", "adv-chunk") and name == "BROTHERS_TOO_MANY":
                continue
            out[t["bc"][name]] = code
    elif step_kind.startswith("sign-"):
        ph = step_kind[5:]
        sites = {"path": t["auth_path_sites"], "btc": t["auth_tx_sites"],
                 "receipt": t["auth_receipt_sites"], "proof": t["auth_trie_sites"]}[ph]
        for name, code in SIGN_CAUSE[ph].items():
            if name in sites and name in t["auth"]:
                out[t["auth"][name]] = code
    elif step_kind == "pubkey":
        out[t["err"]["ERR_INVALID_PATH"]] = -103
    return out


def doc_codes(mode="v5"):
    """command -> set of result codes docs/protocol.md lists ('This operation can return ...')"""
    path = os.path.join(env.REPO, "docs", "protocol.md" if mode == "v5" else "protocol-v1.md")
    with open(path) as f:
        text = f.read()
    out = {}
    title = None
    for line in text.splitlines():
        m = re.match(r"^###\s+(.*\S)\s*$", line)
        if m:
            title = m.group(1).strip().lower()
        m = re.match(r"^This operation can return (.*)", line)
        if m and title:
            out[title] = set(int(x) for x in re.findall(r"`(-?\d+)`", m.group(1)))
    m = re.search(r"can be returned by all operations\.(.*?)(?:\n#|\Z)", text, flags=re.S)
    generic = set(int(x) for x in re.findall(r"^-\s*`(-?\d+)`", m.group(1), flags=re.M)) if m else set()
    return out, generic


DOC_TITLES = {
    "version": "get version", "sign": "sign", "getPubKey": "get public key",
    "advanceBlockchain": "advance blockchain", "resetAdvanceBlockchain": "reset advance blockchain",
    "blockchainState": "get blockchain state", "updateAncestorBlock": "update ancestor block",
    "blockchainParameters": "get blockchain parameters", "signerHeartbeat": "signer heartbeat",
    "uiHeartbeat": "ui heartbeat",
}
