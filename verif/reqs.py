"""Builders of well-formed client requests and their raw material (transactions,
receipts, blocks) -- written with the reference encoders only."""
import hashlib
import struct

from .env import Rng
from .refs import btc as B
from .refs import rlp as R
from .refs import sha256 as S

PATHS = ["m/44'/0'/0'/0/0", "m/44'/1'/0'/0/0", "m/44'/137'/0'/0/0",
         "m/44'/137'/1'/0/0", "m/44'/1'/1'/0/0", "m/44'/1'/2'/0/0"]
AUTH_PATHS = PATHS[:2]
NOAUTH_PATHS = PATHS[2:]


def path_binary(spec):
    """independent BIP32 path encoder: count byte + LE32 per element"""
    parts = spec[2:].split("/")
    out = bytes([len(parts)])
    for p in parts:
        if p.endswith("'"):
            v = int(p[:-1]) + 0x80000000
        else:
            v = int(p)
        out += struct.pack("<I", v)
    return out


def redeem_script(rng, n=3):
    s = b"\x52"
    for _ in range(n):
        s += b"\x21" + b"\x02" + rng.bytes(32)
    return s + bytes([0x50 + n]) + b"\xae"


def mk_tx(rng, scripts, nout=1, version=1, locktime=0, seqs=None):
    """scripts: list of raw scriptSig bytes, one per input"""
    tx = {"version": struct.pack("<I", version), "vin": [], "vout": [], "witness": None,
          "locktime": struct.pack("<I", locktime)}
    for i, sc in enumerate(scripts):
        tx["vin"].append({"outpoint": rng.bytes(32) + struct.pack("<I", i),
                          "script": sc,
                          "sequence": struct.pack("<I", (seqs or {}).get(
                              i, (0xfffffffd, 0xffffffff, 0x00400005)[i % 3]))})
    for i in range(nout):
        tx["vout"].append({"value": struct.pack("<q", 1000 + i),
                           "script": b"\xa9\x14" + rng.bytes(20) + b"\x87"})
    return B.serialize_tx(tx)


def signed_script(rng, nsigs=2, sig_present=(True, True), redeem=None):
    """OP_0 <sig|OP_0>... <redeem>"""
    sc = b"\x00"
    for i in range(nsigs):
        if sig_present[i % len(sig_present)]:
            sig = b"\x30\x44\x02\x20" + rng.nz_bytes(32) + b"\x02\x20" + rng.nz_bytes(32) + b"\x01"
            sc += B.minimal_push(sig)
        else:
            sc += b"\x00"
    sc += B.minimal_push(redeem if redeem is not None else redeem_script(rng))
    return sc


def mk_receipt(rng, size):
    """an RLP list of the requested total size (>= 3)"""
    for inner in range(max(0, size - 9), size):
        for pad in (b"", b"\x01"):
            cand = R.encode([rng.bytes(inner)] + ([pad] if pad else []))
            if len(cand) == size:
                return cand
    # fall back: adjust by search
    n = max(0, size - 6)
    while True:
        cand = R.encode([rng.bytes(n)])
        if len(cand) >= size:
            return cand
        n += 1


def sign_request(path, tx_hex=None, index=0, mode="legacy", receipt=None, proof=None,
                 witness_script=None, outpoint_value=None, hash_hex=None, version=5):
    if version == 1:
        return {"command": "sign", "version": 1, "keyId": path, "message": hash_hex}
    req = {"command": "sign", "version": 5, "keyId": path}
    if hash_hex is not None:
        req["message"] = {"hash": hash_hex}
        return req
    req["auth"] = {"receipt": receipt, "receipt_merkle_proof": proof}
    msg = {"tx": tx_hex, "input": index, "sighashComputationMode": mode}
    if mode == "segwit":
        msg["witnessScript"] = witness_script
        msg["outpointValue"] = outpoint_value
    req["message"] = msg
    return req


# ---------------------------------------------------------------------------
# RSK block headers
# ---------------------------------------------------------------------------

def coinbase_field(full_tx, k):
    """compressed coinbase transaction: BE64(64k) | SHA-256 state after full_tx[:64k] | tail"""
    head = full_tx[:64 * k]
    st = S.midstate(head)
    return struct.pack(">Q", 64 * k) + struct.pack(">8I", *st) + full_tx[64 * k:]


def coinbase_hash_ref(full_tx):
    return hashlib.sha256(hashlib.sha256(full_tx).digest()).digest()[::-1]


def coinbase_from_midstate(counter, state, tail):
    """(field bytes, reference hash) of a compressed coinbase transaction given directly as byte
    counter, compression state and tail (for counters no real transaction could be built for)"""
    field = struct.pack(">Q", counter) + struct.pack(">8I", *state) + tail
    h = hashlib.sha256(S.finish_from_midstate(state, counter, tail)).digest()[::-1]
    return field, h


def mk_block(rng, nfields=19, sizes=None, cb_full=None, cb_k=1, parent=None, cb_raw=None):
    """Returns (raw_bytes, info). Fields are byte strings; layout per rskj header:
    [0 parent,1 unclesHash,2 coinbase,3 stateRoot,4 txRoot,5 receiptRoot,6 bloom,7 diff,8 num,
     9 gasLimit,10 gasUsed,11 ts,12 extra,13 paidFees,14 minGas,15 uncleCount,(16 ummRoot),
     btc header, merkle proof, coinbase tx]"""
    base = 17 if nfields in (18, 20) else 16
    fields = []
    default = [32, 32, 20, 32, 32, 32, 256, 3, 3, 4, 2, 4, 0, 1, 1, 1]
    for i in range(base):
        n = default[i] if i < len(default) else 20
        if sizes and i in sizes:
            n = sizes[i]
        fields.append(rng.nz_bytes(n) if n != 1 else bytes([1 + rng.int(0, 0x7e)]))
    if parent is not None:
        fields[0] = parent
    info = {"nfields": nfields}
    if nfields in (17, 18):
        fields.append(rng.nz_bytes(80 if not sizes or "btc" not in sizes else sizes["btc"]))
    else:
        fields.append(rng.nz_bytes(80 if not sizes or "btc" not in sizes else sizes["btc"]))
        fields.append(rng.nz_bytes(64 if not sizes or "mp" not in sizes else sizes["mp"]))
        if cb_raw is not None:
            fields.append(cb_raw[0])
            info["cb_hash"] = cb_raw[1]
        else:
            full = cb_full if cb_full is not None else rng.bytes(64 * cb_k + 37)
            fields.append(coinbase_field(full, cb_k))
            info["cb_full"] = full
            info["cb_hash"] = coinbase_hash_ref(full)
    raw = R.encode(fields)
    info["fields"] = fields
    # reference metadata
    nmm = base          # fields excluded: btc header (+ merkle proof + cb tx)
    info["mm_payload_len"] = R.list_payload_len(R.encode(fields[:nmm]))
    from .refs.keccak import keccak256
    hash_fields = fields[:base + 1]
    info["hash"] = keccak256(R.encode(hash_fields))
    info["without_mm"] = R.encode(hash_fields) if nfields in (19, 20) else raw
    return raw, info
