"""./vf check <ID> [--tier quick|thorough] [--jobs N] | ./vf replay <path> | ./vf list"""
import argparse
import importlib
import json
import os
import sys

from . import env, framework


def load_check(pid, tier, seed):
    mod = importlib.import_module("verif.checks.%s" % pid.lower())
    return mod.CHECK(tier, seed)


def main(argv=None):
    ap = argparse.ArgumentParser(prog="vf")
    sub = ap.add_subparsers(dest="cmd", required=True)
    c = sub.add_parser("check")
    c.add_argument("id")
    c.add_argument("--tier", default=os.environ.get("VERIF_TIER", "quick"),
                   choices=["quick", "thorough"])
    c.add_argument("--jobs", type=int, default=0)
    c.add_argument("--budget", type=float, default=float(os.environ.get("VERIF_BUDGET_S", "0")))
    c.add_argument("--quiet", action="store_true")
    r = sub.add_parser("replay")
    r.add_argument("path")
    r.add_argument("--history", action="store_true",
                   help="run what the recording worker process had run before, then the case (used by replay itself)")
    sub.add_parser("list")
    s = sub.add_parser("selftest")
    s.add_argument("ids", nargs="*")
    a = ap.parse_args(argv)

    if a.cmd == "list":
        d = os.path.join(os.path.dirname(__file__), "checks")
        for f in sorted(os.listdir(d)):
            if f.startswith("c") and f.endswith(".py"):
                print(f[:-3].upper())
        return 0

    env.install()
    if a.cmd == "check":
        chk = load_check(a.id, a.tier, env.seed())
        return framework.run_check(chk, jobs=a.jobs or None, budget_s=a.budget or None,
                                   quiet=a.quiet)
    if a.cmd == "replay":
        with open(a.path) as f:
            d = json.load(f)
        chk = load_check(d["property"], d.get("tier", "quick"), d.get("seed", 0))
        chk.prepare()
        from .xplore import HarnessError, Stats
        vs, keys = [], []
        if not a.history:
            try:
                vs = chk.replay(d["case"], d.get("choices"))
            except HarnessError as e:
                print("replay of %s diverged on this tree (%s): the recorded execution does not exist "
                      "here, so the recorded violation does not reproduce" % (a.path, e))
                return 0
            keys = [v.key for v in vs]
            if d["key"] not in keys and (d.get("worker_history") or isinstance(d.get("origin_case"), dict)):
                # not reproduced from a fresh process.  State kept by the code under test at module or
                # class level lives as long as the process: redo, in a NEW process, what the recording
                # worker had done before (its earlier cases, then the whole case of the violation)
                import subprocess
                r2 = subprocess.run([sys.executable, "-m", "verif.cli", "replay", a.path, "--history"],
                                    cwd=env.HOME, env=dict(os.environ), capture_output=True, text=True)
                sys.stdout.write(r2.stdout)
                return r2.returncode
        else:
            allc = chk.cases()
            hist = d.get("worker_history") or []
            for i in hist:
                if 0 <= i < len(allc):
                    try:
                        chk.run_case(allc[i], Stats())
                    except BaseException:   # noqa
                        pass
            print("(new process: after the %d cases the recording worker had run before)" % len(hist))
            try:
                if isinstance(d.get("origin_case"), dict):
                    vs = [v for v in (chk.run_case(d["origin_case"], Stats()) or []) if v.key == d["key"]][:1]
                if not vs:
                    vs = chk.replay(d["case"], d.get("choices"))
            except HarnessError:
                vs = []
            except BaseException:   # noqa
                vs = []
            keys = [v.key for v in vs]
        print("replay of %s: %d violation(s)" % (a.path, len(vs)))
        for v in vs:
            print("  key=%s" % v.key)
            print("  observed=%s" % json.dumps(framework.jsonable(v.d["observed"]))[:1500])
            print("  expected=%s" % json.dumps(framework.jsonable(v.d["expected"]))[:1500])
        if d["key"] in keys:
            print("VIOLATION property=%s replay=%s" % (d["property"], a.path))
            return 1
        print("recorded violation key %s did not reproduce" % d["key"])
        return 0
    if a.cmd == "selftest":
        from . import selftest
        return selftest.main(a.ids)
    return 2


if __name__ == "__main__":
    sys.exit(main())
