"""C04 - device outcomes map onto the result codes documented for each command.

Fault enumeration: every command x every exchange index of its nominal dialogue x
{every status word, timeout, write/read error, every op byte in the answer}; oracle
tables are built from docs/protocol*.md and the firmware headers / FAIL sites."""
import copy

from ..framework import Check, Violation
from ..xplore import HarnessError
from .. import harness, fwtables, dialogues
from ..simdev.base import World
from ..simdev.powhsm import PowHsm

CHUNK_OPS = {"sign": {0x02, 0x04, 0x08}, "advanceBlockchain": {0x04, 0x09},
             "updateAncestorBlock": {0x04}}
SUCCESS_OPS = {"sign": {0x81}, "advanceBlockchain": {0x05, 0x06}, "updateAncestorBlock": {0x05},
               "resetAdvanceBlockchain": {0x02}}


class C04(Check):
    id = "C04"
    level = "fault_enumeration"
    rule = ("command (14 nominal requests incl. v1) x exchange index of the nominal dialogue x "
            "injected outcome {status word from the tier's set, timeout, write error, read error, "
            "op byte 0..255 in the answer}; one execution each on the real handler+protocol+APDU "
            "code over a conforming device. Classes = (command, step kind, fault kind, reply "
            "code, shutdown).")
    assumptions = [
        "after an injected outcome the device goes on per protocol (its session state is reset "
        "as the firmware does on an exception)",
        "status words 0x61xx / 0x6Cxx are returned by ledgerblue as data, not raised; the firmware "
        "never emits them: dont_care",
        "answers shorter than 3 bytes are not injected",
        "named-cause table: firmware error names whose meaning is one documented cause "
        "(size/state/protocol errors are left to the documented-set rule only)",
    ]
    trusted_base = ["verif/simdev/powhsm.py (conforming device)", "verif/fwtables.py (parsers of "
                    "firmware headers and docs)"]

    def prepare(self):
        self.reqs = dialogues.nominal_requests()
        self.doc, self.generic = fwtables.doc_codes("v5")
        self.doc1, self.generic1 = fwtables.doc_codes("v1")
        t = fwtables.tables()
        named = set()
        for k in ("adv-chunk", "adv-bchunk", "adv-blist", "upd-chunk", "sign-path", "sign-btc",
                  "sign-receipt", "sign-proof", "pubkey"):
            named |= set(fwtables.named_causes(k))
        sws = set(range(0x69A0, 0x6C00)) | {0x6D00}
        for n in list(named) + [0x69A0, 0x6BFF, 0x6D00]:
            sws |= {n - 1, n, n + 1}
        sws |= {0x0000, 0x0001, 0x6100, 0x61FF, 0x6700, 0x6800, 0x6982, 0x699F, 0x6C00, 0x6CFF,
                0x6CFE, 0x6D01, 0x6E00, 0x6E11, 0x6F00, 0x6F01, 0x8FFF, 0x9001, 0xFFFF}
        sws.discard(0x9000)
        self.quick_sws = sorted(s for s in sws if 0 <= s <= 0xFFFF)
        # inner exchanges of a step kind (neither its first nor its last) in the quick tier: the
        # named words +-1, range borders and the out-of-range representatives only
        small = set()
        for n in list(named) + [0x69A0, 0x6BFF, 0x6D00]:
            small |= {n - 1, n, n + 1}
        small |= {0x0000, 0x6100, 0x6700, 0x6982, 0x6C00, 0x6E00, 0x6F00, 0x6F01, 0x9001, 0xFFFF,
                  0x6A01, 0x6A99, 0x6B00, 0x6B10, 0x6BEE, 0x6BF1}
        small.discard(0x9000)
        self.small_sws = sorted(x for x in small if 0 <= x <= 0xFFFF)
        # nominal runs: number of exchanges and step kinds
        self.nominal = {}
        self.pre_violations = []
        for name, req in self.reqs.items():
            w, o = self.run(name, None)
            if o.exc is not None or not isinstance(o.reply, dict) or o.reply.get("errorcode") not in (0, 1):
                # the fault-free dialogue itself no longer succeeds: that is a violation of
                # clause (ii) (device reported success => code 0/1), reported as such
                self.pre_violations.append(Violation(
                    "C04", "C04:nominal-dialogue-fails:%s" % name, {"name": name, "idx": 0,
                                                                    "fault": ["none"]}, None,
                    {"reply": o.reply, "exc": o.exc}, {"errorcode": "0/1"}, "nominal"))
            ex = w.exchanges()
            self.nominal[name] = {"n": len(ex), "reply": o.reply,
                                  "kinds": [dialogues.classify_exchange(name, e[2]) for e in ex],
                                  "ops": [e[3][1][2] if e[3][0] == "ok" and len(e[3][1]) > 2 else None
                                          for e in ex],
                                  "lens": [len(e[3][1]) if e[3][0] == "ok" else 0 for e in ex]}

    def bounds(self):
        return {"status_words_per_index": ("65535 at the first and last exchange of each step kind of each "
                                           "command, %d elsewhere" % len(self.quick_sws))
                if self.thorough else len(self.quick_sws),
                "op_bytes_per_index": 256, "fault_kinds": ["timeout", "write", "read"]}

    def alphabets(self):
        return {"commands": {k: v["n"] for k, v in self.nominal.items()}}

    def cases(self):
        cs = []
        for name, nom in self.nominal.items():
            for idx in range(nom["n"]):
                kinds = nom["kinds"]
                edge = (kinds.index(kinds[idx]) == idx
                        or len(kinds) - 1 - kinds[::-1].index(kinds[idx]) == idx)
                if self.thorough and edge:
                    # all 65535 status words at the first and the last exchange of every step kind
                    # of every command (the code paths differ by step kind, not by position inside)
                    for lo in range(0, 0x10000, 0x2000):
                        cs.append({"name": name, "idx": idx, "sw_lo": lo, "sw_hi": lo + 0x2000,
                                   "other": lo == 0})
                else:
                    cs.append({"name": name, "idx": idx, "other": True,
                               "small": (not self.thorough) and not edge})
                if edge and not name.startswith("v1-"):
                    # the same cell met by a manager that has served another command before
                    cs.append({"name": name, "idx": idx, "history": True})
                if edge and not name.startswith("v1-") and idx in (0, nom["n"] - 1):
                    # the other dongle classes (SGX, TCP): what they override must keep the mapping
                    for plat in ("sgx", "tcp"):
                        cs.append({"name": name, "idx": idx, "other": True, "small": not self.thorough,
                                   "platform": plat})
                if idx == 0 and isinstance(nom["reply"], dict) and "signature" in nom["reply"]:
                    cs.append({"name": name, "idx": 0, "sigshape": True})
                if edge:
                    # the same with the managers' -D/--iodebug option on the dongle (what is logged
                    # on the error paths)
                    cs.append({"name": name, "idx": idx, "other": True, "small": True, "iodebug": True})
        return cs

    SIG_SHAPES = ["short-r", "short-s", "short-both", "shorter-r", "shorter-s", "tiny-r", "tiny-s", "tiny-both",
                  "high-r", "high-s", "high-both"]

    def sigshape(self, case, stats):
        """the device reports success with a well-formed signature of another size (minimal DER integers
        shorter than 32 bytes, or 33 with the sign byte): clause (ii) wants 0 / 1 all the same"""
        vs = []
        name = case["name"]
        for shape in ([case["shape"]] if "shape" in case else self.SIG_SHAPES):
            stats.evaluations += 1
            self.sig_shape = shape
            try:
                w, o = self.run(name, None)
            finally:
                self.sig_shape = None
            code = o.reply.get("errorcode") if isinstance(o.reply, dict) else None
            stats.observe(("sigshape", name, shape, code, o.exc), nontrivial=True)
            if o.exc is not None or code != self.nominal[name]["reply"]["errorcode"]:
                vs.append(Violation("C04", "C04:device-success-not-reported:%s:signature-%s" % (name, shape),
                                    {"name": name, "idx": 0, "sigshape": True, "shape": shape}, None,
                                    {"reply": o.reply, "exc": o.exc, "error": o.error},
                                    {"errorcode": self.nominal[name]["reply"]["errorcode"]}, "sigshape"))
        return vs

    def run(self, name, fault_at):
        req = self.reqs[name]
        v1 = name.startswith("v1-")
        dev = dialogues.configure(PowHsm(seed=b"c04"), name)
        dev.sig_shape = getattr(self, "sig_shape", None)
        w = World(dev)
        if fault_at is not None:
            idx, fault = fault_at
            base = [None]

            def inject(world, i, apdu):
                if base[0] is None:
                    base[0] = i
                if i - base[0] == idx:
                    return fault if fault[0] != "swsticky" else ("sw", fault[1])
                if fault[0] == "swsticky" and i - base[0] > idx:
                    # an application that is gone answers the same to whatever comes next
                    return ("sw", fault[1])
                return None
            w.inject = inject
        proto = harness.make_protocol(w, v1=v1, debug=getattr(self, "debug_dongle", False),
                                      platform=getattr(self, "platform", "ledger"))
        import json
        o = harness.handle_line(proto, json.dumps(req).encode())
        return w, o

    def run_case(self, case, stats):
        self.debug_dongle = bool(case.get("iodebug"))
        self.platform = case.get("platform", "ledger")
        try:
            vs = self._run_case(case, stats)
            if self.platform != "ledger":
                for v in vs:
                    if isinstance(v.d.get("case"), dict):
                        v.d["case"]["platform"] = self.platform
                        v.d["key"] = v.d["key"] + ":" + self.platform
            if self.debug_dongle:
                for v in vs:
                    if isinstance(v.d.get("case"), dict):
                        v.d["case"]["iodebug"] = True
                        v.d["key"] = v.d["key"] + ":iodebug"
            return vs
        finally:
            self.debug_dongle = False
            self.platform = "ledger"

    def history(self, case, stats):
        """state kept by the manager between commands: after each other command (served on the same
        protocol + dongle objects) the cell (command, exchange, fault) must be answered exactly as by
        manager objects created afresh over the same device"""
        import json
        vs = []
        name, idx = case["name"], case["idx"]
        kind = self.nominal[name]["kinds"][idx]
        named = sorted(fwtables.named_causes(kind))
        faults = [("sw", c) for c in named] + [("sw", 0x6B90), ("sw", 0x6A8F), ("timeout",), ("none",)]
        if case.get("fault") is not None:
            faults = [tuple(case["fault"])]
        priors = [p for p in self.reqs if not p.startswith("v1-") and p != name and p != "uiHeartbeat-inplace"]
        if case.get("prior") is not None:
            priors = [case["prior"]]
        req = self.reqs[name]
        for prior in priors:
            for fault in faults:
                out = []
                for fresh_objects in (False, True):
                    dev = dialogues.configure(PowHsm(seed=b"c04"), prior)
                    w = World(dev)
                    proto = harness.make_protocol(w)
                    harness.handle_line(proto, json.dumps(self.reqs[prior]).encode())
                    dialogues.configure(dev, name)
                    if fresh_objects:
                        proto = harness.make_protocol(w)
                    base = w.seq
                    if fault[0] != "none":
                        w.inject = lambda world, i, apdu, base=base: fault if i - base == idx else None
                    o = harness.handle_line(proto, json.dumps(req).encode())
                    out.append((o.reply, o.exc))
                stats.evaluations += 1
                stats.observe(("history", prior, name, kind, fault[0], out[0] == out[1]))
                if out[0] != out[1]:
                    vs.append(Violation("C04", "C04:code-depends-on-earlier-command:%s:after-%s" % (name, prior),
                                        {"name": name, "idx": idx, "history": True, "prior": prior,
                                         "fault": list(fault)}, None,
                                        {"reply": out[0][0], "exc": out[0][1]},
                                        {"reply_of_fresh_manager_objects": out[1][0]}, "history"))
        return vs

    def _run_case(self, case, stats):
        if case.get("history"):
            return self.history(case, stats)
        if case.get("sigshape"):
            return self.sigshape(case, stats)
        vs = []
        name, idx = case["name"], case["idx"]
        if "fault" in case:
            if case["fault"] == ["none"]:
                return [v for v in self.pre_violations if v.d["case"]["name"] == name]
            self.one(name, idx, tuple(case["fault"]), stats, vs)
            return vs
        if "sw_lo" in case:
            sws = [s for s in range(case["sw_lo"], case["sw_hi"]) if s != 0x9000]
        else:
            sws = self.small_sws if case.get("small") else self.quick_sws
        for sw in sws:
            self.one(name, idx, ("sw", sw), stats, vs)
        if case.get("other") and not case.get("small"):
            # the status word stays: every later exchange of the request is answered the same way
            # (what a device does whose application is gone); nothing the manager sends after a
            # failure - diagnostics, clean-up - may change the verdict
            kind = self.nominal[name]["kinds"][idx]
            for sw in sorted(set(fwtables.named_causes(kind)) | {0x6D00, 0x6A01, 0x6B87, 0x6B90, 0x6E00, 0x6F00}):
                self.one(name, idx, ("swsticky", sw), stats, vs)
        if case.get("other"):
            for k in ("timeout", "write", "read"):
                self.one(name, idx, (k,), stats, vs)
            if self.nominal[name]["ops"][idx] is not None:
                for b in range(256):
                    self.one(name, idx, ("opbyte", b), stats, vs)
        return vs

    def one(self, name, idx, fault, stats, vs):
        nom = self.nominal[name]
        kind = nom["kinds"][idx]
        req = self.reqs[name]
        cmd = req["command"]
        v1 = name.startswith("v1-")
        stats.evaluations += 1
        w, o = self.run(name, (idx, fault))
        code = o.reply.get("errorcode") if isinstance(o.reply, dict) else None
        fk = fault[0]
        sticky = fk == "swsticky"
        if sticky:
            fk = "sw"
        stats.observe((name, kind, fault[0], code, o.exc, fault[1] if fk == "sw" and 0x69A0 <= fault[1] <= 0x6BFF and False else None))
        if fk == "sw":
            stats.add_set("codes_by_kind", (kind, code))
        stats.sample({"command": name, "index": idx, "step": kind, "fault": list(fault),
                      "reply": o.reply, "exc": o.exc}, cap=4)

        def viol(clause, detail, observed, expected):
            vs.append(Violation("C04", "C04:%s:%s:%s" % (clause, name, detail),
                                {"name": name, "idx": idx, "fault": list(fault)}, None,
                                observed, expected, clause))
        if fk == "sw" and (fault[1] & 0xFF00) in (0x6100, 0x6C00):
            stats.dont_care += 1
            return
        if v1:
            allowed = {0} | self.generic1
        else:
            allowed = set(self.doc[fwtables.DOC_TITLES[cmd]]) | self.generic
        in_range = fk == "sw" and (0x69A0 <= fault[1] <= 0x6BFF or fault[1] == 0x6D00)
        where = "%s%s@%s" % (fk if fk != "sw" else ("sw-in-range" if in_range else "sw-out-of-range"),
                             "-sticky" if sticky else "", kind)
        if fk == "opbyte" and nom["lens"][idx] == 3 and fault[1] != nom["ops"][idx] \
                and fault[1] in CHUNK_OPS.get(cmd, set()):
            stats.dont_care += 1
            return
        # (iv) an error status inside the device's own range never stops the manager
        if in_range and (o.exc is not None):
            viol("in-range-status-stops-manager", where, {"exc": o.exc, "error": o.error, "raw": o.raw},
                 "a reply, no shutdown")
            return
        # (i) a result code from the documented set
        if not isinstance(code, int) or isinstance(code, bool) or code not in allowed:
            if fk != "sw" or in_range or True:
                viol("undocumented-or-missing-code", where,
                     {"reply": o.reply, "raw": o.raw, "exc": o.exc}, {"allowed": sorted(allowed)})
            return
        # (ii) 0/1 only when the device reported success
        benign = False
        if fk == "opbyte":
            if fault[1] == nom["ops"][idx]:
                benign = True
            elif (kind in ("adv-chunk", "adv-bchunk", "upd-chunk") and nom["lens"][idx] == 3
                  and nom["ops"][idx] not in CHUNK_OPS.get(cmd, set())
                  and fault[1] in SUCCESS_OPS.get(cmd, set())):
                # the answer to the LAST chunk of a block or brother header turned into a well-formed
                # report of total / partial success (bc_advance.c: the accumulated difficulty may
                # reach the threshold at the end of any header, a brother's included): 0 / 1
                want = 0 if (cmd == "updateAncestorBlock" or fault[1] == 0x06) else 1
                if code != want:
                    viol("device-success-not-reported", where + ":op%02x" % fault[1], {"reply": o.reply},
                         {"errorcode": want})
                return
            elif fault[1] in SUCCESS_OPS.get(cmd, set()) or cmd in ("getPubKey", "signerHeartbeat",
                                                                     "blockchainParameters", "uiHeartbeat"):
                stats.dont_care += 1
                return
        if kind == "exit" and fk in ("write", "read", "timeout", "sw", "opbyte"):
            # the middleware expects the link to drop here: whatever happens is judged by (i)
            stats.dont_care += 1
            return
        if benign:
            if code != nom["reply"]["errorcode"]:
                viol("benign-answer-changed-code", where, {"reply": o.reply}, {"reply": nom["reply"]})
            return
        if code in (0, 1):
            viol("success-without-device-success", where, {"reply": o.reply},
                 "an error code: the device did not report success")
            return
        # (iii) named causes
        if fk == "sw":
            named = fwtables.named_causes(kind)
            if fault[1] in named:
                want = named[fault[1]]
                if v1:
                    want = -2
                if code != want:
                    viol("named-cause", "%s:%s" % (kind, hex(fault[1])), {"errorcode": code},
                         {"errorcode": want})

    def replay(self, case, choices):
        from ..xplore import Stats
        return self.run_case(case, Stats())


CHECK = C04
