"""C18 - admin commands touch seed and PIN only under their preconditions.

Model checking of the closed system  {adm_ledger.main | adm_sgx.main} x lazy device x lazy
operator: the real option parser and the real do_onboard / do_unlock / do_changepin /
do_get_pubkeys run against a UI/bootloader (or SGX) device model whose state dimensions (mode,
onboarded, echo, unlock verdict, new-PIN verdict, onboarding answer) are chosen lazily the first
time the tool asks, and an operator whose stdin lines and getpass answers are chosen lazily
from fixed alphabets.  The FULL choice tree of every static configuration (command x platform
x --pin x --newpin x --anypin x --nounlock x --noexec x output x randomness stream) is
enumerated with verif.xplore.explore (no deviation bound).

Oracle = predicates on the APDU log (facts are read from the answers the tool itself saw, per
connection), the operator's read log, the recording random source, the device end state and
the files written.
"""
import json
import os

from ..framework import Check, Violation
from ..env import Rng
from ..xplore import HarnessError, explore, run_once
from .. import opstub
from ..refs import ecsig
from ..simdev.base import World, HidStub, SW
from ..simdev.uiadmin import (UiAdmin, DropLink, MODE_BOOTLOADER, MODE_SIGNER, MODE_UI_HEARTBEAT,
                              MODE_DASHBOARD, DOCUMENTED_PATHS, pin_policy_ok)

# non-ASCII kinds: \u00ba (masculine ordinal) and \u00b5 (micro) are "letters" for str.isalpha and take
# two bytes in UTF-8.  uni-letters / uni-digits encode to exactly 8 BYTES (7 characters),
# uni-8chars is 8 CHARACTERS (9 bytes).  The policy speaks about what the device receives:
# 8 ASCII alphanumerics with at least one ASCII letter.
# nonalnum: a non-alphanumeric byte AFTER the first letter; junk-first: non-alphanumeric bytes
# BEFORE the first (and only) letter -- a validator that stops looking at the first letter, or
# starts there, must not get away with it
PIN_KINDS = ["absent", "valid", "short7", "digits", "nonalnum", "junk-first", "long9",
             "uni-letters", "uni-digits", "uni-8chars"]
QUICK_DROP = ["uni-letters", "uni-8chars"]        # thorough only (uni-digits stays in quick)
PIN_VALUES = {"valid": "pa55word", "short7": "123456a", "digits": "12345678",
              "nonalnum": "a234567!", "junk-first": "12#45-7a", "long9": "1234567ab",
              "uni-letters": "abc123\u00ba", "uni-digits": "123456\u00ba", "uni-8chars": "abc1234\u00b5"}
NEWPIN_VALUES = {"valid": "a1b2c3a1", "short7": "Abcd123", "digits": "87654321",
                 "nonalnum": "Abcd123$", "junk-first": "-------z", "long9": "Abcd12345",
                 "uni-letters": "Abcd12\u00b5", "uni-digits": "876543\u00b5", "uni-8chars": "Abcd123\u00ba"}
# an otherwise valid PIN with ASCII whitespace around / inside it (9 bytes): not policy-compliant
WS_KINDS = ["trail-blank", "lead-blank", "trail-nl", "trail-tab", "inner-blank"]
WS_QUICK = ["trail-blank", "lead-blank"]      # getpass answers, quick tier
WS_QUICK_OPT = ["trail-blank", "trail-nl"]     # --pin / --newpin, quick tier ("\n": what a regex $ forgives)
ANYPIN_ONLY = ["short-nl", "only-nl"]          # short forms that matter only with --anypin


def ws_variant(valid, kind):
    return {"trail-blank": valid + " ", "lead-blank": " " + valid, "trail-nl": valid + "\n",
            "trail-tab": valid + "\t", "inner-blank": valid[:4] + " " + valid[4:]}[kind]


GETPASS_MENU = [("valid", "Zz11gpZz"), ("short7", "gp1234Z"), ("digits", "11223344"),
                ("nonalnum", "gp1234Z*"), ("junk-first", "1 2 3 4x"), ("long9", "gp1234Zz9"),
                ("uni-letters", "gp1234\u00ba"), ("uni-digits", "112233\u00ba"),
                ("uni-8chars", "gp1234Z\u00b5")]
for _k in WS_KINDS:
    PIN_VALUES[_k] = ws_variant(PIN_VALUES["valid"], _k)
    NEWPIN_VALUES[_k] = ws_variant(NEWPIN_VALUES["valid"], _k)
PIN_VALUES.update({"short-nl": "abc\n", "only-nl": "\n"})
NEWPIN_VALUES.update({"short-nl": "Ab1\n", "only-nl": "\n"})
GETPASS_WS = [(k, ws_variant("Zz11gpZz", k)) for k in WS_KINDS]
# "yes" without newline = the last line of an input that ends there; "\r\n" = a DOS line ending
# "Ye\u017f" (long s): an unrecognised answer that Unicode case FOLDING / NFKC would turn into "yes";
# it is the quick tier's representative of the unrecognised answers (thorough: also a very long line
# and a CRLF-terminated yes)
STDIN_MENU = ["yes\n", "YES\n", "no\n", "n\n", "Ye\u017f\n", "\n", "y\n", "yes"]
LONG_LINE = "y" * 70000 + "\n"
STDIN_EXTRA = ["yes\r\n", LONG_LINE]
MODES = ["bootloader", "signer", "ui-heartbeat", "0xff", "undefined", "status-error"]
NAMES = {"btc": "m/44'/0'/0'/0/0", "rsk": "m/44'/137'/0'/0/0", "mst": "m/44'/137'/1'/0/0",
         "tbtc": "m/44'/1'/0'/0/0", "trsk": "m/44'/1'/1'/0/0", "tmst": "m/44'/1'/2'/0/0"}


STALE_TXT = "btc \t\t m/44'/0'/0'/0/0 \t\t 02" + "11" * 32 + "\n(output of an earlier run)\n"
STALE_JSON = json.dumps({p: "04" + "22" * 64 for p in NAMES.values()}, indent=2) + "\n"


def alnum(pin):
    return all((48 <= c <= 57) or (65 <= c <= 90) or (97 <= c <= 122) for c in pin)


class LazyDev(UiAdmin):
    """UiAdmin whose decisions are lazy choice points (each dimension chosen once)."""

    def __init__(self, ctx, cfg, modes):
        UiAdmin.__init__(self, seed=b"c18", platform=cfg["platform"], mode=MODE_BOOTLOADER,
                         onboarded=True, pin=b"\x00unknown")
        self.ctx = ctx
        self.cfg = cfg
        self.modes = modes
        self.dim = {}
        self.pin_known = False
        self.operator = None
        self.key_fault = None        # (index of the key exchange, kind)
        self.lost = None             # (exchange, kind) of the answer that was lost
        self.world = None
        self.keys_served = 0

    def snapshot(self):
        return (self.mode, self.onboarded, self.unlocked, bytes(self.pin), self.onboard_performed,
                self.retries, tuple(sorted(self.dim.items())))

    def pick(self, name, options):
        if name not in self.dim:
            self.ctx.state(("dev", self.cfg["id"], self.snapshot(), self.operator.snapshot(), name))
            self.dim[name] = options[self.ctx.choose(len(options), name)]
            return self.dim[name], True
        return self.dim[name], False

    def q_mode(self):
        m, first = self.pick("mode", self.modes)
        sgx = self.platform == "sgx"
        if first:
            if m == "signer":
                self.unlocked = True
                if not sgx:
                    self.mode = MODE_SIGNER
            elif m == "ui-heartbeat" and not sgx:
                self.mode = MODE_UI_HEARTBEAT
                self.unlocked = True
        if m == "0xff":
            return bytes([0x80, 0xFF])
        if m == "undefined":
            return bytes([0x80, 0x07])
        if m == "status-error":
            raise SW(0x6A99)
        if m == "status-error-generic":
            raise SW(0x6E00)
        if m == "ui-heartbeat" and sgx:
            return bytes([0x80, 0x04])
        return bytes([0x80, self.true_mode_byte()])

    def q_onboarded(self):
        onboard_cmd = self.cfg["cmd"] == "onboard"
        opts = ["no", "yes", "error"] if onboard_cmd else ["yes", "no", "error"]
        v, first = self.pick("onboarded", opts)
        if first:
            self.onboarded = (v == "yes") or (v == "error" and not onboard_cmd)
        if v == "error" and not self.onboard_seed:
            raise SW(0x6A99)
        ver = self.ui_version
        return bytes([0x80, 1 if self.onboarded else 0, ver[0], ver[1], ver[2]])

    def q_echo(self, apdu):
        v, _ = self.pick("echo", ["ok", "bad"])
        if v == "ok":
            return bytes(apdu)
        return bytes(apdu[:-1]) + bytes([apdu[-1] ^ 0xFF])

    def q_unlock(self, pin):
        if self.pin_known:
            return pin == self.pin
        v, _ = self.pick("unlock", ["ok", "refused"])
        if v == "ok":
            self.pin = bytes(pin)
            self.pin_known = True
            return True
        return False

    def q_newpin(self, pin):
        v, _ = self.pick("newpin", ["ok", "refused"])
        if v == "ok":
            self.pin_known = True
        return v == "ok"

    def q_onboard(self):
        v, _ = self.pick("onboarding", ["ok", "failure"])
        if v == "ok":
            self.pin_known = True
        return v == "ok"

    def handle(self, apdu):
        """onboarding: the device applies a destructive command and the ANSWER is lost (the link
        dies and the device re-enumerates, or the exchange times out) -- at the first and the
        last SEED and at the final WIPE / SGX_ONBOARD; at most once per execution"""
        resp = UiAdmin.handle(self, apdu)
        apdu = bytes(apdu)
        if self.cfg["cmd"] == "onboard" and self.lost is None and len(apdu) > 1 and apdu[0] == 0x80:
            point = None
            if apdu[1] == 0x44 and len(apdu) == 4 and apdu[2] in (0, 31):
                point = "seed"
            elif apdu[1] in (0x07, 0xA0):
                point = "final"
            if point:
                opts = ["delivered", "lost-link", "lost-timeout"] if point == "final" else \
                    ["delivered", "lost-link"]
                self.ctx.state(("dev", self.cfg["id"], self.snapshot(), self.operator.snapshot(),
                                "answer", point, apdu[2] if len(apdu) > 2 else None))
                k = self.ctx.choose(len(opts), "answer-" + point)
                if k:
                    self.lost = (point if point == "final" else "seed%d" % apdu[2], opts[k])
                    self.events.append(("answer-lost",) + self.lost)
                    self.world.drop_kind = "read" if opts[k] == "lost-link" else "timeout"
                    if opts[k] == "lost-link":
                        self.replug()                  # the device re-enumerates
                    raise DropLink()
        return resp

    def signer_app(self, apdu):
        if apdu[0] == 0x80 and apdu[1] == 0x06:
            r = self.q_onboarded()
            v = self.signer_version
            return bytes([0x80, r[1], v[0], v[1], v[2]])
        if apdu[0] == 0x80 and apdu[1] == 0x04 and self.cfg["cmd"] == "pubkeys" and \
                self.cfg["output"] and self.key_fault is None:
            # every key exchange may be the one that fails
            self.ctx.state(("dev", self.cfg["id"], self.snapshot(), self.operator.snapshot(),
                            "pubkey", self.keys_served))
            c = self.ctx.choose(4, "pubkey")
            if c:
                self.key_fault = (self.keys_served, ["ok", "status-error", "link-drop", "invalid-key"][c])
                if c == 1:
                    self.sw(0x6A8F)
                if c == 2:
                    raise DropLink()
                return b"\x04" + b"\x00" * 63 + b"\x05"       # 65 bytes, not a curve point
            self.keys_served += 1
        return UiAdmin.signer_app(self, apdu)


class Operator:
    """stdin and getpass chosen lazily; at most ``budget`` lines / answers each"""

    def __init__(self, ctx, cfg, dev, world, stdin_menu, getpass_menu, budget=3):
        self.ctx, self.cfg, self.dev, self.world = ctx, cfg, dev, world
        self.stdin_menu = stdin_menu
        self.getpass_menu = getpass_menu
        self.forced_used = False
        self.budget = budget
        self.lines = []          # (value, exchanges so far)
        self.passes = []         # (kind, value, exchanges so far)
        self.passes_eof = []
        self.stdin_eof = 0       # > 0: stdin is at end of file (number of reads answered with "")
        self.getpass_eof = 0
        self.gone = None

    def snapshot(self):
        return (tuple(v for v, _ in self.lines), tuple(k for k, _, _ in self.passes), self.gone,
                bool(self.stdin_eof), self.getpass_eof)

    def state(self, what):
        self.ctx.state(("op", self.cfg["id"], self.dev.snapshot(), self.snapshot(), what))

    # End of input is an answer like any other, at every position of a sequence: stdin then
    # returns "" for ever (readline) and getpass raises EOFError for ever.  A tool that keeps
    # asking costs EOF_STEPS reads and is then judged on what it sent (OperatorGone).
    EOF_STEPS = 3

    def _stdin_eof(self):
        self.stdin_eof += 1
        if self.stdin_eof > self.EOF_STEPS:
            self.gone = "stdin-eof-loop"
            raise opstub.OperatorGone("stdin at end of file, tool keeps reading")
        self.lines.append(("<eof>", self.world.seq))
        return ""

    # sys.stdin
    def readline(self, *a):
        if self.stdin_eof:
            return self._stdin_eof()
        if len([1 for v, _ in self.lines if v != "<eof>"]) >= self.budget:
            # the scripted answers are used up: the input ends, or the operator just sits there
            self.state("stdin-end")
            if self.ctx.choose(2, "stdin-end") == 0:
                return self._stdin_eof()
            self.gone = "stdin"
            raise opstub.OperatorGone("stdin")
        if self.dev.onboard_performed:
            # "disconnect and re-connect the ledger ... press [Enter]"
            self.state("enter")
            c = self.ctx.choose(4, "stdin-enter")
            if c == 3:
                self.gone = "stdin"
                raise opstub.OperatorGone("stdin")
            if c == 2:
                return self._stdin_eof()
            if c == 0:
                self.dev.replug()
            v = "\n"
            self.lines.append(("<enter%s>" % ("" if c == 0 else "-no-replug"), self.world.seq))
            return v
        self.state("line")
        n = len(self.stdin_menu)
        c = self.ctx.choose(n + 2, "stdin")
        if c == n:
            return self._stdin_eof()
        if c == n + 1:
            self.gone = "stdin"
            raise opstub.OperatorGone("stdin")
        v = self.stdin_menu[c]
        self.lines.append((v if len(v) < 64 else "<long line %d>" % len(v), self.world.seq))
        if not v.endswith("\n"):
            self.stdin_eof = 1e-9        # a last line without newline: the input ends after it
        return v

    def isatty(self):
        return False

    def __iter__(self):
        return self

    def __next__(self):
        v = self.readline()
        if v == "":
            raise StopIteration
        return v

    def read(self, *a):
        return self.readline()

    # getpass
    def _getpass_eof(self):
        self.getpass_eof += 1
        if self.getpass_eof > self.EOF_STEPS:
            self.gone = "getpass-eof-loop"
            raise opstub.OperatorGone("getpass at end of file, tool keeps asking")
        self.passes_eof.append(self.world.seq)
        raise EOFError("EOF when reading a line")

    def getpass(self, prompt="", stream=None):
        if self.getpass_eof:
            self._getpass_eof()
        n = len(self.getpass_menu)
        if len(self.passes) >= self.budget:
            self.state("getpass-end")
            if self.ctx.choose(2, "getpass-end") == 0:
                self._getpass_eof()
            self.gone = "getpass"
            raise opstub.OperatorGone("getpass")
        forced = self.cfg.get("first_getpass")
        if forced is not None and not self.passes and not self.forced_used:
            # sharding of the heaviest trees: this case explores the subtree below one fixed
            # first answer (the sibling cases cover the other answers)
            self.forced_used = True
            c = forced
        else:
            self.state("getpass")
            c = self.ctx.choose(n + 2, "getpass")
        if c == n:
            self._getpass_eof()
        if c == n + 1:
            self.gone = "getpass"
            raise opstub.OperatorGone("getpass")
        k, v = self.getpass_menu[c]
        self.passes.append((k, v, self.world.seq))
        return v


class C18(Check):
    id = "C18"
    level = "model_checking"
    rule = ("full lazy choice tree (no deviation bound) of device decisions {mode x6, onboarded x3, "
            "echo x2, unlock x2, new PIN x2, onboarding answer x2, the answer to the first / last SEED "
            "and to WIPE / SGX_ONBOARD {delivered, lost with the link, lost by time-out} after the "
            "device applied the command, each of the six key exchanges {ok, status "
            "error, link drop, invalid key}} and operator inputs {stdin lines "
            "<= 3 over 8 answers (incl. a last line without newline; thorough: CRLF ending, very long line) + end of file "
            "(then \"\" for ever; a tool that keeps reading is cut after 3 reads) + walk away, at every "
            "position; getpass answers <= 3 over 5 PIN kinds + EOFError + walk away, "
            "Enter with / without re-plugging / end of file} for every static configuration {onboard, unlock, "
            "changepin, pubkeys} x {Ledger, SGX} x --pin x10 x --newpin x10 (thorough x14) x --anypin x --nounlock x "
            "--noexec x output x 2 randomness streams (second stream where --pin is given; quick: --pin valid only) (flags a command does not read are enumerated "
            "in the thorough tier), driven through adm_ledger.main / adm_sgx.main.  A state is "
            "(configuration, device state, chosen dimensions, operator progress) at a choice point; "
            "distinct outcome = (command, platform, exit, APDU command shape, files, end state).")
    assumptions = [
        "the device is a model read off the firmware sources (bootloader.c, onboard.c, pin.c, "
        "unlock.c, sgx system.c/access.c); it reports its state truthfully except for the three "
        "enumerated mode anomalies and the 'error' answer to the onboarded query",
        "each device dimension is chosen once per execution and then evolves as the firmware "
        "prescribes (onboarding sets PIN and seed, unlock + exit moves to the signer / dashboard, "
        "re-plugging returns to the bootloader)",
        "a production firmware refuses a non-compliant PIN even when the tool was given --anypin",
        "PIN byte values are fixed representatives of their kinds; seeds come from a recorded "
        "seeded stream standing in for os.urandom inside admin.onboard",
        "transport faults in the middle of a PIN / seed transfer are not injected",
        "end-state clauses are asserted only where the statement fixes the outcome (dont_care "
        "otherwise: --anypin with a non-compliant PIN, echo failure for unlock, walk-away)",
    ]
    trusted_base = ["verif/simdev/uiadmin.py device model", "verif/xplore.py", "libsecp256k1 "
                    "(device keys)", "verif/opstub.py"]

    # -- setup -----------------------------------------------------------------
    def prepare(self):
        from .. import harness  # noqa: F401
        opstub.init_session("c18")
        import admin.misc
        import admin.onboard
        import admin.dongle_admin
        import admin.dongle_eth
        import ledger.hsm2dongle as H
        import ledger.hsm2dongle_tcp as HT
        import adm_ledger
        import adm_sgx
        self.misc, self.onboard_mod = admin.misc, admin.onboard
        self.dongle_admin, self.dongle_eth = admin.dongle_admin, admin.dongle_eth
        self.H, self.HT = H, HT
        self.mains = {"ledger": adm_ledger.main, "sgx": adm_sgx.main}
        if Rng("c18-seed-a").bytes(32) == Rng("c18-seed-b").bytes(32):
            raise HarnessError("the two randomness streams coincide")
        self.modes = MODES + (["status-error-generic"] if self.thorough else [])
        self.stdin_menu = STDIN_MENU + (STDIN_EXTRA if self.thorough else [])
        # getpass answers: quick 2 whitespace kinds, thorough 3 (all five in --pin / --newpin)
        ws = (WS_QUICK + ["trail-nl"]) if self.thorough else WS_QUICK
        drop = [] if self.thorough else QUICK_DROP
        self.getpass_menu = [e for e in GETPASS_MENU if e[0] not in drop] + \
            [e for e in GETPASS_WS if e[0] in ws]
        self.pin_kinds = [k for k in PIN_KINDS if k not in drop] + \
            (WS_KINDS if self.thorough else WS_QUICK_OPT) + ANYPIN_ONLY
        self.td = None

    def bounds(self):
        return {"stdin_lines": 3, "getpass_answers": 3, "deviation_bound": "none (full tree)",
                "configurations": len(self.cases())}

    def alphabets(self):
        return {"mode": self.modes, "onboarded": ["yes", "no", "error"], "echo": ["ok", "bad"],
                "unlock": ["ok", "refused"], "newpin": ["ok", "refused"],
                "onboarding": ["ok", "failure"], "stdin": [v if len(v) < 40 else v[:8] + "...(%d)" % len(v) for v in self.stdin_menu] +
                ["<end of file>", "<walk away>"],
                "getpass": [k for k, _ in self.getpass_menu] + ["<EOFError>", "<walk away>"],
                "pin_option": self.pin_kinds}

    def cases(self):
        cs = []

        T = self.thorough

        def add(**kw):
            if not kw["anypin"] and (kw["pin"] in ANYPIN_ONLY or kw["newpin"] in ANYPIN_ONLY):
                return
            kw["id"] = len(cs)
            kw["verbose"] = False
            cs.append({"kind": "config", "cfg": kw})
            # -v/--verbose builds the dongle objects with debug=True (SGX: also -s/-p host and
            # port): crossed with the scenarios where the PIN comes from the command line
            # (thorough: with every configuration where --pin is given)
            if (kw["pin"] == "valid" and kw["newpin"] in ("absent", "valid")) or \
                    (T and kw["pin"] != "absent"):
                kv = dict(kw, verbose=True)
                kv["id"] = len(cs)
                cs.append({"kind": "config", "cfg": kv})
        for plat in ("ledger", "sgx"):
            ne_all = (False, True) if plat == "ledger" else (False,)
            for pin in self.pin_kinds:
                for anypin in (False, True):
                    # onboard
                    for out in (True, False):
                        # second randomness stream: with --pin valid (quick), with every --pin
                        # given (thorough); the seed does not depend on the dialogue
                        for stream in (("a", "b") if (T and pin != "absent") or pin == "valid" else ("a",)):
                            # flags onboard does not read: thorough, and only where the tree is small
                            T2 = T and pin != "absent"
                            for ne in (ne_all if T2 else (False,)):
                                for nu in ((False, True) if T2 else (False,)):
                                    # interactive onboarding (stdin x getpass sequences) has the largest trees: shard
                                    # its tree by the first getpass answer
                                    heavy = pin == "absent" and (plat == "sgx" or out)
                                    for g in (range(len(self.getpass_menu) + 2) if heavy else (None,)):
                                        add(cmd="onboard", platform=plat, pin=pin, newpin="absent",
                                            anypin=anypin, nounlock=nu, noexec=ne, output=out,
                                            stream=stream, first_getpass=g)
                    # unlock
                    for ne in ne_all:
                        for out in ((False, True) if T else (False,)):
                            for nu in ((False, True) if T else (False,)):
                                add(cmd="unlock", platform=plat, pin=pin, newpin="absent", anypin=anypin,
                                    nounlock=nu, noexec=ne, output=out, stream="a")
                    # changepin
                    for newpin in self.pin_kinds:
                        for nu in (False, True):
                            for ne in (ne_all if T else (False,)):
                                add(cmd="changepin", platform=plat, pin=pin, newpin=newpin,
                                    anypin=anypin, nounlock=nu, noexec=ne, output=False, stream="a")
                    # pubkeys
                    for nu in (False, True):
                        for ne in ne_all:
                            for out in (True, False):
                                for newpin in (("absent", "valid") if T else ("absent",)):
                                    # stale: the output files already exist from an earlier run
                                    for stale in ((False, True) if out else (False,)):
                                        add(cmd="pubkeys", platform=plat, pin=pin, newpin=newpin,
                                            anypin=anypin, nounlock=nu, noexec=ne, output=out,
                                            stream="a", stale=stale)
        # neighbouring configurations cost alike and the pool hands out runs of consecutive
        # cases: deal them out with a stride so that the few heavy ones land on different workers
        stride = 37
        return [c for r in range(stride) for c in cs[r::stride]]

    # -- one execution ---------------------------------------------------------
    def argv(self, cfg, td):
        sgx = cfg["platform"] == "sgx"
        a = ["adm_sgx.py" if sgx else "adm_ledger.py", cfg["cmd"]]
        if cfg["pin"] != "absent":
            a += ["-P" if sgx else "-p", PIN_VALUES[cfg["pin"]]]
        if cfg["newpin"] != "absent":
            a += ["-n", NEWPIN_VALUES[cfg["newpin"]]]
        if cfg["anypin"]:
            a += ["-a"]
        if cfg["nounlock"]:
            a += ["-u"]
        if cfg["noexec"] and not sgx:
            a += ["-e"]
        if cfg["output"]:
            a += ["-o", td.file("out.txt")]
        if cfg.get("verbose"):
            a += ["-v"] + (["-s", "sgx.example", "-p", "4321"] if sgx else [])
        return a

    def execute(self, cfg, ctx):
        td = self.td
        td.clear()
        if cfg.get("stale"):
            td.write("out.txt", STALE_TXT)
            td.write("out.json", STALE_JSON)
        dev = LazyDev(ctx, cfg, self.modes)
        w = World(dev)
        dev.world = w
        op = Operator(ctx, cfg, dev, w, self.stdin_menu, self.getpass_menu)
        dev.operator = op
        # ONE recording source behind every door to randomness (os.urandom, secrets, SystemRandom,
        # from-imports); what was drawn for the seed is told apart by the call stack
        stream = opstub.ByteStream("c18-seed-" + cfg["stream"])
        patches = (opstub.seam_dongle(w.get_dongle) + opstub.seam_getpass(op.getpass) +
                   opstub.seam_urandom(stream))
        r = opstub.run_main(self.mains[cfg["platform"]], self.argv(cfg, td), stdin=op, patches=patches)
        files = {n: td.read(n) for n in td.listing()}
        return {"r": r, "dev": dev, "w": w, "op": op, "seed_pool": stream.produced_under("admin/onboard.py", exclude=("admin/dongle_admin.py",
                                                                          "admin/unlock.py")),
                "files": files,
                "cfg": cfg}

    def run_case_single(self, case, choices, stats):
        vs = []
        with opstub.TempDir("c18") as td:
            self.td = td
            cfg = case["cfg"]
            ctx, obs = run_once(lambda c: self.execute(cfg, c), choices or [])
            stats.evaluations += 1
            self.judge(ctx, obs, stats, vs)
        return vs

    def run_case(self, case, stats):
        if case["kind"] == "one":
            return self.run_case_single(case, case.get("choices"), stats)
        vs = []
        cfg = case["cfg"]
        with opstub.TempDir("c18") as td:
            self.td = td
            explore(lambda c: self.execute(cfg, c), lambda c, o: self.judge(c, o, stats, vs),
                    stats, bound=None)
        return vs

    # -- oracle ------------------------------------------------------------------
    def viol(self, vs, ctx, cfg, clause, detail, observed, expected):
        if len(vs) > 400:
            return
        vs.append(Violation("C18", "C18:%s:%s:%s:%s" % (clause, cfg["cmd"], cfg["platform"], detail),
                            {"kind": "one", "cfg": cfg, "choices": list(ctx.choices)},
                            list(ctx.choices), observed, expected, clause))

    def judge(self, ctx, o, stats, vs):
        cfg, r, dev, w, op = o["cfg"], o["r"], o["dev"], o["w"], o["op"]
        sgx = cfg["platform"] == "sgx"
        cmd = cfg["cmd"]
        anypin = cfg["anypin"]
        reported = set()

        def V(clause, detail, obs, exp):
            # one report per clause and execution (32 SEED commands are one finding)
            if (clause, detail) not in reported:
                reported.add((clause, detail))
                self.viol(vs, ctx, cfg, clause, detail, obs, exp)
        if r.exc:
            V("tool-crash", "exception", {"exc": r.exc}, {"exit": "code"})
        # ---- walk the log, connection by connection --------------------------------
        facts = None
        pinbuf, pinfacts, pinstart = {}, None, None
        seedbuf = {}
        partial_seeds = []
        shape = []
        first_destructive = None
        onboard_pins, change_pins, unlock_pins, seeds_sent = [], [], [], []
        wipe_ok = False
        unlock_answers, change_answers = [], []
        yes_positions = [at for v, at in op.lines if v.strip().lower() == "yes"]

        def fresh():
            return {"mode": None, "onb": None, "echo": None}

        def need_onboarding(what, x_idx, f):
            miss = []
            if f is None or f["mode"] != 2:
                miss.append("mode-not-bootloader")
            if f is None or f["echo"] is not True:
                miss.append("echo-not-ok")
            if f is None or f["onb"] != 0:
                miss.append("not-shown-unonboarded")
            if not any(p <= x_idx for p in yes_positions):
                miss.append("no-explicit-yes")
            for m in miss:
                V("onboarding-precondition", "%s:%s" % (what, m),
                  {"apdu_index": x_idx, "facts": f, "stdin": [v for v, _ in op.lines],
                   "dims": dev.dim}, {"sent_only_if": "bootloader & echo ok & not onboarded & yes"})

        def need_unlock(what, x_idx, f):
            miss = []
            if f is None or f["mode"] != 2:
                miss.append("mode-not-bootloader")
            if f is None or f["onb"] != 1:
                miss.append("not-shown-onboarded")
            for m in miss:
                V("unlock-precondition", "%s:%s" % (what, m),
                  {"apdu_index": x_idx, "facts": f, "dims": dev.dim},
                  {"sent_only_if": "onboarded & bootloader"})

        for e in w.log:
            if e[0] == "open":
                facts = fresh()
                # a transfer belongs to ONE connection: on a new connection the tool starts over
                # (and may re-check the device first); what was begun before is remembered only
                # to see that a new attempt does not send the same seed again
                if seedbuf:
                    if dev.lost is None:
                        V("onboarding-precondition", "SEED:without-WIPE", {"seed_bytes": len(seedbuf)},
                          {"seed_followed_by": "PIN and WIPE"})
                    partial_seeds.append(dict(seedbuf))
                seedbuf, pinbuf, pinfacts, pinstart = {}, {}, None, None
                continue
            if e[0] != "x":
                continue
            idx, apdu, outcome = e[1], e[2], e[3]
            ok = outcome[0] == "ok"
            resp = outcome[1] if ok else b""
            if len(apdu) < 2 or apdu[0] != 0x80:
                if not shape or shape[-1] != "E0":
                    shape.append("E0")
                continue
            c = apdu[1]
            if not shape or shape[-1] != c:
                shape.append(c)
            if c in (0x44, 0x07, 0xA0) and outcome[0] == "sw" and outcome[1] in (0x69A1, 0x6BEF):
                # the firmware's own verdict: this command reached a device that IS onboarded
                V("onboarding-precondition", "%s:device-was-onboarded" %
                  {0x44: "SEED", 0x07: "WIPE", 0xA0: "SGX_ONBOARD"}[c],
                  {"apdu_index": idx, "answer": "0x%04x" % outcome[1], "lost_answer": dev.lost},
                  {"sent_only_to": "a device that is not onboarded"})
            if seedbuf and c not in (0x44, 0x41, 0x07):
                # bootloader.c reset_if_starting: SEED / SEND_PIN / WIPE are one operation; any
                # other instruction in between clears the host seed received so far
                V("seed", "transfer-interrupted", {"by_instruction": "0x%02x" % c, "apdu_index": idx,
                  "seed_bytes_sent": len(seedbuf)}, {"between_SEED_and_WIPE": "only SEED and SEND_PIN"})
            if c == 0x43:
                facts["mode"] = resp[1] if ok and len(resp) == 2 else "?"
            elif c == 0x06:
                facts["onb"] = resp[1] if ok and len(resp) >= 2 else "?"
            elif c in (0x02, 0xA4) and facts["mode"] != 3:
                facts["echo"] = ok and resp == apdu
            elif c == 0x44:
                need_onboarding("SEED", idx, facts)
                if len(apdu) == 4:
                    seedbuf.setdefault(apdu[2], []).append(apdu[3])
                first_destructive = first_destructive if first_destructive is not None else idx
            elif c == 0x41:
                if not pinbuf:
                    pinfacts, pinstart = dict(facts), idx
                if len(apdu) == 4:
                    pinbuf[apdu[2]] = apdu[3]
            elif c in (0x07, 0x08, 0xFE):
                raw = bytes(pinbuf.get(i, 0) for i in range(max(pinbuf) + 1)) if pinbuf else b""
                if c == 0xFE:
                    need_unlock("SEND_PIN", pinstart if pinstart is not None else idx, pinfacts)
                    need_unlock("UNLOCK", idx, facts)
                    unlock_pins.append(raw)
                    unlock_answers.append(ok and len(resp) >= 3 and resp[2] != 0)
                else:
                    pin = raw[1:1 + raw[0]] if raw else b""
                    if raw and raw[0] != len(raw) - 1:
                        V("pin-transfer", "length-prefix", {"sent": raw}, {"prefix": len(raw) - 1})
                    if c == 0x07:
                        need_onboarding("SEND_PIN", pinstart if pinstart is not None else idx, pinfacts)
                        need_onboarding("WIPE", idx, facts)
                        onboard_pins.append(pin)
                        seeds_sent.append((dict(seedbuf), ok))
                        wipe_ok = wipe_ok or (ok and len(resp) >= 2 and resp[1] == 2)
                        seedbuf = {}
                    else:
                        change_pins.append(pin)
                        change_answers.append(ok)
                pinbuf, pinfacts, pinstart = {}, None, None
            elif c == 0xA0:
                need_onboarding("SGX_ONBOARD", idx, facts)
                data = apdu[3:]
                onboard_pins.append(data[32:])
                seeds_sent.append(({i: [b] for i, b in enumerate(data[:32])}, ok))
                wipe_ok = wipe_ok or (ok and len(resp) >= 3 and resp[2] == 1)
            elif c == 0xA3:
                need_unlock("SGX_UNLOCK", idx, facts)
                unlock_pins.append(apdu[3:])
                unlock_answers.append(ok and len(resp) >= 3 and resp[2] != 0)
            elif c == 0xA5:
                change_pins.append(apdu[3:])
                change_answers.append(ok and len(resp) >= 3 and resp[2] == 1)
        if pinbuf and dev.lost is None:
            V("pin-transfer", "unterminated", {"sent": pinbuf}, {"terminated_by": "WIPE/UNLOCK/CHANGE"})
        if seedbuf and dev.lost is None:
            V("onboarding-precondition", "SEED:without-WIPE", {"seed_bytes": len(seedbuf)},
              {"seed_followed_by": "PIN and WIPE"})
        # ---- seed = what the random source produced --------------------------------
        for sb, _ok in seeds_sent:
            complete = sorted(sb) == list(range(32)) and all(len(v) == 1 for v in sb.values())
            seed = bytes(sb[i][0] for i in range(32)) if complete else None
            # the 32 bytes are (a run of) what the random source handed to the onboarding code
            if seed is None or seed not in o["seed_pool"]:
                V("seed", "not-from-random-source", {"seed": seed, "indices": sorted(sb)},
                  {"seed_within": o["seed_pool"].hex()})
            # every attempt draws afresh: the bytes an interrupted attempt had already sent are
            # not sent again (judged when at least 4 bytes overlap)
            for ps in partial_seeds:
                common = [i for i in ps if i in sb]
                if len(common) >= 4 and all(ps[i][-1] == sb[i][-1] for i in common):
                    V("seed", "reused-by-second-attempt", {"bytes_in_common": len(common)},
                      {"second_attempt": "a fresh draw from the random source"})
        for i, sb in enumerate(s2 for s2, _ in seeds_sent):
            for sb2, _ in seeds_sent[:i]:
                if sb == sb2:
                    V("seed", "reused-by-second-attempt", {"attempts": len(seeds_sent)},
                      {"second_attempt": "a fresh draw from the random source"})
        # ---- PIN policy -------------------------------------------------------------
        if not anypin:
            for p in onboard_pins:
                if not pin_policy_ok(p):
                    V("pin-policy", "onboarding", {"pin": p}, {"pin": "8 alphanumerics, >= 1 letter"})
            for p in change_pins:
                if not pin_policy_ok(p):
                    V("pin-policy", "change", {"pin": p}, {"pin": "8 alphanumerics, >= 1 letter"})
        if cmd != "onboard" and (onboard_pins or any(c in (0x44, 0x07, 0xA0) for c in shape)):
            V("onboarding-precondition", "destructive-command-outside-onboard", {"shape": shape},
              {"none": True})
        if cmd not in ("changepin",) and change_pins:
            V("pin-policy", "change-outside-changepin", {"shape": shape}, {"none": True})
        # ---- what the operator supplied ---------------------------------------------
        dims = dev.dim
        nominal_dev = dims.get("mode") == "bootloader" and dims.get("echo") == "ok"
        pin_opt = PIN_VALUES.get(cfg["pin"])
        pass_values = [v.encode() for _, v, _ in op.passes]
        exit_ok = r.code == 0 and not r.gone and not r.exc
        end = {"exit": r.code, "gone": r.gone, "onboarded": dev.onboarded, "unlocked": dev.unlocked,
               "mode": dev.mode, "pin": bytes(dev.pin)}
        open_case = False
        # ---- onboard ------------------------------------------------------------------
        if cmd == "onboard":
            supplied = None
            if pin_opt is not None:
                supplied = pin_opt.encode() if pin_policy_ok(pin_opt.encode()) else None
            else:
                for p in pass_values:
                    if pin_policy_ok(p):
                        supplied = p
                        break
                    if anypin and alnum(p):
                        open_case = True       # --anypin lets a non-compliant PIN through
                        break
            pre = (nominal_dev and dims.get("onboarded") == "no" and bool(yes_positions)
                   and supplied is not None and (sgx or cfg["output"]) and not open_case
                   and dev.lost is None)
            if pre and not onboard_pins:
                V("carried-out", "onboarding-not-attempted", {"end": end, "shape": shape,
                  "out": r.out[-300:]}, {"onboarding": "SEED, PIN, WIPE sent"})
            if pre and dims.get("onboarding") == "ok":
                sent_seed = o["seed_pool"]
                if not dev.onboarded or not dev.onboard_seed or dev.onboard_seed not in sent_seed or \
                        (bytes(dev.pin) != supplied and len(change_pins) == 0) or \
                        not getattr(dev, "onboard_seed_complete", False):
                    V("carried-out", "device-not-onboarded-as-asked",
                      {"end": end, "device_seed": dev.onboard_seed, "shape": shape},
                      {"onboarded": True, "seed": sent_seed, "pin": supplied})
            if wipe_ok and onboard_pins:
                # relay fidelity: the PIN set is the one the operator supplied
                cands = ([pin_opt.encode()] if pin_opt is not None else pass_values)
                if onboard_pins[-1] not in cands:
                    V("carried-out", "onboarding-pin-not-operators", {"pin": onboard_pins[-1]},
                      {"pin_among": cands})
            if exit_ok and not dev.onboarded:
                V("false-success", "onboard", {"end": end}, {"onboarded": True})
            if open_case:
                stats.dont_care += 1
        # ---- unlock -------------------------------------------------------------------
        if cmd == "unlock":
            supplied = None
            if pin_opt is not None:
                if pin_policy_ok(pin_opt.encode()):
                    supplied = pin_opt.encode()
                elif anypin and alnum(pin_opt.encode()):
                    open_case = True
            else:
                for p in pass_values:
                    if alnum(p):
                        supplied = p
                        break
            pre = (nominal_dev and dims.get("onboarded") == "yes" and supplied is not None)
            if pre and not unlock_pins:
                V("carried-out", "unlock-not-attempted", {"end": end, "shape": shape, "out": r.out[-300:]},
                  {"unlock": "PIN and UNLOCK sent"})
            if pre and unlock_pins and unlock_pins[-1] != supplied:
                V("carried-out", "unlock-pin-not-operators", {"pin": unlock_pins[-1]}, {"pin": supplied})
            if pre and dims.get("unlock") == "ok":
                if not dev.unlocked or not exit_ok:
                    V("carried-out", "device-not-unlocked", {"end": end, "shape": shape}, {"unlocked": True, "exit": 0})
                if not sgx:
                    want_mode = MODE_DASHBOARD if cfg["noexec"] else MODE_SIGNER
                    if dev.mode != want_mode:
                        V("carried-out", "exit-after-unlock", {"mode": dev.mode, "shape": shape},
                          {"mode": want_mode})
            if exit_ok and not (unlock_answers and unlock_answers[-1]):
                V("false-success", "unlock", {"end": end, "shape": shape}, {"unlocked": True})
            if open_case or dims.get("echo") == "bad":
                stats.dont_care += 1
        # ---- changepin ------------------------------------------------------------------
        if cmd == "changepin":
            newpin_opt = NEWPIN_VALUES.get(cfg["newpin"])
            if exit_ok:
                want = newpin_opt.encode() if newpin_opt is not None else \
                    (pass_values[-1] if pass_values else None)
                if not change_pins or not change_answers[-1] or bytes(dev.pin) != want:
                    if not (anypin and want is not None and not pin_policy_ok(want)):
                        V("false-success", "changepin", {"end": end, "shape": shape, "sent": change_pins},
                          {"device_pin": want})
                    else:
                        stats.dont_care += 1
            new_ok = None
            if newpin_opt is not None:
                new_ok = newpin_opt.encode() if pin_policy_ok(newpin_opt.encode()) else None
            unlock_fine = cfg["nounlock"] or (unlock_answers and unlock_answers[-1])
            if unlock_fine and new_ok is not None and dims.get("newpin") == "ok" and not r.gone:
                # the device accepted the new PIN the operator gave with --newpin
                if bytes(dev.pin) != new_ok or not exit_ok:
                    V("carried-out", "pin-not-changed", {"end": end, "shape": shape}, {"pin": new_ok, "exit": 0})
            if cfg["nounlock"]:
                reached = dims.get("mode") in (("bootloader", "signer") if sgx else ("bootloader",))
            else:
                reached = bool(unlock_answers and unlock_answers[-1])
            if reached and new_ok is not None and not change_pins and not r.gone:
                V("carried-out", "change-not-attempted", {"end": end, "shape": shape, "out": r.out[-300:]},
                  {"change": "new PIN sent"})
        # ---- pubkeys ----------------------------------------------------------------------
        if cmd == "pubkeys":
            want_keys = dev.documented_pubkeys()
            txt, js = o["files"].get("out.txt"), o["files"].get("out.json")
            # files left by an earlier run count as not written
            txt = None if txt == STALE_TXT else txt
            js = None if js == STALE_JSON else js
            in_signer = (dev.true_mode_byte() == MODE_SIGNER and dev.onboarded and
                         dims.get("mode") in ("bootloader", "signer"))
            if cfg["nounlock"]:
                pre = dims.get("mode") == "signer" and dev.onboarded and (dev.unlocked or not sgx)
            else:
                pre = bool(unlock_answers and unlock_answers[-1]) and in_signer
            if pre and not r.gone and dev.key_fault is None:
                if not exit_ok:
                    V("carried-out", "pubkeys-not-delivered", {"end": end, "shape": shape, "out": r.out[-300:]},
                      {"exit": 0})
                elif cfg["output"] and (txt is None or js is None):
                    V("carried-out", "pubkeys-files-missing", {"files": sorted(o["files"])},
                      {"files": ["out.txt", "out.json"]})
            want = {p: k.hex() for p, k in want_keys.items()}

            def file_state(content, old, good):
                if content is None:
                    return "absent"
                if old is not None and content == old:
                    return "old"
                return "new" if good(content) else "other"

            def json_good(c):
                try:
                    return json.loads(c) == want
                except Exception:   # noqa
                    return False
            raw_txt, raw_js = o["files"].get("out.txt"), o["files"].get("out.json")
            old_txt, old_js = (STALE_TXT, STALE_JSON) if cfg.get("stale") else (None, None)
            st_txt = file_state(raw_txt, old_txt, lambda c: self.text_ok(c, want_keys) is None)
            st_js = file_state(raw_js, old_js, json_good)
            if exit_ok:
                if js is not None and st_js != "new":
                    V("pubkeys-content", "json", {"json": js[:600]}, {"json": want})
                if txt is not None and st_txt != "new":
                    V("pubkeys-content", "text-file", {"problem": self.text_ok(txt, want_keys)},
                      {"every_path_with": "compressed device key"})
                if not cfg["output"]:
                    bad = self.text_ok(r.out, want_keys)
                    if bad:
                        V("pubkeys-content", "text-stdout", {"problem": bad},
                          {"every_path_with": "compressed device key"})
                if cfg["output"] and (txt is None or js is None):
                    V("false-success", "pubkeys", {"files": sorted(o["files"])},
                      {"files": ["out.txt", "out.json"]})
            elif cfg["output"]:
                # a run that ends with an error owes no file, but what is at the output paths
                # afterwards is what was there before (nothing, or the earlier run's pair) or the
                # complete correct pair: never a truncated / half-written / mixed pair
                fault = dev.key_fault[1] if dev.key_fault else None
                unchanged = {"absent", "old"}
                okpair = (st_txt in unchanged and st_js in unchanged) or (st_txt == "new" and st_js == "new")
                if fault == "invalid-key":
                    stats.dont_care += 1          # a device outside its protocol
                elif not okpair:
                    V("pubkeys-files", "after-failure:%s" % ("stale" if cfg.get("stale") else "fresh"),
                      {"out.txt": st_txt, "out.json": st_js, "fault": dev.key_fault,
                       "txt_bytes": None if raw_txt is None else len(raw_txt)},
                      {"each_file": "as before the run, or the complete correct pair"})
        # ---- observation class ---------------------------------------------------------
        stats.observe((cmd, cfg["platform"], r.code, r.gone, tuple(shape), tuple(sorted(o["files"])),
                       dev.onboarded, dev.unlocked, dev.mode, bool(change_pins), anypin))
        stats.sample({"cmd": cmd, "platform": cfg["platform"], "argv": self.argv(cfg, self.td)[1:],
                      "choices": list(ctx.choices), "dims": dict(dims), "exit": r.code,
                      "apdu_shape": ["%02x" % c if isinstance(c, int) else c for c in shape]}, cap=4)

    @staticmethod
    def text_ok(text, want_keys):
        """None when every documented path appears on a line together with the compressed form of
        the device's key for that path; otherwise the first path that does not"""
        for name, path in NAMES.items():
            pub = want_keys[path]
            comp = bytes([2 + (pub[64] & 1)]) + pub[1:33]
            hit = [ln for ln in text.split("\n") if path in ln.split() or (" " + path + " ") in ln]
            if not any(comp.hex() in ln for ln in hit):
                return {"path": path, "compressed_key": comp.hex(), "lines": hit[:3]}
        return None


CHECK = C18
