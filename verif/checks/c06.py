"""C06 - a Ledger (version 1) attestation is accepted only if every link up to the root key verifies.

Bounded exhaustive enumeration of certificate structures over the four element names with
genuine secp256k1 hierarchies (private keys owned by the harness) and of every single-point
corruption along every possible path, against an independent chain walk (``ecdsa`` + ``hmac``).
"""
import hashlib
import itertools
from collections.abc import Mapping
import json
import multiprocessing
import os
import re

from ..framework import Check, Violation
from ..xplore import HarnessError
from .. import env
from ..refs import certref as R
from ..gen import certs as G
from ..certharness import verdict, same_hex

LEDGER_ROOT = ("0490f5c9d15a0134bb019d2afd0bf297149738459706e7ac5be4abc350a1f818057224fce12ec9a65de18ec34d6e8c24"
               "db927835ea1692b14c32e9836a75dad609")
NAMES = list(G.V1_NAMES)
PARENTS = ["root"] + NAMES
# option 0 = element absent; 1..10 = (signed_by, tweaked)
OPTIONS = [None] + [(sb, tw) for sb in PARENTS for tw in (False, True)]


def all_paths():
    """Every sequence of 1..4 distinct names, root-signed element first."""
    out = []
    for k in range(1, 5):
        out.extend(itertools.permutations(NAMES, k))
    return [list(p) for p in out]


def all_forests():
    """Every acyclic signed_by function on every non-empty subset of the names whose elements
    all reach the root: list of dict name -> parent."""
    out = []
    for k in range(1, 5):
        for subset in itertools.combinations(NAMES, k):
            for parents in itertools.product(PARENTS, repeat=k):
                f = dict(zip(subset, parents))
                ok = True
                for n in subset:
                    seen, cur = set(), n
                    while cur != "root":
                        if cur in seen or cur not in f:
                            ok = False
                            break
                        seen.add(cur)
                        cur = f[cur]
                    if not ok:
                        break
                if ok:
                    out.append(f)
    return out


class _Enough(Exception):
    """The loader ran out of budget: the case is cut short."""


class C06(Check):
    id = "C06"
    level = "exploration"
    rule = ("(a) every element graph over {device, attestation, ui, signer}: each element absent or "
            "present with signed_by in {root, device, attestation, ui, signer} and tweak present/absent "
            "(11^4 shapes incl. cycles, self-signing, dangling parents), every non-empty subset of "
            "present elements as targets (quick, four elements: singletons and all four), genuine keys/signatures, right root and wrong root; "
            "(b) every path of 1..4 distinct elements x every tweak pattern (quick, 4 elements: none / all / "
            "alternating) x every element of the "
            "path x every single-point corruption (one bit per byte position of message, signature, "
            "tweak, embedded certifier key (parent re-signed); swapped signatures; signature by an "
            "unrelated key, by every other key of the hierarchy, by the parent of the parent; tweak "
            "used/declared mismatch; other digest; high-S; padded DER; wrong / negated / compressed "
            "root); (c) every rooted forest x tweak patterns x one corrupted element x target "
            "lists (all, reversed, pairs / all subsets). An execution is distinct by (part, "
            "corruption kind, per-target (path length, verdict, failing depth)).")
    assumptions = [
        "key, message and tweak bytes come from a seeded generator; only structure and corruption "
        "positions are exhaustive",
        "quick tier flips one bit in the first, last and every 8th byte of each field; thorough in every byte",
        "signatures that verify only under a lenient reading (high-S, non-minimal DER lengths / integer "
        "padding; a field with bytes after the signature structure is no signature) and tweaks whose "
        "HMAC is 0 or >= n are dont_care",
        "the reported value of a valid target is extract(message) of docs/attestation.md (the whole "
        "message for ui and signer) and the declared tweak",
        "a root key that is not a curve point is outside the statement (HSMCertificateRoot refuses it)",
    ]
    trusted_base = ["python-ecdsa (secp256k1 arithmetic of the oracle)", "verif/refs/certref.py",
                    "verif/gen/certs.py (signing with libsecp256k1; genuine chains are re-verified by the oracle)"]

    # ---------------------------------------------------------------------------------
    def prepare(self):
        from ..certharness import CertImpl
        self.impl = CertImpl()
        self.world = G.V1World("c06")
        self.ver = R.K1Verifier()
        self.paths = all_paths()
        self.forests = all_forests()
        assert len(self.paths) == 64 and len(self.forests) == 211, (len(self.paths), len(self.forests))
        self.stride = 8
        self._el = {}
        # derived values with leading zero bytes, found by search before forking
        for signer in ["root"] + NAMES:
            self.world.zero_tweak(signer, 1)
            self.world.zero_tweak(signer, 2)
        self.zero_worlds = {"x": G.V1World("c06-zx", zero="x"), "y": G.V1World("c06-zy", zero="y")}
        self.hangs = multiprocessing.get_context("fork").Value("i", 0)
        # disagreements on the documented sample are violations like any other (framework merges them)
        self.pre_violations = self.calibrate()

    def calibration_probes(self):
        # the sample certificate is read from the documentation; Ledger's published issuer key is a
        # fact of the outside world (ledgerblue endorsementSetup.py), not of the wording of the docs
        docs = []
        try:
            txt = open(os.path.join(env.REPO, "docs/attestation.md")).read()
            for block in re.findall(r"```json\n(.*?)```", txt, re.S):
                try:
                    d = json.loads(block)
                except ValueError:
                    continue
                if isinstance(d, dict) and d.get("version") == 1:
                    docs.append(d)
        except OSError:
            pass
        if not docs:
            return []
        doc, root = docs[0], LEDGER_ROOT
        probes = [("intact", doc, root)]
        for i, e in enumerate(doc["elements"]):
            for fld, pos in (("message", 3), ("signature", 20)) + ((("tweak", 5),) if "tweak" in e else ()):
                d = G.clone(doc)
                d["elements"][i][fld] = G.flip(bytes.fromhex(e[fld]), pos, 0).hex()
                probes.append(("%s-%s-bit" % (e["name"], fld), d, root))
        probes.append(("other-root", doc, self.world.pub("stranger").hex()))
        return probes

    def calibrate(self, only=None):
        """The version-1 sample of docs/attestation.md under Ledger's published key, intact and with
        one corruption per element field: reference walk and implementation must agree.  The
        reference itself must give the verdicts DESIGN records (ui valid, signer invalid at signer)."""
        vs = []
        for probe, doc, root in self.calibration_probes():
            if only is not None and probe != only:
                continue
            exp = R.v1_validate(doc, bytes.fromhex(root), self.ver)
            if probe == "intact" and (exp["ui"][0] != R.OK or exp["signer"] != (R.FAIL, "signer")):
                raise HarnessError("calibration: reference walk on the documented sample gives %r" % (exp,))
            got = self.impl.run_v1(doc, root)
            if got[0] != "result" or self.mismatch(doc, exp, got[1]):
                vs.append(Violation("C06", "C06:calibration:documented-v1:" + probe,
                                    {"kind": "calibration", "probe": probe}, None,
                                    {"outcome": got[0], "result": got[1] if got[0] == "result" else repr(got[1])},
                                    {"verdicts": exp}, "documented sample"))
        return vs

    def bounds(self):
        return {"element_names": 4, "shapes": 11 ** 4, "paths": len(self.paths),
                "tweak_patterns_per_path": "2^len" if self.thorough else "2^len (4-element paths: none/all/alternating)",
                "target_subsets": "all non-empty" if self.thorough else "all non-empty; of four elements only singletons and all four", "forests": len(self.forests),
                "bit_positions": "every byte" if self.thorough else "first/last/every 8th byte",
                "forest_tweak_patterns": "all" if self.thorough else "none/all/alternating",
                "forest_target_lists": "all subsets + reversed" if self.thorough else "all, reversed, pairs (four elements: 4 of the 6 pairs)"}

    def alphabets(self):
        return {"signed_by": PARENTS, "corruptions": [
            "msg-bit", "sig-bit", "tweak-bit", "key-bit(parent re-signed)", "sig-swap", "stranger-key",
            "other-hierarchy-key", "tweak-declared-not-used", "tweak-used-not-declared", "other-tweak",
            "double-sha256", "high-s", "padded-der", "wrong-root", "negated-root", "compressed-root", "hybrid-root",
            "key-compressed", "key-hybrid", "certifier-not-a-key",
            "hex spellings of every field of the genuine chain: " + ", ".join(G.HEX_SPELLINGS),
            "genuine with leading zero bytes in: tweak HMAC (1, 2 bytes), signature r, s, message digest, "
            "public key X, Y (whole hierarchies)",
            "genuinely signed messages of every length 2..131 (quick: 14 lengths) around header + key"]}

    def cases(self):
        cs = []
        for a in range(len(OPTIONS)):
            for b in range(len(OPTIONS)):
                cs.append({"kind": "shapes", "a": a, "b": b})
        for i, p in enumerate(self.paths):
            n = len(p)
            full = (1 << n) - 1
            # quick: on the 4-element paths only the patterns none / all / alternating, which still
            # give every (tweak of the element, tweak of its parent) combination at every position
            masks = range(1 << n) if (self.thorough or n < 4) else sorted({0, full, 0b0101, 0b1010})
            for mask in masks:
                cs.append({"kind": "path", "path": i, "mask": mask})
        for i in range(len(self.forests)):
            cs.append({"kind": "forest", "idx": i})
        for z in ("x", "y"):
            for k in range(1, 5):
                cs.append({"kind": "zero-world", "coord": z, "len": k})
        # longest first
        order = {"path": 0, "forest": 1, "shapes": 2, "zero-world": 3}
        cs.sort(key=lambda c: (order[c["kind"]], -len(self.paths[c["path"]]) if c["kind"] == "path" else 0))
        return cs

    # ---------------------------------------------------------------------------------
    def element(self, name, signed_by, tweaked, certifies):
        k = (name, signed_by, tweaked, certifies)
        e = self._el.get(k)
        if e is None:
            e = self.world.element(name, signed_by, tweaked, certifies)
            self._el[k] = e
        return dict(e)

    def doc_of(self, shape, targets):
        parents = {sb for _, sb, _ in shape}
        return {"version": 1, "targets": list(targets),
                "elements": [self.element(n, sb, tw, n in parents) for n, sb, tw in shape]}

    def run_case_single(self, case, choices, stats):
        return self.run_case(case, stats)

    def run_case(self, case, stats):
        vs = []
        k = case["kind"]
        if k == "calibration":
            return self.calibrate(only=case["probe"])
        if self.hangs.value >= 4:
            stats.bump("capped")       # a loader that does not return was reported: stop early
            return vs
        if k == "one":
            try:
                self.evaluate(case["doc"], bytes.fromhex(case["root"]), case.get("label", "replay"),
                              stats, vs)
            except _Enough:
                pass
            return vs
        try:
            if k == "shapes":
                self.run_shapes(case, stats, vs)
            elif k == "path":
                self.run_path(self.paths[case["path"]], case["mask"], stats, vs)
            elif k == "forest":
                self.run_forest(self.forests[case["idx"]], stats, vs)
            elif k == "zero-world":
                self.run_zero_world(case, stats, vs)
        except _Enough:
            stats.bump("capped")
        return vs

    # ---- (a) all shapes ---------------------------------------------------------------
    def run_shapes(self, case, stats, vs):
        root = self.world.pub("root")
        wrong = self.world.pub("stranger")
        for c in range(len(OPTIONS)):
            for d in range(len(OPTIONS)):
                opts = [OPTIONS[case["a"]], OPTIONS[case["b"]], OPTIONS[c], OPTIONS[d]]
                shape = [(n, o[0], o[1]) for n, o in zip(NAMES, opts) if o is not None]
                present = [s[0] for s in shape]
                if not present:
                    continue
                for r in range(1, len(present) + 1):
                    if len(present) == 4 and r in (2, 3) and not self.thorough:
                        continue        # quick: singletons and all four (pairs: part (c))
                    for targets in itertools.combinations(present, r):
                        doc = self.doc_of(shape, targets)
                        exp = self.evaluate(doc, root, "genuine", stats, vs)
                        if exp is not None and any(v[0] != R.OK for v in exp.values()):
                            raise HarnessError("genuine chain not valid for the reference walk: %r %r"
                                               % (shape, exp))
                doc = self.doc_of(shape, present)
                self.evaluate(doc, wrong, "wrong-root", stats, vs)
                # ui / signer named as certifier while carrying their ordinary (non-key) message:
                # correctly signed themselves, but nothing below them can verify
                parents = {sb for _, sb, _ in shape}
                if parents & {"ui", "signer"} & set(present):
                    doc = {"version": 1, "targets": list(present),
                           "elements": [self.element(n, sb, tw, False) for n, sb, tw in shape]}
                    self.evaluate(doc, root, "certifier-not-a-key", stats, vs)

    # ---- (a') hierarchies whose public keys have a leading zero byte in X / in Y -------------------
    def run_zero_world(self, case, stats, vs):
        w = self.zero_worlds[case["coord"]]
        root = w.pub("root")
        for path in itertools.permutations(NAMES, case["len"]):
            for mask in sorted({0, (1 << len(path)) - 1, 0b0101 & ((1 << len(path)) - 1)}):
                shape = [(n, "root" if i == 0 else path[i - 1], bool(mask >> i & 1)) for i, n in enumerate(path)]
                for targets in ([path[-1]], list(path)):
                    doc = w.doc(shape, targets)
                    exp = self.evaluate(doc, root, "genuine-zero-" + case["coord"], stats, vs)
                    if any(v[0] != R.OK for v in exp.values()):
                        raise HarnessError("genuine chain (zero-coordinate keys) not valid for the reference")
                self.evaluate(w.doc(shape, [path[-1]]), w.pub("root", compressed=True), "compressed-root",
                              stats, vs)
                self.evaluate(w.doc(shape, [path[-1]]), w.pub("stranger"), "wrong-root", stats, vs)

    # ---- (b) corruptions along a path -------------------------------------------------
    def run_path(self, path, mask, stats, vs):
        w = self.world
        root = w.pub("root")
        tws = [bool(mask >> i & 1) for i in range(len(path))]
        shape = [(n, "root" if i == 0 else path[i - 1], tws[i]) for i, n in enumerate(path)]
        target = [path[-1]]
        base = self.doc_of(shape, target)
        exp = self.evaluate(base, root, "genuine-path", stats, vs)
        if exp[path[-1]][0] != R.OK:
            raise HarnessError("genuine path not valid for the reference walk: %r" % (shape,))
        # root variants
        self.evaluate(base, w.pub("stranger"), "wrong-root", stats, vs)
        self.evaluate(base, w.pub("root", compressed=True), "compressed-root", stats, vs)
        self.evaluate(base, G.k1_hybrid(w.pub("root")), "hybrid-root", stats, vs)
        neg = bytearray(w.pub("root", compressed=True))
        neg[0] ^= 1
        self.evaluate(base, bytes(neg), "negated-root", stats, vs)

        def variant(idx, **fields):
            d = G.clone(base)
            for k2, v in fields.items():
                if v is None:
                    d["elements"][idx].pop(k2, None)
                else:
                    d["elements"][idx][k2] = v
            return d

        def run(doc, label):
            self.evaluate(doc, root, label, stats, vs)

        # every hex field of the genuine chain in the other spellings the loader accepts for the same
        # bytes: same verdicts, byte-equal values
        for p in range(len(path)):
            for fld in ("message", "signature", "tweak"):
                if fld in base["elements"][p]:
                    for sp, fn in G.HEX_SPELLINGS.items():
                        exp = self.evaluate(variant(p, **{fld: fn(base["elements"][p][fld])}), root,
                                            "spelling:" + fld, stats, vs)
                        if exp[path[-1]][0] != R.OK:
                            raise HarnessError("reference walk is sensitive to hex spelling %s" % sp)
        for p, name in enumerate(path):
            e = base["elements"][p]
            signer_key = "root" if p == 0 else path[p - 1]
            certifies = p + 1 < len(path)
            msg = bytes.fromhex(e["message"])
            sig = bytes.fromhex(e["signature"])
            tweak = w.tweak[name] if tws[p] else None
            for i in G.positions(len(msg), self.thorough, self.stride):
                run(variant(p, message=G.flip(msg, i, (i * 3 + 1) % 8).hex()), "msg-bit")
            for i in G.positions(len(sig), self.thorough, self.stride):
                run(variant(p, signature=G.flip(sig, i, (i * 5 + 2) % 8).hex()), "sig-bit")
            for i in (0, 1):                                   # every bit of the DER tag and length
                for bit in range(8):
                    run(variant(p, signature=G.flip(sig, i, bit).hex()), "sig-header-bit")
            if tweak is not None:
                for i in G.positions(len(tweak), self.thorough, self.stride):
                    run(variant(p, tweak=G.flip(tweak, i, (i * 3) % 8).hex()), "tweak-bit")
                # declared, not used by the signer
                run(variant(p, signature=w.sign(signer_key, None, msg).hex()), "tweak-declared-not-used")
                # another tweak value declared
                other = w.tweak[NAMES[(NAMES.index(name) + 1) % 4]]
                run(variant(p, tweak=other.hex()), "other-tweak")
                # tweak dropped from the file
                run(variant(p, tweak=None), "tweak-dropped")
            else:
                run(variant(p, signature=w.sign(signer_key, w.tweak[name], msg).hex()),
                    "tweak-used-not-declared")
                run(variant(p, tweak=w.tweak[name].hex()), "tweak-added")
            # embedded certifier key in the parent's message, parent re-signed
            if p > 0:
                pe = base["elements"][p - 1]
                pname = path[p - 1]
                pmsg = bytes.fromhex(pe["message"])
                psigner = "root" if p == 1 else path[p - 2]
                ptw = w.tweak[pname] if tws[p - 1] else None
                koff = len(pmsg) - 65
                for i in G.positions(65, self.thorough, self.stride):
                    nm = G.flip(pmsg, koff + i, (i * 3 + 1) % 8)
                    d = variant(p - 1, message=nm.hex(), signature=w.sign(psigner, ptw, nm).hex())
                    run(d, "key-bit")
                # parent advertises a compressed key (a key only where the documented slice is exactly it)
                nm = pmsg[:koff] + w.pub(pname, compressed=True)
                run(variant(p - 1, message=nm.hex(), signature=w.sign(psigner, ptw, nm).hex()),
                    "key-compressed")
                nm = pmsg[:koff] + G.k1_hybrid(w.pub(pname))
                run(variant(p - 1, message=nm.hex(), signature=w.sign(psigner, ptw, nm).hex()),
                    "key-hybrid")
                nm = pmsg[:koff] + bytes([13 - G.k1_hybrid(w.pub(pname))[0]]) + w.pub(pname)[1:]
                run(variant(p - 1, message=nm.hex(), signature=w.sign(psigner, ptw, nm).hex()),
                    "key-hybrid-wrong-parity")
                # parent correctly signed, but what it advertises is not a key
                pub = w.pub(pname)
                notkeys = [pmsg[:koff] + b"\x05" + pub[1:], pmsg[:koff] + pub[1:],
                           pmsg[:koff] + b"\x04" + bytes(64), pmsg[:koff] + b"\x04" + b"\xff" * 32 + pub[33:],
                           pmsg[:koff] + b"\x02" + b"\xff" * 32, pmsg[:koff] + pub[:33] + pub[33:-1]]
                if pname in ("ui", "signer"):
                    notkeys += [w.leafmsg[pname], b"\x04"]
                else:
                    notkeys += [pmsg[:max(koff, 1)]]
                for nm in notkeys:
                    run(variant(p - 1, message=nm.hex(), signature=w.sign(psigner, ptw, nm).hex()),
                        "certifier-not-a-key")
                # parent advertises somebody else's key
                nm = pmsg[:koff] + w.pub("stranger")
                run(variant(p - 1, message=nm.hex(), signature=w.sign(psigner, ptw, nm).hex()),
                    "key-replaced")
            # genuine elements whose DERIVED values have leading zero bytes: the tweak scalar
            # HMAC-SHA256(tweak, certifier key), the signature's r and s, the message digest
            if tweak is not None:
                for nz in (1, 2):
                    zt = w.zero_tweak(signer_key, nz)
                    run(variant(p, tweak=zt.hex(), signature=w.sign(signer_key, zt, msg).hex()),
                        "genuine-zero-hmac")
            if not certifies or name == "device":
                if name == "device":
                    def make(i, _pub=w.pub(name)):
                        return w.prefix + i.to_bytes(2, "big") + _pub
                elif name == "attestation":
                    def make(i, _pub=w.pub(name)):
                        return bytes([i % 256]) + _pub
                else:
                    def make(i, _m=w.leafmsg[name]):
                        return _m + i.to_bytes(2, "big")
                for what in ("r", "s", "digest"):
                    zm = w.searched_message(name, signer_key, tweak, what, make)
                    if zm is not None:
                        run(variant(p, message=zm.hex(), signature=w.sign(signer_key, tweak, zm).hex()),
                            "genuine-zero-" + what)
            # genuine elements with other message lengths / prefixes (extraction is by the
            # documented slice, not by a fixed offset)
            pub = w.pub(name)
            if name == "device":
                alts = [pub, b"\x01" + pub, w.prefix + b"\x05\x06\x07\x08\x09" + pub,
                        w.leafmsg["signer"][:40] + pub]
            elif name == "attestation":
                alts = [b"\x00" + pub, b"\x04" + pub]
            elif certifies:
                alts = []
            else:
                alts = [b"\x07", w.leafmsg[name] * 3, pub]
            for am in alts:
                run(variant(p, message=am.hex(), signature=w.sign(signer_key, tweak, am).hex()),
                    "genuine-other-message")
            # a tweak that is declared but void, the element signed under the untweaked key
            plain_sig = w.sign(signer_key, None, msg).hex()
            for void in ("", " ", None, 0, False, [], {}, "0", "zz"):
                d = variant(p, signature=plain_sig)
                d["elements"][p]["tweak"] = void
                self.evaluate(d, root, "void-tweak", stats, vs)
            # genuinely signed messages of every length around header + key: the key (and the value) is
            # what the documented slice of the WHOLE message gives, whatever follows or is missing
            lens = range(2, 132) if self.thorough else (2, 33, 34, 64, 65, 66, 67, 68, 70, 73, 74, 99, 100, 131)
            header = {"device": w.prefix, "attestation": b"\xff"}.get(name, b"")
            filler = w.leafmsg["signer"] + w.leafmsg["ui"]
            for ln in lens:
                fams = [(header + pub + filler)[:ln]]                 # header, key, trailing bytes
                if ln >= 65 and name == "device":
                    fams.append(filler[:ln - 65] + pub)                # key at the tail
                for am in fams:
                    run(variant(p, message=am.hex(), signature=w.sign(signer_key, tweak, am).hex()),
                        "genuine-message-length")
            # signatures of the other elements
            for q in range(len(path)):
                if q != p:
                    run(variant(p, signature=base["elements"][q]["signature"]), "sig-swap")
            # signed by other keys
            run(variant(p, signature=w.sign("stranger", tweak, msg).hex()), "stranger-key")
            for other in ["root"] + NAMES:
                if other != signer_key:
                    lab = "grandparent-key" if (p >= 1 and other == ("root" if p == 1 else path[p - 2])) \
                        else "other-hierarchy-key"
                    run(variant(p, signature=w.sign(other, tweak, msg).hex()), lab)
            # right key, other digest
            d = w.priv[signer_key]
            if tweak is not None:
                d = G.k1_tweaked(d, tweak)
            s2 = G.k1_sign(d, hashlib.sha256(msg).digest())
            run(variant(p, signature=s2.hex()), "double-sha256")
            # right signature for another message of the same element kind
            alt = w.message(name, not certifies) if name in ("ui", "signer") else msg + b"\x00"
            run(variant(p, signature=w.sign(signer_key, tweak, alt).hex()), "sig-of-other-message")
            # lenient-only signatures
            run(variant(p, signature=G.high_s(sig, G.N_K1).hex()), "high-s")
            run(variant(p, signature=G.padded_der(sig).hex()), "padded-der")
            # every binary field followed / preceded by bytes that belong to nothing
            for fld, raw in (("signature", sig), ("message", msg)) + ((("tweak", tweak),) if tweak else ()):
                for lab, nb in G.extra_bytes_variants(raw):
                    if fld == "signature" or self.thorough or lab in ("+00", "+itself", "00+"):
                        run(variant(p, **{fld: nb.hex()}), "extra-bytes:" + fld)

    # ---- (c) forests, one corrupted element, several targets -------------------------------
    def run_forest(self, forest, stats, vs):
        w = self.world
        root = w.pub("root")
        names = list(forest)
        n = len(names)
        if self.thorough:
            masks = range(1 << n)
        else:
            masks = sorted({0, (1 << n) - 1, 0b0101 & ((1 << n) - 1), 0b1010 & ((1 << n) - 1)})
        tlists = []
        if self.thorough:
            for r in range(1, n + 1):
                tlists.extend(itertools.combinations(names, r))
            tlists.append(tuple(reversed(names)))
        else:
            tlists.append(tuple(names))
            if n > 1:
                tlists.append(tuple(reversed(names)))
            if n == 3:
                tlists.extend(itertools.combinations(names, 2))
            elif n == 4:
                tlists.extend([(names[0], names[1]), (names[1], names[2]), (names[2], names[3]),
                               (names[3], names[0])])
        for mask in masks:
            shape = [(nm, forest[nm], bool(mask >> i & 1)) for i, nm in enumerate(names)]
            base = self.doc_of(shape, names)
            for idx, (nm, sb, tw) in enumerate(shape):
                e = base["elements"][idx]
                msg = bytes.fromhex(e["message"])
                sig = bytes.fromhex(e["signature"])
                twb = w.tweak[nm] if tw else None
                variants = [
                    ("f-sig-bit", {"signature": G.flip(sig, len(sig) // 2, 3).hex()}),
                    ("f-msg-bit", {"message": G.flip(msg, len(msg) - 3, 2).hex()}),
                    ("f-stranger-key", {"signature": w.sign("stranger", twb, msg).hex()}),
                    ("f-tweak-mismatch", {"signature": w.sign(sb, None if tw else w.tweak[nm], msg).hex()}),
                ]
                for label, fields in variants:
                    for tl in tlists:
                        d = G.clone(base)
                        d["elements"][idx].update(fields)
                        d["targets"] = list(tl)
                        self.evaluate(d, root, label, stats, vs)

    # ---- one execution -----------------------------------------------------------------------
    def mismatch(self, doc, exp, got):
        """list of (clause, target, detail) where implementation and reference differ."""
        out = []
        if not isinstance(got, Mapping) or set(got) != set(doc["targets"]):
            return [("targets", None, None)]
        for t, ev in exp.items():
            g = verdict(got[t])
            if ev[0] == R.OPEN:
                continue
            if g is None:
                out.append(("result-shape", t, None))
            elif ev[0] == R.OK:
                if g[0] != "ok":
                    out.append(("rejected-valid", t, None))
                elif not (isinstance(g[1], str) and same_hex(g[1], ev[1]) and same_hex(g[2], ev[2])):
                    out.append(("value", t, None))
            else:
                if g[0] == "ok":
                    out.append(("accepted-invalid", t, None))
                elif g[1] != ev[1]:
                    out.append(("first-failing-name", t, None))
        return out

    def evaluate(self, doc, root, label, stats, vs):
        stats.evaluations += 1
        reason = R.v1_structure(doc)
        case = {"kind": "one", "doc": doc, "root": root.hex(), "label": label}
        bad = R.v1_malformed_field(doc)
        if bad is not None:
            # a declared field that is not a non-empty hex string: no certificate.  Refusing the file
            # and reporting the targets that depend on the element invalid are both fine; reporting
            # one of them valid is not
            got = self.impl.run_v1(doc, root.hex(), guarded=True)
            stats.observe((label, "malformed", bad[1], got[0]))
            if got[0] == "result" and reason is None and isinstance(got[1], Mapping):
                els = R.v1_index(doc)
                for t in doc["targets"]:
                    cur, on_path = t, False
                    while True:
                        on_path = on_path or cur == bad[0]
                        if els[cur]["signed_by"] == "root":
                            break
                        cur = els[cur]["signed_by"]
                    g = verdict(got[1].get(t))
                    if on_path and g is not None and g[0] == "ok":
                        vs.append(Violation("C06", "C06:malformed-field-accepted:%s:%s" % (bad[1], label), case,
                                            None, {"result": got[1]}, {"error": "malformed %s of %s" % (bad[1], bad[0])},
                                            "malformed field"))
            elif got[0] == "budget":
                vs.append(Violation("C06", "C06:load-does-not-return:malformed-" + bad[1], case, None,
                                    {"budget": got[1]}, {"error": "malformed"}, "structure"))
            return None
        got = self.impl.run_v1(doc, root.hex(), guarded=reason is not None,
                               repeats=2 if (self.thorough or label not in ("genuine", "wrong-root")) else 1)
        if got[0] == "unstable":
            stats.observe((label, "unstable"))
            vs.append(Violation("C06", "C06:repeated-validation-differs:" + label, case, None, got[1],
                                {"every call": "the same result"}, "verdicts do not depend on earlier calls"))
            return None if reason is not None else R.v1_validate(doc, root, self.ver)
        if got[0] == "budget":
            with self.hangs.get_lock():
                self.hangs.value += 1
            stats.observe(("budget", reason))
            vs.append(Violation("C06", "C06:load-does-not-return:%s" % reason, case, None,
                                {"budget": got[1]}, {"error": reason}, "structure"))
            raise _Enough()
        if got[0] == "raise":
            cls, frame = self.impl.where(got[1])
            stats.observe((label, "raise", type(got[1]).__name__))
            vs.append(Violation("C06", "C06:validate-raises:%s:%s" % (type(got[1]).__name__, frame), case,
                                None, {"raised": repr(got[1])},
                                {"result": "a verdict per target"}, "validation gives a verdict"))
            return None if reason is not None else R.v1_validate(doc, root, self.ver)
        if reason is not None:
            stats.observe(("structure", reason, got[0]))
            if got[0] != "loaderr":
                vs.append(Violation("C06", "C06:no-path-to-root-accepted:" + reason, case, None,
                                    {"loaded": True}, {"error": reason}, "structure"))
            return None
        exp = R.v1_validate(doc, root, self.ver)
        els = R.v1_index(doc)

        def depth(t):
            n, cur = 1, t
            while els[cur]["signed_by"] != "root":
                cur = els[cur]["signed_by"]
                n += 1
            return n

        def fail_depth(t, name):
            n, cur = depth(t), t
            while cur != name:
                cur = els[cur]["signed_by"]
                n -= 1
            return n

        sig = tuple(sorted((depth(t), v[0], fail_depth(t, v[1]) if v[0] != R.OK else 0)
                           for t, v in exp.items()))
        stats.observe((label, sig, got[0]))
        if any(v[0] == R.OPEN for v in exp.values()):
            stats.dont_care += 1
        stats.sample({"label": label, "targets": doc["targets"],
                      "shape": [(e["name"], e["signed_by"], "tweak" in e) for e in doc["elements"]],
                      "expected": {t: v[0] for t, v in exp.items()}})
        if got[0] == "loaderr":
            vs.append(Violation("C06", "C06:well-formed-certificate-refused:" + label, case, None,
                                {"error": repr(got[1])}, {"verdicts": exp}, "load"))
            return exp
        for clause, t, _ in self.mismatch(doc, exp, got[1]):
            d = depth(t) if t is not None else 0
            key = "C06:%s:%s:depth%d" % (clause, label, d)
            vs.append(Violation("C06", key, case, None, {"result": got[1]}, {"verdicts": exp}, clause))
        return exp


CHECK = C06
