"""C12 - concurrent clients never interleave on the device.

Schedule exploration (iterative context bounding): the unmodified socketserver.TCPServer
and comm.server run on the virtual network of verif/vnet.py; 2 (thorough: also 3) clients
each send one multi-APDU request; every interleaving of server threads and client actions
with <= B preemptions is executed.  Oracle: the device log is a concatenation of the
complete, contiguous APDU blocks of the individual requests (as recorded in solo runs), and
each client receives exactly the reply of its own request."""
import itertools
import json

from ..framework import Check, Violation
from ..xplore import explore, run_once, HarnessError
from .. import harness, dialogues, reqs, vnet, vserver
from ..env import Rng
from ..simdev.base import World
from ..simdev.powhsm import PowHsm


def request_menu():
    N = dialogues.nominal_requests()
    rng = Rng("c12")
    slots = []
    for i in range(3):
        s = {}
        s["pubkey"] = {"command": "getPubKey", "version": 5, "keyId": reqs.PATHS[i]}
        s["sign"] = dict(N["sign-legacy"], keyId=reqs.PATHS[i % 2])
        s["sign"] = json.loads(json.dumps(s["sign"]))
        s["sign"]["message"]["input"] = i % 2
        s["sign"]["auth"]["receipt_merkle_proof"] = [rng.nz_bytes(40 + i).hex(), rng.nz_bytes(90).hex()]
        s["hash"] = reqs.sign_request(reqs.PATHS[2 + i], hash_hex=rng.bytes(32).hex())
        s["advance"] = json.loads(json.dumps(N["advance-nobrothers"]))
        if i:
            s["advance"]["blocks"] = s["advance"]["blocks"][::-1][:3 - i] or s["advance"]["blocks"][:1]
            s["advance"]["brothers"] = [[] for _ in s["advance"]["blocks"]]
        # the very same transaction, key and authorization for every client, only the input differs
        s["signsame"] = json.loads(json.dumps(N["sign-legacy"]))
        s["signsame"]["message"]["input"] = i % 2
        # an advance the device ends with PARTIAL success
        s["advpartial"] = json.loads(json.dumps(N["advance-partial"]))
        if i:
            s["advpartial"]["blocks"] = s["advpartial"]["blocks"][:1]
            s["advpartial"]["brothers"] = [[]]
        s["state"] = {"command": "blockchainState", "version": 5}
        s["heartbeat"] = {"command": "signerHeartbeat", "version": 5, "udValue": rng.bytes(16).hex()}
        s["uihb"] = {"command": "uiHeartbeat", "version": 5, "udValue": rng.bytes(32).hex()}
        # the same, with the UI heartbeat application answering an error status to one of its operations
        s["uihbfail"] = {"command": "uiHeartbeat", "version": 5, "udValue": rng.bytes(32).hex()}
        # a request that takes the manager down: the device's first answer to it is cut short, which the
        # middleware does not expect (the client gets {} and the manager stops, C03's matter); what
        # matters here is that the client gets ITS {} and nobody else's reply
        s["statecut"] = {"command": "blockchainState", "version": 5}
        slots.append(s)
    return slots


KINDS = ["sign", "advance", "state", "heartbeat", "pubkey", "hash", "uihb", "signsame", "advpartial"]


def fail_ui_heartbeat(world):
    """the UI heartbeat application answers 0x6B10 to its first 'get signature' operation (once)"""
    fired = [False]

    def inject(w, i, apdu):
        if not fired[0] and len(apdu) > 2 and apdu[1] == 0x60 and apdu[2] == 0x02 and w.device.mode != 3:
            fired[0] = True
            return ("sw", 0x6B10)
        return None
    world.inject = inject


def cut_state_answer(world):
    """the first answer to a blockchain-state query is cut after the command byte (once)"""
    fired = [False]

    def inject(w, i, apdu):
        if not fired[0] and len(apdu) > 1 and apdu[1] == 0x20:
            fired[0] = True
            return ("raw", bytes(apdu[:2]))
        return None
    world.inject = inject


class C12(Check):
    id = "C12"
    level = "model_checking"
    rule = ("2 clients (thorough: also 3) x every unordered pair (triple) of commands from {sign "
            "authorized, advanceBlockchain, blockchainState, signerHeartbeat, getPubKey, sign hash} "
            "with distinct parameters, request line in one or two fragments x every interleaving "
            "of the server thread, helper threads and client actions (connect, send fragment) with "
            "<= B preemptions, scheduling points at accept / recv / sendall / close / select / "
            "Event.wait / Thread start+exit / every dongle.exchange. Classes = (commands, order in "
            "which the requests reached the device, preemption labels).")
    assumptions = [
        "real kernel sockets are not under the scheduler: the server runs on an in-memory network; "
        "16 simultaneous clients are out of reach for exhaustive interleaving (2 and 3 clients "
        "with multi-APDU commands are explored)",
        "os.fork is not available to the code under test in the harness (a forking server would "
        "leave its clients unanswered)",
        "shared data is only touched at the scheduling points listed (exchange granularity)",
    ]
    trusted_base = ["verif/vnet.py (scheduler, fake socket/selector/threading)", "verif/simdev/powhsm.py"]

    def prepare(self):
        self.bound = 3 if self.thorough else 2
        self.slots = request_menu()
        self.solo = {}
        self.pre_violations = []
        for i, s in enumerate(self.slots):
            for k, req in s.items():
                dev = PowHsm(seed=b"c12")
                dev.advance_final = "partial"
                w = World(dev)
                proto = harness.make_protocol(w)
                if k == "uihbfail":
                    fail_ui_heartbeat(w)
                if k == "statecut":
                    cut_state_answer(w)
                base = len(w.log)
                o = harness.handle_line(proto, json.dumps(req).encode())
                okcodes = (-905,) if k == "uihbfail" else (0, 1)
                if k == "statecut":
                    # whatever the tree does with it when alone is the reference for "its own reply"
                    self.solo[(i, k)] = (o.raw, [e[2] for e in w.log[base:] if e[0] == "x"])
                    self.stops = o.exc is not None
                    continue
                if o.exc is not None or not isinstance(o.reply, dict) or o.reply.get("errorcode") not in okcodes:
                    self.pre_violations.append(Violation(
                        "C12", "C12:solo-request-fails:%s" % k, {"cmds": [k], "frag": [1]}, None,
                        {"reply": o.raw, "exc": o.exc}, {"errorcode": "0/1"}, "solo"))
                    self.solo[(i, k)] = (o.raw, [e[2] for e in w.log[base:] if e[0] == "x"])
                    continue
                if False:
                    raise HarnessError("solo run of %s fails: %r %r" % (k, o.raw, o.exc))
                self.solo[(i, k)] = (o.raw, [e[2] for e in w.log[base:] if e[0] == "x"])

    def bounds(self):
        return {"preemption_bound_2_clients": "2 (quick); thorough: 3 for 7 multi-APDU pairs, 2 otherwise",
                "preemption_bound_3_clients": "1 (quick, one triple); thorough: 2 for triples of distinct "
                                              "commands, 1 otherwise",
                "clients": [2, 3] if self.thorough else [2]}

    def cases(self):
        cs = []
        deep = {("sign", "advance"), ("state", "heartbeat"), ("sign", "state"), ("advance", "heartbeat"),
                ("state", "state"), ("pubkey", "hash"), ("uihb", "state")}
        for a, b in itertools.combinations_with_replacement(KINDS, 2):
            bound = self.bound if (not self.thorough or (a, b) in deep or (b, a) in deep) else self.bound - 1
            cs.append({"cmds": [a, b], "frag": [1, 2], "bound": bound})
            if self.thorough or (a, b) in (("sign", "advance"), ("state", "heartbeat"), ("pubkey", "hash")):
                cs.append({"cmds": [a, b], "frag": [2, 1], "bound": bound if not self.thorough else 2})
        if self.thorough:
            for t in itertools.combinations_with_replacement(KINDS[:5], 3):
                cs.append({"cmds": list(t), "frag": [1, 2, 1], "bound": 1 if len(set(t)) < 3 else 2})
        else:
            cs.append({"cmds": ["state", "heartbeat", "pubkey"], "frag": [1, 1, 1], "bound": 1})
        # a request that fails in the device (UI heartbeat application answers an error status) next to
        # requests that must not notice
        for other in (("state", "sign") if not self.thorough else ("state", "sign", "heartbeat", "advance", "pubkey")):
            cs.append({"cmds": ["uihbfail", other], "frag": [1, 1], "bound": self.bound - 1})
            cs.append({"cmds": [other, "uihbfail"], "frag": [1, 1], "bound": self.bound - 1})
        # a request the manager does not survive (or answers with an error of its own), after / before /
        # between requests that were answered: nobody gets anybody else's reply
        for other in (("sign", "pubkey") if not self.thorough else ("sign", "pubkey", "heartbeat", "advance", "hash")):
            cs.append({"cmds": [other, "statecut"], "frag": [1, 1], "bound": self.bound - 1})
            cs.append({"cmds": ["statecut", other], "frag": [1, 1], "bound": self.bound - 1})
        # the manager's real bring-up inside the run: whatever it starts (a monitor thread, a timer) lives
        # next to the requests
        for a, b in ((("sign", "state"),) if not self.thorough else (("sign", "state"), ("advance", "heartbeat"),
                                                                      ("uihb", "pubkey"))):
            cs.append({"cmds": [a, b], "frag": [1, 1], "bound": self.bound - 1, "bringup": True})
        # the other dongle classes (their connect() runs before the server listens), clients that
        # pause in the middle of their line
        for plat in ("tcp", "sgx"):
            for a, b in ((("heartbeat", "state"), ("pubkey", "hash")) if not self.thorough else
                         (("heartbeat", "state"), ("pubkey", "hash"), ("sign", "advance"), ("state", "state"))):
                cs.append({"cmds": [a, b], "frag": [2, 2], "bound": self.bound - 1, "platform": plat})
        # stream transports: one answer of the other end comes after whatever time limit the dongle class
        # put on its socket (none on the unchanged tree: the exchange waits); nobody may read it as his
        for plat in ("tcp", "sgx"):
            for (a, b), late in (((("pubkey", "hash"), 0), (("sign", "state"), 1)) if not self.thorough else
                                 ((("pubkey", "hash"), 0), (("sign", "state"), 1), (("hash", "hash"), 0),
                                  (("advance", "pubkey"), 2), (("heartbeat", "state"), 1))):
                # (with the manager's real bring-up: a repair after the time-out needs it)
                cs.append({"cmds": [a, b], "frag": [1, 1], "bound": self.bound - 1, "platform": plat, "late": late,
                           "bringup": True})
        # a third client whose end is reset (or closed) in the middle of its line while the others wait
        for a, b in ((("sign", "state"), ("heartbeat", "pubkey")) if not self.thorough else
                     (("sign", "state"), ("heartbeat", "pubkey"), ("advance", "hash"), ("state", "state"))):
            for gone in ("reset", "hangup"):
                cs.append({"cmds": [a, b], "frag": [1, 1], "bound": self.bound - 1,
                           "gone": gone})
        return cs

    def driver(self, case):
        cmds = case["cmds"]
        lines = [json.dumps(self.slots[i][k]).encode() + b"\n" for i, k in enumerate(cmds)]

        def run(ctx):
            dev = PowHsm(seed=b"c12")
            dev.advance_final = "partial"
            w = World(dev)
            proto = harness.make_protocol(w, platform=case.get("platform", "ledger"))
            if "uihbfail" in cmds:
                fail_ui_heartbeat(w)
            if "statecut" in cmds:
                cut_state_answer(w)
            if case.get("late") is not None:
                # counted from the first exchange of the first request (after the bring-up, if it is inside)
                st = {"n": 0, "done": False}

                def inject(world, i, apdu):
                    if st["done"] or world.tag is None or not getattr(world, "serving", False):
                        return None
                    st["n"] += 1
                    if st["n"] - 1 == case["late"]:
                        st["done"] = True
                        return ("late",)
                    return None
                w.inject = inject
            frags = []
            for i, line in enumerate(lines):
                if case["frag"][i] == 1:
                    frags.append([line])
                else:
                    cut = len(line) // 2
                    frags.append([line[:cut], line[cut:]])
            if case.get("gone"):
                half = lines[0][:len(lines[0]) // 2]
                frags.append([half, vnet.RESET if case["gone"] == "reset" else vnet.HANGUP])
            net, info, crashed = vserver.run_server(proto, w, frags, ctx, bringup=bool(case.get("bringup")))
            return net, w, info, crashed
        return run

    def run_case(self, case, stats):
        vs = []
        run = self.driver(case)

        def check(ctx, obs):
            c = dict(case, choices=list(ctx.choices))
            self.judge(case, c, ctx, obs, stats, vs)
        if "choices" in case:
            ctx, obs = run_once(run, case["choices"])
            check(ctx, obs)
            return vs
        explore(run, check, stats, bound=case.get("bound", 2))
        return vs

    def replay(self, case, choices):
        from ..xplore import Stats
        c = dict(case)
        c["choices"] = list(choices or case.get("choices") or [])
        return self.run_case(c, Stats())

    def judge(self, case, c, ctx, obs, stats, vs):
        net, w, info, crashed = obs
        sched = net.sched
        cmds = case["cmds"]
        name = "+".join(cmds)

        def viol(clause, observed, expected):
            vs.append(Violation("C12", "C12:%s:%s" % (clause, name), c, list(ctx.choices),
                                observed, expected, clause))
        apdus = [e[2] for e in w.log if e[0] == "x"]
        stops = "statecut" in cmds and getattr(self, "stops", False)
        answered = [i for i, cl in enumerate(net.clients) if i < len(cmds) and cl.conn is not None and cl.conn.out]
        blocks = [self.solo[(i, k)][1] for i, k in enumerate(cmds) if not stops or i in answered]
        # with the real bring-up inside the run (and whatever it starts: a monitor thread, a timer),
        # exchanges that belong to no request may lie BETWEEN the blocks, never inside one
        late = case.get("late") is not None
        if late:
            # the request that met the late answer may end in the device-error code (its block is then
            # incomplete: what lies between the blocks of the others)
            def bare_error(raw):
                try:
                    d = json.loads(raw.decode())
                except Exception:   # noqa
                    return False
                return isinstance(d, dict) and list(d) == ["errorcode"] and d["errorcode"] in (-905, -906)
            hit = [i for i, cl in enumerate(net.clients) if i < len(cmds) and cl.conn is not None
                   and cl.conn.out != self.solo[(i, cmds[i])][0] and bare_error(cl.conn.out)]
            if len(hit) > 1:
                viol("wrong-or-missing-reply", {"clients_with_device_error": hit}, "at most the one that met the late answer")
            blocks = [b for i, b in enumerate(self.solo[(i, k)][1] for i, k in enumerate(cmds)) if i not in hit]
        else:
            hit = []
        order = partition(apdus, blocks, gaps=bool(case.get("bringup")) or bool(hit))
        labels = tuple(p[1].split("|")[0] for ch, p in zip(ctx.choices, ctx.points) if ch and not p[2])
        stats.observe((name, tuple(order) if order else None, labels, sched.deadlock),
                      nontrivial=any(ctx.choices))
        if any(ctx.choices):
            stats.sample({"commands": cmds, "choices": list(ctx.choices),
                          "labels": [p[1] for ch, p in zip(ctx.choices, ctx.points) if ch],
                          "device_order": order}, cap=3)
        if sched.livelock or sched.deadlock:
            viol("deadlock" if sched.deadlock else "livelock",
                 {"trace_tail": sched.trace[-10:], "clients": [cl.progress() for cl in net.clients]},
                 "every client answered")
            return
        if sched.errors or crashed:
            viol("server-thread-crashed", {"errors": sched.errors[:3], "crashed": crashed}, "none")
        if info["early_shutdown"] and not stops:
            viol("server-stopped-accepting", {}, "server still accepting when all clients are done")
        for i, cl in enumerate(net.clients):
            if i >= len(cmds):
                continue          # the client that went away in the middle of its line: no reply owed
            want = self.solo[(i, cmds[i])][0]
            got = cl.conn.out if cl.conn is not None else None
            if stops and cmds[i] != "statecut" and not got:
                continue          # the manager stopped before this client was served: nothing owed
            if i in hit:
                continue
            if got != want:
                viol("wrong-or-missing-reply", {"client": i, "got": got, "connected": cl.conn is not None},
                     {"reply": want})
        if order is None:
            tags = [(e[4], e[2][:4].hex()) for e in w.log if e[0] == "x"]
            viol("device-exchanges-interleaved", {"exchanges": tags[:60]},
                 "the complete APDU block of one request after the other")


def partition(apdus, blocks, gaps=False):
    """order (list of block indices) such that apdus == concatenation of those blocks, each block
    used exactly once; None if impossible.  gaps: APDUs of no block may lie between blocks."""
    n = len(blocks)
    if gaps:
        import functools

        @functools.lru_cache(maxsize=None)
        def rec2(pos, used):
            if len(used) == n:
                return ()
            if pos >= len(apdus):
                return None
            for i in range(n):
                if i in used:
                    continue
                b = blocks[i]
                if b and apdus[pos:pos + len(b)] == b:
                    r = rec2(pos + len(b), used | {i})
                    if r is not None:
                        return (i,) + r
            return rec2(pos + 1, used)
        r = rec2(0, frozenset())
        return list(r) if r is not None else None

    def rec(pos, used):
        if len(used) == n:
            return [] if pos == len(apdus) else None
        for i in range(n):
            if i in used:
                continue
            b = blocks[i]
            if apdus[pos:pos + len(b)] == b:
                r = rec(pos + len(b), used | {i})
                if r is not None:
                    return [i] + r
        return None
    return rec(0, frozenset())


CHECK = C12
