"""C05 - advance / ancestor update hand the device the client's blocks intact.

Model checking of the block dialogue with a policy device (chunk sizes, early stop of
a header, asks / does not ask for brothers, stops after k blocks with partial / total
success), deviation-bounded, against independent RLP / Keccak / SHA-256 code."""
import itertools
import struct

from ..framework import Check, Violation
from ..xplore import explore, run_once
from ..env import Rng
from ..refs import rlp as R
from ..refs.keccak import keccak256
from .. import reqs, harness
from ..simdev.base import World
from ..simdev.policy import PolicyBlocks


def tiny_sizes(n):
    return {i: 1 for i in range(17)} | {"btc": 3, "mp": 2}


class C05(Check):
    id = "C05"
    level = "model_checking"
    rule = ("lists of 1..3 RSK block headers (17..20 fields, field sizes across the RLP forms, "
            "compressed coinbase transactions with split 64k and tails 0/1/63/64/65) with 0..3 "
            "(thorough 0..4, rotations up to 10) brothers per block in every input order x every "
            "device policy with <= B deviations (chunk sizes incl. over-ask, stop a header early, "
            "ask / do not ask for brothers, stop asking brothers, end with partial / total success "
            "after k blocks). Non-trivial = at least one non-default choice; classes = (config "
            "kind, items received, early stops, brothers asked, final, reply code).")
    assumptions = [
        "byte values of the block fields are seeded, not enumerated",
        "the device model reassembles and does not validate block contents",
        "more than 4 brothers are covered by rotations of one sorted order only",
    ]
    trusted_base = ["verif/simdev/policy.py", "verif/refs/rlp.py, keccak.py, sha256.py"]

    def prepare(self):
        self.bound = 3 if self.thorough else 2
        self.configs = self.build_configs()

    def bounds(self):
        return {"deviation_bound_small": self.bound, "deviation_bound_real_blocks": self.bound - 1,
                "deviation_bound_3_block_lists": self.bound - 1,
                "brothers_all_permutations_up_to": 4 if self.thorough else 3}

    def build_configs(self):
        rng = Rng("c05")
        cfgs = []

        def blk(nf, tiny=True, **kw):
            sizes = tiny_sizes(nf) if tiny else None
            if "sizes" in kw:
                sizes = kw.pop("sizes")
            raw, info = reqs.mk_block(rng, nf, sizes=sizes, **kw)
            return {"raw": raw.hex(), "mm": info["mm_payload_len"],
                    "cb": info.get("cb_hash", b"").hex(), "hash": info["hash"].hex(),
                    "without_mm": info["without_mm"].hex(), "nf": nf}

        def add(kind, advance, blocks, brothers=None, bound=None, perm=None):
            cfgs.append({"name": "%s-%d" % (kind, len(cfgs)), "kind": kind, "advance": advance,
                         "blocks": blocks, "brothers": brothers, "bound": bound, "perm": perm})

        maxb = 4 if self.thorough else 3
        # structural: tiny blocks, 1..3 blocks, brothers 0..maxb in every input order
        for nblocks in (1, 2, 3):
            blocks = [blk(19 + (i % 2)) for i in range(nblocks)]
            if nblocks == 1:
                for nb in range(0, maxb + 1):
                    bros = [blk(19 + (j % 2)) for j in range(nb)]
                    for perm in itertools.permutations(range(nb)):
                        add("adv-struct", True, blocks, [[bros[p] for p in perm]],
                            perm=list(perm))
            else:
                for counts in itertools.product(range(0, 3), repeat=nblocks):
                    b3 = (self.bound - 1) if nblocks == 3 else None
                    if nblocks == 2 and not self.thorough and counts not in ((0, 0), (1, 0), (0, 1), (2, 1)):
                        b3 = self.bound - 1
                    bros = [[blk(19) for _ in range(c)] for c in counts]
                    add("adv-struct", True, blocks, bros, bound=b3)
                    if any(c == 2 for c in counts):
                        add("adv-struct", True, blocks, [list(reversed(b)) for b in bros],
                            bound=b3)
        # repeated entries: the same brother header twice, two headers of one uncle (they differ in
        # the merkle proof only, so their block hash is the same), the same block header at two
        # positions of the list with different brothers
        def twin(b):
            f = R.decode(bytes.fromhex(b["raw"]), strict=False)
            f[-2] = bytes(x ^ 0x5a for x in f[-2])
            t = dict(b)
            t["raw"] = R.encode(f).hex()
            return t
        one = [blk(20)]
        x, y = blk(19), blk(19)
        for bl in ([x, x], [x, y, x], [x, twin(x)], [twin(x), y, x], [y, y, y]):
            add("adv-dup", True, one, [bl], bound=self.bound - 1)
        # two headers of the same block hash that differ in the coinbase transaction (the hash does not
        # cover it): one request after the other on a long-lived manager (sequence cases), and as
        # block and brother of one request
        def cbtwin(b):
            other = blk(b["nf"])
            f = R.decode(bytes.fromhex(b["raw"]), strict=False)
            f[-1] = R.decode(bytes.fromhex(other["raw"]), strict=False)[-1]
            return dict(b, raw=R.encode(f).hex(), cb=other["cb"])
        t0 = blk(19)
        t1 = cbtwin(t0)
        add("adv-cbtwin", True, [t0], [[]], bound=1)
        add("adv-cbtwin", True, [t1], [[]], bound=1)
        add("adv-cbtwin", True, [t0], [[t1]], bound=1)
        b0, b1, b2 = blk(19), blk(20), blk(19)
        add("adv-repeat", True, [b0, b1, b0], [[x], [], [y]], bound=self.bound - 1)
        add("adv-repeat", True, [b0, b0], [[x, y], []], bound=self.bound - 1)
        add("adv-repeat", True, [b0, b1, b2, b1], [[], [x], [y], []], bound=1)
        add("upd-repeat", False, [b0, b1, b0], bound=self.bound - 1)
        # 5..10 brothers: rotations
        for nb in ((5, 10) if not self.thorough else (5, 7, 10)):
            bros = [blk(19) for _ in range(nb)]
            for rot in range(0, nb, 2 if nb > 5 else 1):
                add("adv-rot", True, [blk(20)], [bros[rot:] + bros[:rot]], bound=1)
        # long lists (the firmware takes any number of blocks; clients send dozens): 9, 12, 17 and
        # (thorough) 33, 130 blocks, the last ones with brothers; default device answers
        for nb in ((9, 12, 17) if not self.thorough else (9, 12, 17, 33, 130)):
            bl = [blk(19 + (i % 2)) for i in range(nb)]
            add("adv-many", True, bl, [[] for _ in range(nb - 2)] + [[blk(19)], [blk(19), blk(19)]], bound=0)
            add("upd-many", False, bl, bound=0)
        # ancestor update: 17..20 fields
        for nblocks in (1, 2, 3):
            for nfs in itertools.product((17, 18, 19, 20), repeat=nblocks):
                if nblocks == 3 and len(set(nfs)) < 2 and not self.thorough:
                    continue
                add("upd-struct", False, [blk(nf) for nf in nfs])
        # realistic sizes: chunking across several exchanges
        real = [blk(19, tiny=False), blk(20, tiny=False)]
        add("adv-real", True, real[:1], [[]], bound=self.bound - 1)
        add("adv-real", True, real, [[blk(19, tiny=False)], []], bound=self.bound - 1)
        add("upd-real", False, [blk(17, tiny=False), blk(20, tiny=False)], bound=self.bound - 1)
        # RLP form boundaries of a field and of the whole payload
        for fl in (0, 1, 55, 56, 255, 256):
            sz = tiny_sizes(19)
            sz[12] = fl
            add("adv-field", True, [blk(19, sizes=sz)], [[]], bound=self.bound - 1)
            add("upd-field", False, [blk(18, sizes=sz)], bound=self.bound - 1)
        for extra in (0x80,):
            sz = tiny_sizes(19)
            sz[12] = 1
            b = blk(19, sizes=sz)
            add("adv-field", True, [b], [[]], bound=1)
        for target in (55, 56, 255, 256, 65535):
            # tune field 12 so that the merge-mining payload hits the target length
            for nf, adv in ((19, True), (17, False)):
                sz = tiny_sizes(nf)
                lo = 0
                found = None
                for fl in range(max(0, target - 60), target + 1):
                    sz[12] = fl
                    raw, info = reqs.mk_block(Rng("c05-probe"), nf, sizes=sz)
                    if info["mm_payload_len"] == target:
                        found = fl
                        break
                if found is None:
                    continue
                sz[12] = found
                add("adv-payload" if adv else "upd-payload", adv, [blk(nf, sizes=sz)],
                    [[]] if adv else None, bound=1 if target < 1000 else 0)
        # coinbase variants
        for k in (1, 2, 3):
            for tail in (0, 1, 63, 64, 65):
                full = rng.bytes(64 * k + tail)
                add("adv-cb", True, [blk(19, cb_full=full, cb_k=k)], [[]], bound=1)
        # byte counters no real transaction reaches (the length field of the padding is 64 bits)
        from ..refs import sha256 as S
        for counter in (64, 2 ** 29 - 64, 2 ** 29, 2 ** 32, 2 ** 35 + 64, 2 ** 61 - 128):
            for tail in (0, 37, 64):
                st = struct.unpack(">8I", rng.bytes(32))
                raw = reqs.coinbase_from_midstate(counter, st, rng.bytes(tail))
                add("adv-cb-counter", True, [blk(19, cb_raw=raw)], [[]], bound=0)
        return cfgs

    def alphabets(self):
        kinds = {}
        for c in self.configs:
            kinds[c["kind"]] = kinds.get(c["kind"], 0) + 1
        return {"configs": kinds, "chunk_sizes": ["fw default min(rem,80)", 1, 7, 255, "rem", "rem+1"]}

    def cases(self):
        return ([{"kind": "config", "config": i} for i in range(len(self.configs))]
                + [{"kind": "sequence", "order": o} for o in range(4)])

    def sequence(self, case, stats):
        """the small configurations one after the other on ONE protocol + dongle object over a
        conforming device: what the device holds and the replies must equal those obtained on
        fresh objects (no state may leak from one request into the next)"""
        import copy
        from ..simdev.powhsm import PowHsm
        vs = []
        cfgs = [c for c in self.configs if c["kind"] in ("adv-struct", "upd-struct", "adv-cb", "adv-field",
                                                         "upd-field")][::3]
        cfgs += [c for c in self.configs if c["kind"] == "adv-cbtwin"]
        if case["order"] == 1:
            cfgs = cfgs[::-1]
        elif case["order"] == 2:
            cfgs = [c for pair in zip(cfgs, cfgs) for c in pair]

        def one(proto, dev, cfg, spoil=None):
            n = len(dev.held)
            if spoil is not None:
                # the same request met by a device that refuses it at exchange `spoil` (error status):
                # whatever the manager had in flight must not leak into the next request
                w = spoil[0]
                base = w.seq
                w.inject = lambda world, i, apdu: ("sw", 0x6B8F) if i - base == spoil[1] else None
                harness.handle_request(proto, copy.deepcopy(self.request_for(cfg)))
                w.inject = None
                dev.adv = None
                n = len(dev.held)
            reply, exc = harness.handle_request(proto, copy.deepcopy(self.request_for(cfg)))
            held = [(h[0], h[1], [(b["raw"], b["mm_len"], b["cb"], [(x["raw"], x["mm_len"], x["cb"])
                                                                 for x in b["brothers"]]) for b in h[2]])
                    for h in dev.held[n:]]
            return reply, exc, held
        fresh = []
        for cfg in cfgs:
            dev = PowHsm(seed=b"c05-seq")
            fresh.append(one(harness.make_protocol(World(dev)), dev, cfg))
        dev = PowHsm(seed=b"c05-seq")
        wl = World(dev)
        proto = harness.make_protocol(wl)
        for k, cfg in enumerate(cfgs):
            stats.evaluations += 1
            got = one(proto, dev, cfg, spoil=(wl, 2 + k % 4) if case["order"] == 3 else None)
            stats.observe(("sequence", case["order"], cfg["kind"], got == fresh[k]), nontrivial=True)
            if got != fresh[k]:
                vs.append(Violation("C05", "C05:history-dependence:%s" % cfg["kind"], dict(case, upto=k),
                                    None, {"position": k, "config": cfg["name"], "reply": got[0],
                                           "exc": got[1]},
                                    {"reply_on_fresh_objects": fresh[k][0]}, "history"))
                break
        return vs

    def request_for(self, cfg):
        if cfg["advance"]:
            return {"command": "advanceBlockchain", "version": 5,
                    "blocks": [b["raw"] for b in cfg["blocks"]],
                    "brothers": [[b["raw"] for b in bl] for bl in cfg["brothers"]]}
        return {"command": "updateAncestorBlock", "version": 5,
                "blocks": [b["raw"] for b in cfg["blocks"]]}

    def run_case(self, case, stats):
        import copy
        if case["kind"] == "sequence":
            return self.sequence(case, stats)
        cfg = self.configs[case["config"]]
        req = self.request_for(cfg)
        vs = []

        def run(ctx):
            dev = PolicyBlocks(ctx, cfg["advance"])
            w = World(dev, max_exchanges=5000)
            proto = harness.make_protocol(w)
            reply, exc = harness.handle_request(proto, copy.deepcopy(req))
            return dev, w, reply, exc

        def check(ctx, obs):
            c = dict(case)
            c["choices"] = list(ctx.choices)
            self.judge(cfg, ctx, obs, stats, vs, c)

        if "choices" in case:
            ctx, obs = run_once(run, case["choices"])
            check(ctx, obs)
            return vs
        bound = cfg["bound"] if cfg["bound"] is not None else self.bound
        explore(run, check, stats, bound=bound)
        return vs

    def replay(self, case, choices):
        from ..xplore import Stats
        c = dict(case)
        c["choices"] = list(choices or case.get("choices") or [])
        return self.run_case(c, Stats())

    def judge(self, cfg, ctx, obs, stats, vs, case):
        dev, w, reply, exc = obs
        name = cfg["kind"]

        def viol(clause, observed, expected):
            vs.append(Violation("C05", "C05:%s:%s" % (clause, name), case, list(ctx.choices),
                                observed, expected, clause))
        code = reply.get("errorcode") if isinstance(reply, dict) else None
        if exc is not None or not isinstance(code, int):
            viol("no-reply", {"reply": reply, "exc": exc}, "a reply with an integer errorcode")
            return
        if w.livelock:
            viol("livelock", {"exchanges": w.seq}, "termination")
            return
        if dev.errors:
            viol("protocol", {"errors": dev.errors}, "no APDU outside the dialogue")
        nblocks = len(cfg["blocks"])
        if dev.init != struct.pack(">I", nblocks):
            viol("count", {"init": dev.init}, {"init": struct.pack(">I", nblocks)})
        # expected sequence of headers given what the device asked for
        bi = -1
        bro_expected = {}
        bro_seen = {}
        for it in dev.items:
            if it["kind"] == "block":
                bi += 1
                if bi >= nblocks:
                    viol("extra-block", {"index": bi}, {"blocks": nblocks})
                    break
                b = cfg["blocks"][bi]
                want = bytes.fromhex(b["raw"] if cfg["advance"] else b["without_mm"])
                meta = struct.pack(">H", b["mm"]) + (bytes.fromhex(b["cb"]) if cfg["advance"] else b"")
                what = "block"
            else:
                lst = sorted(cfg["brothers"][bi], key=lambda x: bytes.fromhex(x["hash"]))
                j = bro_seen.get(bi, 0)
                bro_seen[bi] = j + 1
                if j >= len(lst):
                    viol("extra-brother", {"block": bi, "index": j}, {"brothers": len(lst)})
                    break
                b = lst[j]
                # brothers of equal hash may come in either order: take the one that is being sent
                used = bro_expected.setdefault(bi, set())
                ties = [k for k in range(len(lst)) if lst[k]["hash"] == b["hash"] and k not in used]
                pick = next((k for k in ties if bytes.fromhex(lst[k]["raw"])[:len(it["data"])] == it["data"]),
                            ties[0] if ties else j)
                used.add(pick)
                b = lst[pick]
                want = bytes.fromhex(b["raw"])
                meta = struct.pack(">H", b["mm"]) + bytes.fromhex(b["cb"])
                what = "brother"
            if it["meta"] != meta:
                viol("metadata-" + what, {"meta": it["meta"], "block": bi}, {"meta": meta})
            got = it["data"]
            if got != want[:len(got)]:
                viol("content-" + what, {"received": got, "block": bi}, {"prefix_of": want})
            elif len(got) != len(want) and not it.get("stopped_early"):
                viol("short-" + what, {"received": len(got)}, {"length": len(want)})
            off = 0
            for reqn, chunk in it["chunks"]:
                if chunk != want[off:off + reqn]:
                    viol("chunking-" + what, {"asked": reqn, "at": off, "got": chunk},
                         {"chunk": want[off:off + reqn]})
                    break
                off += len(chunk)
            if not cfg["advance"] and len(got) == len(want):
                # removal of the merge-mining fields must not change the block hash
                try:
                    f = R.decode(got, strict=False)
                    orig = R.decode(bytes.fromhex(b["raw"]), strict=False)
                    k = 17 if len(orig) in (18, 20) else 16
                    if keccak256(R.encode(f[:k + 1])) != bytes.fromhex(b["hash"]):
                        viol("hash-changed", {"sent": got}, {"hash": b["hash"]})
                except R.RlpError:
                    viol("hash-changed", {"sent": got}, "decodable header")
        for (blk_i, data) in dev.brother_counts:
            if blk_i < nblocks and data != bytes([len(cfg["brothers"][blk_i])]):
                viol("brother-count", {"block": blk_i, "count": data},
                     {"count": len(cfg["brothers"][blk_i])})
        fin = dev.final
        want_code = {"success": 0, "partial": 1}.get(fin)
        if want_code is not None:
            if code != want_code:
                viol("reply-code", {"errorcode": code, "device_final": fin}, {"errorcode": want_code})
        elif code in (0, 1):
            viol("success-unexpected", {"errorcode": code, "device_final": fin}, "an error code")
        if code not in (0, 1, -201, -202, -203, -204, -205, -901, -902, -903, -904, -905, -906):
            viol("undocumented-code", {"errorcode": code}, "documented code")
        stats.observe((name, len(dev.items), sum(1 for i in dev.items if i.get("stopped_early")),
                       len(dev.brother_counts), fin, code), nontrivial=any(ctx.choices))
        if any(ctx.choices):
            stats.sample({"config": cfg["name"], "choices": list(ctx.choices),
                          "labels": [p[1] for p in ctx.points], "reply": reply}, cap=3)


CHECK = C05
