"""C17 - signer authorizations contain what the device will check.

Exhaustive over the 65 536 iterations, bounded-exhaustive over menus of hash / iteration /
signature forms through every entry point of the tooling (SignerVersion, SignerAuthorization
constructor and JSON files, ``signapp message|key|manual|eth`` through main(), the
``authorize_signer`` admin command through adm_ledger.main()) against simulated UI devices
(threshold policies, faults at each exchange, a genuine N-of-M verifier) and a simulated
Ethereum app.  Oracle: own Keccak-256 + EIP-191 wrapping, own DER codec, libsecp256k1
verification of what the tool signed with the ``ecdsa`` package, the APDU log of the device.
"""
import itertools
import json
import os
import re

from ..framework import Check, Violation
from ..env import Rng, patched
from ..xplore import HarnessError
from ..refs.keccak import keccak256
from ..refs import ecsig
from ..gen import ihex
from .. import opstub
from ..simdev.base import World, HidStub
from ..simdev.uiadmin import UiAdmin, EthApp, MODE_BOOTLOADER, path_binary

PIN = "1234567a"
MALFORMED = ["trunc", "tag", "trail"]
EXTRA_MALFORMED = ["empty", "nonhex", "inttag", "seqlen", "number"]


# ---------------------------------------------------------------------------
# reference (oracle) side
# ---------------------------------------------------------------------------
def ref_text(hash32, n):
    return "RSK_powHSM_signer_%s_iteration_%d" % (bytes(hash32).hex(), n)


def ref_message(text):
    return b"\x19Ethereum Signed Message:\n" + str(len(text)).encode("ascii") + text.encode("ascii")


def ref_digest(hash32, n):
    return keccak256(ref_message(ref_text(hash32, n)))


def ref_printable(msg):
    """how a terminal-safe rendering of the message looks: \\x19 and \\n escaped"""
    return msg.decode("ascii").replace("\\", "\\\\").replace("\x19", "\\x19").replace("\n", "\\n")


_HEX64 = re.compile(r"[0-9a-fA-F]{64}")


def ref_hash(v):
    """('valid', bytes) | ('open', bytes) | ('refuse',)"""
    if not isinstance(v, str):
        return ("refuse",)
    if _HEX64.fullmatch(v):
        return ("valid", bytes.fromhex(v))
    stripped = "".join(v.split())
    if stripped[:2] in ("0x", "0X"):
        stripped = stripped[2:]
    if _HEX64.fullmatch(stripped):
        return ("open", bytes.fromhex(stripped))
    return ("refuse",)


def _dec(digits):
    """value of a string of decimal digits (any script), computed digit by digit"""
    import unicodedata
    n = 0
    for ch in digits:
        n = n * 10 + unicodedata.decimal(ch)
    return n


def ref_iteration(v):
    """('valid', n) | ('open', n) | ('refuse',)"""
    if isinstance(v, bool) or v is None:
        return ("refuse",)
    if isinstance(v, int):
        return ("valid", v) if 0 <= v <= 65535 else ("refuse",)
    if isinstance(v, float):
        return ("open", int(v)) if v.is_integer() and 0 <= v <= 65535 else ("refuse",)
    if not isinstance(v, str):
        return ("refuse",)
    if re.fullmatch(r"[0-9]+", v, re.ASCII):
        # a decimal string, zero-padded or not ("45", "0045"), denotes its decimal value
        n = _dec(v)
        return ("valid", n) if n <= 65535 else ("refuse",)
    if re.fullmatch(r"0x[0-9a-fA-F]+", v):
        n = int(v[2:], 16)
        return ("valid", n) if n <= 65535 else ("refuse",)
    # lenient readings the statement does not exclude (sign, blanks, digit separators,
    # leading zeros, upper-case prefix): open
    s = v.strip().replace("_", "")
    m = re.fullmatch(r"([+-]?)(\d+)", s)          # \d: also non-ASCII decimal digits
    if m:
        n = _dec(m.group(2))
        if m.group(1) == "-" and n != 0:
            return ("refuse",)
        return ("open", n) if 0 <= n <= 65535 else ("refuse",)
    m = re.fullmatch(r"[+]?0[xX]([0-9a-fA-F]+)", s)
    if m:
        n = int(m.group(1), 16)
        return ("open", n) if n <= 65535 else ("refuse",)
    return ("refuse",)


def corrupt(sig_hex, kind):
    b = bytes.fromhex(sig_hex)
    if kind == "valid":
        return sig_hex
    if kind == "trunc":
        return b[:-1].hex()
    if kind == "tag":
        return (b"\x31" + b[1:]).hex()
    if kind == "trail":
        return (b + b"\x00").hex()
    if kind == "empty":
        return ""
    if kind == "nonhex":
        return "zz" + sig_hex[2:]
    if kind == "inttag":
        return (b[:2] + b"\x03" + b[3:]).hex()
    if kind == "seqlen":
        return (b[:1] + bytes([b[1] + 1]) + b[2:]).hex()
    if kind == "number":
        return 12345
    raise AssertionError(kind)


# valid signatures whose DER encoding is shorter than the usual 70..72 bytes: (name, bytes of r,
# bytes of s).  r of 21 bytes is x((n+1)/2 * G); r of 31 bytes is found by grinding nonces; s is
# chosen freely and the signing key solved for (d = (s k - z) / r), so each has its own key.
SHORT_KINDS = [("r21-s32", 21, 32), ("r32-s20", 32, 20), ("r21-s20", 21, 20), ("r31-s32", 31, 32),
               ("r31-s27-len64", 31, 27), ("r31-s28-len65", 31, 28), ("r32-s31", 32, 31),
               ("r21-s1", 21, 1)]


def make_short_signature(h32, it, rlen, slen, rng):
    """(DER signature hex, private key bytes) valid for the authorization digest of (h32, it)"""
    N = ecsig.N
    z = int.from_bytes(ref_digest(h32, it), "big")
    while True:
        k = (N + 1) // 2 if rlen == 21 else int.from_bytes(rng.bytes(32), "big") % N
        if k == 0:
            continue
        r = int.from_bytes(ecsig.pub_of_libsecp(k.to_bytes(32, "big"))[1:33], "big") % N
        if r and len(ecsig._enc_int(r)) - 2 == rlen + (1 if rlen == 32 and r >> 255 else 0) and \
                (rlen != 32 or r >> 248):
            break
    while True:
        sv = int.from_bytes(rng.bytes(slen), "big")
        sv |= 1 << (8 * slen - 2)            # exact length, top bit clear (no padding byte)
        sv &= (1 << (8 * slen - 1)) - 1
        if 0 < sv <= N // 2:
            d = (sv * k - z) * pow(r, -1, N) % N
            if d:
                return ecsig.der_encode(r, sv).hex(), d.to_bytes(32, "big")


def hash_menu(rng):
    hs = [rng.bytes(32) for _ in range(4)]
    m = [("rnd%d" % i, h.hex()) for i, h in enumerate(hs)]
    m += [("zero", "00" * 32), ("ff", "ff" * 32), ("upper", hs[0].hex().upper()),
          ("mixed", hs[1].hex()[:32].upper() + hs[1].hex()[32:]),
          ("len31", hs[2].hex()[:62]), ("len33", hs[2].hex() + "ab"), ("odd63", hs[2].hex()[:63]),
          ("nonhex", "zz" + hs[3].hex()[2:]), ("empty", ""),
          ("blanks", " ".join("%02x" % b for b in hs[3])),
          ("blank-edges", " " + hs[3].hex() + "\n"),
          ("0x", "0x" + hs[3].hex()), ("null", None), ("number", 7),
          # 64 characters that encode only 31 (30) bytes: blanks counted as if they were digits
          ("chars64-31bytes-trail", hs[2].hex()[:62] + "  "), ("chars64-31bytes-lead", "  " + hs[2].hex()[:62]),
          ("chars64-31bytes-inner", hs[2].hex()[:31] + " " + hs[2].hex()[31:61] + " "),
          ("chars64-31bytes-tab", hs[2].hex()[:62] + "\t\n"), ("chars64-30bytes", hs[2].hex()[:30] + "  " + hs[2].hex()[30:60] + "  "),
          ("chars67-33bytes-blank", hs[2].hex() + " ab"),
          # 64 digits (a genuine 32-byte hash) plus blanks elsewhere: longer than 64 characters
          ("blank-pairs", " ".join(hs[3].hex()[i:i + 8] for i in range(0, 64, 8))),
          ("blank-tab-inner", hs[3].hex()[:32] + "\t" + hs[3].hex()[32:]),
          ("fullwidth-digits", hs[3].hex().translate({0x30 + i: 0xFF10 + i for i in range(10)})),
          ("0X", "0X" + hs[3].hex())]
    return m


ITER_MENU = [("0", 0), ("1", 1), ("255", 255), ("256", 256), ("65535", 65535), ("-1", -1),
             ("65536", 65536), ("2^31", 2 ** 31), ("s0", "0"), ("s65535", "65535"),
             ("s65536", "65536"), ("s0x0", "0x0"), ("s0xffff", "0xffff"), ("s0x10000", "0x10000"),
             ("s-1", "-1"), ("sempty", ""), ("s1e3", "1e3"), ("f1.0", 1.0), ("true", True),
             ("null", None), ("s+5", "+5"), ("s_7", " 7"), ("s1_0", "1_0"), ("s007", "007"),
             ("s0XFF", "0XFF"), ("s0x", "0x"), ("s-0", "-0"), ("s0x1_0", "0x1_0"),
             ("list", [1]), ("f65536.0", 65536.0),
             # zero-padded decimals are decimal strings (e.g. from printf %05d)
             ("s0045", "0045"), ("s09", "09"), ("s065535", "065535"), ("s00", "00"),
             ("s0000000001", "0000000001"), ("s065536", "065536"),
             ("s0x00ff", "0x00ff"), ("s0xFFFF", "0xFFFF"),
             # neither decimal nor 0x: binary / octal prefixes, exponent, hex without prefix
             ("s0b101", "0b101"), ("s0o17", "0o17"), ("s0B1", "0B1"), ("s0O7", "0O7"),
             ("sff", "ff"), ("s0x0x1", "0x0x1"), ("s1.0", "1.0"), ("s1 2", "1 2"),
             # non-ASCII decimal digits / trailing newline: the statement is silent
             ("sfullwidth45", "\uff14\uff15"), ("sarabic45", "\u0664\u0665"), ("s12nl", "12\n")]


def same_content(a, b):
    """two states of an authorization file say the same (byte-equal, or equal as JSON
    documents: a refusing tool may re-save what it loaded)"""
    if a == b:
        return True
    try:
        return json.loads(a) == json.loads(b)
    except Exception:   # noqa
        return False


class Args(dict):
    __getattr__ = dict.get


class C17(Check):
    id = "C17"
    level = "exploration"
    rule = ("all 65 536 iterations (int, decimal string, zero-padded decimal, 0x string, padded 0x string) with seeded hashes (quick: one hash "
            "per block of 1024; thorough: each of 4 hashes); the full "
            "product of an 18-entry hash menu and a 30-entry iteration menu through the "
            "constructor, through authorization files and (strings) through signapp's argv; all "
            "vectors of 0..4 (quick) / 0..6 full + 7..10 with <=2 defects (thorough) signatures over "
            "{valid, truncated, wrong tag, trailing byte} plus single extra defects, plus valid "
            "signatures with short r / s (DER length 28..69, each under its own key; also the tool's "
            "own short signature under a ground randomness stream and the Ethereum app's), each through "
            "constructor, add_signature, file load and save/load; signapp message (output path absent / holding an "
            "older authorization with 0 or 2 signatures / garbage), key, manual, eth "
            "through main(); authorize_signer through adm_ledger.main() against threshold devices "
            "(k = 1..n, never; also files with 8..12 signatures, around the UI's maximum of 10 "
            "authorizers, with k = n-2, n-1, n, never), every fault kind at every exchange of the authorization dialogue, "
            "and a genuine N-of-M device; every route also with -v/--verbose.  Distinct = (route, input classes, verdict, device log shape).")
    assumptions = [
        "hash and key byte values are seeded, not enumerated; the structure of the menus is fixed",
        "the UI device is a model read off firmware/src/ledger/ui/src/signer_authorization.c; the "
        "Ethereum app model wraps and hashes the message itself (EIP-191) as the real app does",
        "lenient spellings the statement does not mention (0x-prefixed or blank-separated hashes, "
        "signed / padded / underscore iterations, float 1.0) may be refused or accepted; when "
        "accepted the text must still be built from the 32 bytes / the integer value",
        "high-S signatures are accepted by the oracle (normalised before libsecp256k1 verification)",
        "os.urandom is a seeded stream while the ecdsa package signs",
    ]
    trusted_base = ["verif/refs/keccak.py", "verif/refs/ecsig.py (own DER codec)", "libsecp256k1",
                    "verif/simdev/uiadmin.py device models", "verif/gen/ihex.py image writer"]

    # -- setup ----------------------------------------------------------------
    def prepare(self):
        from .. import harness  # noqa: F401  (imports the middleware with the shim in place)
        opstub.init_session("c17")
        import admin.signer_authorization as SA
        import admin.misc
        import admin.dongle_eth
        import admin.dongle_admin
        import ledger.hsm2dongle as H
        import ledger.hsm2dongle_tcp as HT
        import signapp
        import adm_ledger
        self.SA, self.H, self.HT = SA, H, HT
        self.signapp, self.adm_ledger = signapp, adm_ledger
        self.misc, self.dongle_eth, self.dongle_admin = admin.misc, admin.dongle_eth, admin.dongle_admin
        rng = Rng("c17")
        self.hmenu = hash_menu(rng)
        self.hashes = [bytes.fromhex(self.hmenu[i][1]) for i in range(4)]
        self.nkeys = 10
        self.keys = [ecsig.seeded_scalar(rng) for _ in range(self.nkeys + 2)]
        self.pubs = [ecsig.pub_of_libsecp(k) for k in self.keys]
        self.maxsig = 10 if self.thorough else 4
        # short-but-valid signatures for (hashes[0], iteration 77), each under its own key
        self.short = {}
        self.short_sig = {}
        r3 = Rng("c17-short")
        for name, rl, sl in SHORT_KINDS:
            sig, priv = make_short_signature(self.hashes[0], 77, rl, sl, r3)
            pub = ecsig.pub_of_libsecp(priv)
            raw = bytes.fromhex(sig)
            if not (ecsig.is_strict_der(raw) and ecsig.verify_libsecp(pub, ref_digest(self.hashes[0], 77), raw)
                    and ecsig.verify_ecdsa_pkg(pub, ref_digest(self.hashes[0], 77), raw)):
                raise HarnessError("constructed short signature %s does not verify" % name)
            self.keys.append(priv)
            self.pubs.append(pub)
            self.short[name] = len(self.keys) - 1
            self.short_sig[len(self.keys) - 1] = sig

        # calibration of the reference on the example of docs/signer-authorization.md
        h = bytes.fromhex("e1baa18564fc0c2c70ac4019609c6db643adbf12711c8b319f838e6a74b0da2c")
        doc = ("\x19Ethereum Signed Message:\n95RSK_powHSM_signer_e1baa18564fc0c2c70ac4019609c6db6"
               "43adbf12711c8b319f838e6a74b0da2c_iteration_45").encode()
        if ref_message(ref_text(h, 45)) != doc:
            raise HarnessError("reference message differs from docs/signer-authorization.md")
        if keccak256(b"").hex() != "c5d2460186f7233c927e7db2dcc703c0e500b653ca82273b7bfad8045d85a470":
            raise HarnessError("reference Keccak-256 self-test failed")
        # two application images for the signapp routes
        r2 = Rng("c17-apps")
        self.apps = [ihex.build((300, 17), (4096,), "cross", r2.bytes),
                     ihex.build((16,), (), "low", r2.bytes)]
        # the second image is ground until its SHA-256 starts with a 00 byte (leading zeros
        # must survive every conversion of the hash)
        for i in range(100000):
            cand = ihex.build((16,), (), "low", Rng("c17-app1-%d" % i).bytes)
            if ihex.reference_hash(cand)[0] == 0:
                self.apps[1] = cand
                break
        self.app_text = [ihex.write(self.apps[0], policy=32, order=[1, 0]),
                         ihex.write(self.apps[1], policy=16)]
        self.app_hash = [ihex.reference_hash(a) for a in self.apps]
        self._sigcache = {}
        # a randomness stream under which the ecdsa package itself produces a short signature
        # (what `signapp key` will write), and an iteration for which the Ethereum app does
        import ecdsa
        self.grind = None
        sk = ecdsa.SigningKey.from_string(self.keys[0], curve=ecdsa.SECP256k1)
        for i in range(4000):
            label = "c17-grind-%d" % i
            sg = sk.sign_digest(ref_digest(self.app_hash[0], 5), entropy=opstub.ByteStream(label),
                                sigencode=ecdsa.util.sigencode_der)
            if len(sg) <= 69:
                self.grind = label
                break
        # ... and an iteration for which the (deterministic) Ethereum app model signs short
        self.eth_short_iter = None
        ethk = EthApp(seed=b"c17eth").key(path_binary("m/44'/60'/0'/0/0", "big", with_len=False))[0]
        for it in range(1, 3000):
            if len(ecsig.sign_libsecp(ethk, ref_digest(self.app_hash[0], it))) <= 69:
                self.eth_short_iter = it
                break

    def bounds(self):
        return {"iterations": "0..65535 all", "signatures": "0..%d" % self.maxsig,
                "hash_menu": len(self.hmenu), "iteration_menu": len(ITER_MENU),
                "authorizer_sets": "M = 3, 4, 5 (threshold M//2+1)"}

    def alphabets(self):
        return {"hash": [n for n, _ in self.hmenu], "iteration": [n for n, _ in ITER_MENU],
                "signature": ["valid"] + [k for k, _, _ in SHORT_KINDS] + MALFORMED + EXTRA_MALFORMED,
                "faults": ["sw6a01", "sw6a03", "sw6a04", "sw6985", "timeout", "read", "write"]}

    def cases(self):
        cs = []
        for blk in range(64):
            for h in (range(4) if self.thorough else [blk % 4]):
                cs.append({"kind": "iters", "lo": blk * 1024, "hi": blk * 1024 + 1024, "h": h})
        for hi in range(len(self.hmenu)):
            cs.append({"kind": "menu", "h": hi})
        full = 6 if self.thorough else 4
        for n in range(0, full + 1):
            if n <= 2:
                cs.append({"kind": "sigvec", "n": n, "first": None})
            else:
                for f in range(4):
                    for g in range(4):
                        cs.append({"kind": "sigvec", "n": n, "first": [f, g]})
        if self.thorough:
            for n in range(7, 11):
                cs.append({"kind": "sigvec-sparse", "n": n})
        cs.append({"kind": "sig-extra"})
        cs.append({"kind": "sig-short"})
        cs.append({"kind": "dev-short"})
        cs.append({"kind": "filedefects"})
        for n in range(0, self.maxsig + 1):
            cs.append({"kind": "dev-threshold", "n": n})
            cs.append({"kind": "dev-faults", "n": n})
        for n in (8, 9, 10, 11, 12):
            cs.append({"kind": "dev-many", "n": n})
        for m in (3, 4, 5):
            cs.append({"kind": "dev-genuine", "m": m})
        cs.append({"kind": "dev-openhash"})
        for it in range(len(ITER_MENU)):
            cs.append({"kind": "signapp-message", "it": it})
        for m in range(0, 5):
            cs.append({"kind": "signapp-key", "m": m})
        cs.append({"kind": "signapp-keyforms"})
        cs.append({"kind": "signapp-manual"})
        cs.append({"kind": "signapp-eth"})
        return cs

    # -- helpers ----------------------------------------------------------------
    def viol(self, vs, clause, detail, route, args, observed, expected):
        vs.append(Violation("C17", "C17:%s:%s" % (clause, detail),
                            {"kind": "one", "route": route, "args": args}, None,
                            observed, expected, clause))

    def sig_by(self, key_idx, hash32, n):
        if key_idx in self.short_sig and bytes(hash32) == self.hashes[0] and n == 77:
            return self.short_sig[key_idx]
        k = (key_idx, bytes(hash32), n)
        if k not in self._sigcache:
            self._sigcache[k] = ecsig.sign_libsecp(self.keys[key_idx], ref_digest(hash32, n)).hex()
        return self._sigcache[k]

    def run_case_single(self, case, choices, stats):
        return self.run_case(case, stats)

    def run_case(self, case, stats):
        vs = []
        with opstub.TempDir("c17") as td:
            self.td = td
            k = case["kind"]
            if k == "one":
                getattr(self, "x_" + case["route"])(Args(case["args"]), stats, vs)
            else:
                getattr(self, "case_" + k.replace("-", "_"))(case, stats, vs)
        return vs

    # =========================================================================
    # route sv: SignerVersion(hash, iteration)
    # =========================================================================
    def x_sv(self, a, stats, vs):
        """args: hash (json), iter (json), hname, iname"""
        stats.evaluations += 1
        rh, ri = ref_hash(a.hash), ref_iteration(a.iter)
        try:
            sv = self.SA.SignerVersion(a.hash, a.iter)
            err = None
        except Exception as e:   # noqa
            sv, err = None, type(e).__name__
        verdict = self.judge_sv(sv, err, rh, ri, a, "sv", vs, stats)
        stats.observe(("sv", a.hname, a.iname, err, verdict))
        stats.sample({"route": "sv", "hash": a.hash, "iteration": a.iter, "refused": err})

    def judge_sv(self, sv, err, rh, ri, a, route, vs, stats):
        """Shared verdict on a constructed (or refused) signer version."""
        args = dict(a)
        cls = "%s/%s" % (a.hname, a.iname)
        if rh[0] == "refuse" or ri[0] == "refuse":
            if err is None:
                self.viol(vs, "malformed-accepted",
                          "%s:%s" % (route, a.hname if rh[0] == "refuse" else a.iname), route, args,
                          {"msg": sv.msg}, {"refused": "malformed %s" %
                                            ("hash" if rh[0] == "refuse" else "iteration")})
            return "refuse"
        open_ = rh[0] == "open" or ri[0] == "open"
        if open_:
            stats.dont_care += 1
        if err is not None:
            if not open_:
                # name the element of non-trivial spelling: the iteration when it is a string
                culprit = a.iname if isinstance(a.iter, str) else cls
                self.viol(vs, "wellformed-refused", "%s:%s" % (route, culprit), route, args,
                          {"error": err}, {"text": ref_text(rh[1], ri[1])})
            return "refused-open" if open_ else "refused"
        h32, n = rh[1], ri[1]
        text = ref_text(h32, n)
        hk = a.hname if rh[0] == "open" else ("hash-" + rh[0])
        ik = a.iname if ri[0] == "open" else ("iter-" + ri[0])
        if a.hname in ("blanks", "blank-edges"):
            hk = "hash-with-blanks"
        if rh[0] == "open":
            ik = "any-iteration"
        if sv.msg != text:
            self.viol(vs, "text", "%s:%s" % (hk, ik), route, args,
                      {"text": sv.msg}, {"text": text})
        # wrapping and hashing are judged on the text the tool produced, so that one wrong
        # text is reported once (under "text") and not three times
        try:
            base = sv.msg if isinstance(sv.msg, str) else text
            want_msg = ref_message(base)
        except UnicodeError:
            want_msg = ref_message(text)
        msg = sv.get_authorization_msg()
        if msg != want_msg:
            self.viol(vs, "wrapped-message", "%s:%s" % (hk, ik), route, args,
                      {"message": msg}, {"message": want_msg})
        dg = sv.get_authorization_digest()
        if dg != keccak256(want_msg):
            self.viol(vs, "digest", "%s:%s" % (hk, ik), route, args,
                      {"digest": dg}, {"digest": keccak256(want_msg)})
        if sv.iteration != n or type(sv.iteration) is not int:
            self.viol(vs, "iteration-value", "%s:%s" % (hk, ik), route, args,
                      {"iteration": sv.iteration}, {"iteration": n})
        try:
            hb = bytes.fromhex(sv.hash)
        except Exception:   # noqa
            hb = None
        if hb != h32:
            self.viol(vs, "hash-value", "%s:%s" % (hk, ik), route, args,
                      {"hash": sv.hash}, {"hash": h32.hex()})
        return "ok-open" if open_ else "ok"

    def case_iters(self, case, stats, vs):
        h = self.hashes[case["h"]]
        hs = h.hex()
        SV = self.SA.SignerVersion
        for n in range(case["lo"], case["hi"]):
            stats.evaluations += 1
            text = ref_text(h, n)
            want_msg = ref_message(text)
            want_dg = keccak256(want_msg)
            bad = None
            try:
                sv = SV(hs, n)
                if sv.msg != text:
                    bad = ("text", sv.msg, text)
                elif sv.get_authorization_msg() != want_msg:
                    bad = ("wrapped-message", sv.get_authorization_msg(), want_msg)
                elif sv.get_authorization_digest() != want_dg:
                    bad = ("digest", sv.get_authorization_digest(), want_dg)
                elif sv.iteration != n:
                    bad = ("iteration-value", sv.iteration, n)
                else:
                    for form in (str(n), hex(n), "%06d" % n, "0x%06X" % n):
                        stats.evaluations += 1
                        s2 = SV(hs, form)
                        if s2.msg != text or s2.iteration != n:
                            bad = ("text", s2.msg, text)
            except Exception as e:   # noqa
                bad = ("wellformed-refused", type(e).__name__ + ": " + str(e), text)
            ndig = len(str(n))
            stats.observe(("iters", case["h"], ndig, n in (0, 255, 256, 65535), bad is None))
            if n % 1024 == 0:
                stats.sample({"route": "iters", "hash": hs, "iteration": n, "text": text})
            if bad:
                self.viol(vs, bad[0], "iters:digits%d" % ndig, "sv",
                          {"hash": hs, "iter": n, "hname": "rnd%d" % case["h"], "iname": str(n)},
                          {bad[0]: bad[1]}, {bad[0]: bad[2]})

    def case_menu(self, case, stats, vs):
        hname, hval = self.hmenu[case["h"]]
        for iname, ival in ITER_MENU:
            a = Args(hash=hval, iter=ival, hname=hname, iname=iname)
            self.x_sv(a, stats, vs)
            self.x_file(Args(doc={"version": 1, "signer": {"hash": hval, "iteration": ival},
                                  "signatures": []}, hname=hname, iname=iname, skind="none"),
                        stats, vs)

    # =========================================================================
    # route file: authorization file -> from_jsonfile -> save -> load
    # =========================================================================
    def x_file(self, a, stats, vs):
        """args: doc (json document or raw text under 'raw'), hname, iname, skind"""
        stats.evaluations += 1
        SA = self.SA
        path = self.td.file("auth.json")
        text = a.raw if a.raw is not None else json.dumps(a.doc)
        self.td.write("auth.json", text)
        doc = a.doc
        # reference verdict
        wf = self.ref_doc(doc) if a.raw is None else ("refuse", "not JSON / not an object")
        try:
            sa = SA.SignerAuthorization.from_jsonfile(path)
            err = None
        except Exception as e:   # noqa
            sa, err = None, type(e).__name__
        args = dict(a)
        cls = "%s/%s/%s" % (a.hname, a.iname, a.skind)
        stats.observe(("file", a.hname, a.iname, a.skind, err, wf[0]))
        stats.sample({"route": "file", "doc": text[:300], "refused": err})
        if wf[0] == "refuse":
            if err is None:
                self.viol(vs, "malformed-accepted", "file:%s" % wf[1], "file", args,
                          {"loaded": sa.to_dict()}, {"refused": wf[1]})
            return
        if wf[0] == "open":
            stats.dont_care += 1
            if err is not None:
                return
        if err is not None:
            it = (a.doc or {}).get("signer", {}).get("iteration") if isinstance(a.doc, dict) and \
                isinstance(a.doc.get("signer"), dict) else None
            self.viol(vs, "wellformed-refused", "file:%s" % (a.iname if isinstance(it, str) and
                                                            a.skind == "none" else cls),
                      "file", args, {"error": err},
                      {"loaded": True})
            return
        rh, ri = ref_hash(doc["signer"]["hash"]), ref_iteration(doc["signer"]["iteration"])
        self.judge_sv(sa.signer_version, None, rh, ri, Args(hash=doc["signer"]["hash"],
                      iter=doc["signer"]["iteration"], hname=a.hname, iname=a.iname,
                      doc=a.doc, skind=a.skind), "file", vs, stats)
        if sa.signatures != doc["signatures"]:
            self.viol(vs, "signatures-loaded", cls, "file", args, {"signatures": sa.signatures},
                      {"signatures": doc["signatures"]})
        # save / load cycle
        p2 = self.td.file("auth2.json")
        try:
            sa.save_to_jsonfile(p2)
            sb = SA.SignerAuthorization.from_jsonfile(p2)
            d1, d2 = sa.to_dict(), sb.to_dict()
            saved = json.loads(self.td.read("auth2.json"))
        except Exception as e:   # noqa
            self.viol(vs, "save-load", "file:%s:%s" % (cls, type(e).__name__), "file", args,
                      {"error": repr(e)}, {"load(save(x))": "x"})
            return
        if d1 != d2 or sb.signatures != sa.signatures or sb.signer_version.msg != sa.signer_version.msg:
            self.viol(vs, "save-load", "file:%s" % cls, "file", args, {"reloaded": d2}, {"original": d1})
        ok_saved = (isinstance(saved, dict) and saved.get("version") == 1
                    and isinstance(saved.get("signer"), dict)
                    and ref_hash(saved["signer"].get("hash"))[0] != "refuse"
                    and ref_hash(saved["signer"].get("hash"))[1] == rh[1]
                    and saved["signer"].get("iteration") == sa.signer_version.iteration
                    and saved.get("signatures") == doc["signatures"])
        if not ok_saved:
            self.viol(vs, "saved-content", "file:%s" % cls, "file", args, {"saved": saved},
                      {"hash": rh[1].hex(), "iteration": ri[1], "signatures": doc["signatures"]})

    def ref_doc(self, doc):
        """well-formedness of an authorization document per the statement"""
        if not isinstance(doc, dict):
            return ("refuse", "top-level")
        # the statement speaks of hash, iteration and signatures only: any other value of
        # "version" than the integer 1 leaves the verdict open
        opened = type(doc.get("version")) is not int or doc.get("version") != 1
        sg = doc.get("signer")
        if not isinstance(sg, dict) or "hash" not in sg or "iteration" not in sg:
            return ("refuse", "signer")
        rh, ri = ref_hash(sg["hash"]), ref_iteration(sg["iteration"])
        if rh[0] == "refuse":
            return ("refuse", "hash")
        if ri[0] == "refuse":
            return ("refuse", "iteration")
        sigs = doc.get("signatures")
        if not isinstance(sigs, list):
            return ("refuse", "signatures")
        opened = opened or rh[0] == "open" or ri[0] == "open"
        for s in sigs:
            if not isinstance(s, str):
                return ("refuse", "signature")
            compact = "".join(s.split())
            if compact != s:
                opened = True           # blank-separated hex: the statement is silent
            try:
                raw = bytes.fromhex(compact) if re.fullmatch(r"[0-9a-fA-F]*", compact, re.ASCII) else None
            except ValueError:
                raw = None
            if raw is None:
                return ("refuse", "signature")
            if not ecsig.is_strict_der(raw):
                return ("refuse", "signature")
            if s != s.lower():
                opened = True
        return ("open", "lenient") if opened else ("valid", "")

    # =========================================================================
    # route sigs: vectors of signatures through constructor / add_signature / file
    # =========================================================================
    def x_sigs(self, a, stats, vs):
        """args: h (index), it, kinds [..], keys [key index per signature] (default 0, 1, 2...)"""
        SA = self.SA
        h, it, kinds = self.hashes[a.h], a.it, a.kinds
        keyidx = a["keys"] if a.get("keys") else list(range(len(kinds)))
        sigs = [corrupt(self.sig_by(keyidx[i], h, it), kd) for i, kd in enumerate(kinds)]
        bad = [i for i, kd in enumerate(kinds) if kd != "valid"]
        sv = SA.SignerVersion(h.hex(), it)
        args = dict(a)
        shape = (len(kinds), tuple(sorted(set(kinds))), bad[:1])
        # constructor
        stats.evaluations += 1
        try:
            sa = SA.SignerAuthorization(sv, list(sigs))
            err = None
        except Exception as e:   # noqa
            sa, err = None, type(e).__name__
        stats.observe(("sigs-ctor", shape, err))
        stats.sample({"route": "sigs", "kinds": kinds, "refused": err})
        if bad and err is None:
            self.viol(vs, "malformed-accepted", "ctor:signature-%s" % kinds[bad[0]], "sigs", args,
                      {"accepted": sigs[bad[0]]}, {"refused": "malformed signature"})
        if not bad and err is not None:
            self.viol(vs, "wellformed-refused", "ctor:signatures%d" % len(kinds), "sigs", args,
                      {"error": err}, {"accepted": True})
        if not bad and err is None and sa.signatures != sigs:
            self.viol(vs, "signatures-loaded", "ctor", "sigs", args, {"signatures": sa.signatures},
                      {"signatures": sigs})
        # add_signature one by one: the first malformed one must be refused, state unchanged
        stats.evaluations += 1
        sb = SA.SignerAuthorization.for_signer_version(sv)
        added = []
        for i, s in enumerate(sigs):
            before = sb.signatures
            try:
                sb.add_signature(s)
                e2 = None
            except Exception as e:   # noqa
                e2 = type(e).__name__
            if kinds[i] == "valid":
                if e2 is not None:
                    self.viol(vs, "wellformed-refused", "add_signature", "sigs", args,
                              {"error": e2}, {"accepted": s})
                added.append(s)
            else:
                if e2 is None:
                    self.viol(vs, "malformed-accepted", "add_signature:signature-%s" % kinds[i],
                              "sigs", args, {"accepted": s}, {"refused": "malformed signature"})
                    added.append(s)
                elif sb.signatures != before:
                    self.viol(vs, "refusal-changed-state", "add_signature", "sigs", args,
                              {"signatures": sb.signatures}, {"signatures": before})
        if sb.signatures != added:
            self.viol(vs, "signatures-loaded", "add_signature-order", "sigs", args,
                      {"signatures": sb.signatures}, {"signatures": added})
        stats.observe(("sigs-add", shape, len(added)))
        # through a file (covers load and the save/load cycle)
        if all(isinstance(s, str) for s in sigs):
            self.x_file(Args(doc={"version": 1, "signer": {"hash": h.hex(), "iteration": it},
                                  "signatures": sigs}, hname="rnd%d" % a.h, iname=str(it),
                             skind="n%d:%s" % (len(kinds), kinds[bad[0]] if bad else "valid")),
                        stats, vs)

    def case_sigvec(self, case, stats, vs):
        n = case["n"]
        menu = ["valid"] + MALFORMED
        first = case["first"] or []
        for rest in itertools.product(range(4), repeat=n - len(first)):
            kinds = [menu[i] for i in list(first) + list(rest)]
            self.x_sigs(Args(h=n % 4, it=[1, 255, 256, 65535, 0][n % 5], kinds=kinds), stats, vs)

    def case_sigvec_sparse(self, case, stats, vs):
        n = case["n"]
        self.x_sigs(Args(h=n % 4, it=n, kinds=["valid"] * n), stats, vs)
        for i in range(n):
            for kd in MALFORMED:
                kinds = ["valid"] * n
                kinds[i] = kd
                self.x_sigs(Args(h=n % 4, it=n, kinds=kinds), stats, vs)
        for i, j in itertools.combinations(range(n), 2):
            for kd, ke in itertools.product(MALFORMED, repeat=2):
                kinds = ["valid"] * n
                kinds[i], kinds[j] = kd, ke
                self.x_sigs(Args(h=n % 4, it=n, kinds=kinds), stats, vs)

    def case_sig_extra(self, case, stats, vs):
        for n in (1, 2, 3):
            for pos in range(n):
                for kd in EXTRA_MALFORMED:
                    kinds = ["valid"] * n
                    kinds[pos] = kd
                    if kd == "number":
                        # only expressible in a file
                        h, it = self.hashes[0], 9
                        sigs = [corrupt(self.sig_by(i, h, it), k2) for i, k2 in enumerate(kinds)]
                        self.x_file(Args(doc={"version": 1, "signer": {"hash": h.hex(), "iteration": it},
                                              "signatures": sigs}, hname="rnd0", iname="9",
                                         skind="n%d:number" % n), stats, vs)
                    else:
                        self.x_sigs(Args(h=0, it=9, kinds=kinds), stats, vs)

    def case_sig_short(self, case, stats, vs):
        """valid signatures with short r and / or s: alone, at each position among ordinary ones,
        all together, and next to a malformed one"""
        names = [k for k, _, _ in SHORT_KINDS]
        for kd in names:
            self.x_sigs(Args(h=0, it=77, kinds=["valid"], keys=[self.short[kd]], short=kd), stats, vs)
            for pos in range(3):
                keys = [0, 1, 2]
                keys[pos] = self.short[kd]
                self.x_sigs(Args(h=0, it=77, kinds=["valid"] * 3, keys=keys, short=kd), stats, vs)
                for bad in MALFORMED:
                    kinds = ["valid"] * 3
                    kinds[(pos + 1) % 3] = bad
                    self.x_sigs(Args(h=0, it=77, kinds=kinds, keys=keys, short=kd), stats, vs)
        self.x_sigs(Args(h=0, it=77, kinds=["valid"] * len(names), keys=[self.short[k] for k in names],
                         short="all"), stats, vs)

    def case_dev_short(self, case, stats, vs):
        """authorization files holding short signatures reach the device unchanged"""
        names = [k for k, _, _ in SHORT_KINDS]
        idx = [self.short[k] for k in names]
        for i in range(len(idx)):
            trio = [idx[i], idx[(i + 1) % len(idx)], idx[(i + 3) % len(idx)]]
            doc = self.auth_doc(0, 77, trio)
            for k in (1, 2, 3, 4):
                self.x_dev(Args(doc=doc, policy={"kind": "threshold", "k": k}), stats, vs)
            self.x_dev(Args(doc=doc, policy={"kind": "genuine", "auth": trio}), stats, vs)
            self.x_dev(Args(doc=self.auth_doc(0, 77, [0, idx[i], 1]),
                            policy={"kind": "genuine", "auth": [0, 1, idx[i]]}), stats, vs)
        doc = self.auth_doc(0, 77, idx)
        self.x_dev(Args(doc=doc, policy={"kind": "threshold", "k": len(idx)}), stats, vs)
        self.x_dev(Args(doc=doc, policy={"kind": "genuine", "auth": idx}), stats, vs)

    def case_filedefects(self, case, stats, vs):
        h, it = self.hashes[1], 300
        good = {"version": 1, "signer": {"hash": h.hex(), "iteration": it},
                "signatures": [self.sig_by(0, h, it), self.sig_by(1, h, it)]}

        def variant(name, f):
            d = json.loads(json.dumps(good))
            f(d)
            self.x_file(Args(doc=d, hname="rnd1", iname="300", skind=name), stats, vs)
        variant("asis", lambda d: None)
        variant("version2", lambda d: d.update(version=2))
        variant("version0", lambda d: d.update(version=0))
        variant("version-string", lambda d: d.update(version="1"))
        variant("version-true", lambda d: d.update(version=True))
        variant("version-missing", lambda d: d.pop("version"))
        variant("signer-missing", lambda d: d.pop("signer"))
        variant("signer-list", lambda d: d.update(signer=[h.hex(), it]))
        variant("hash-missing", lambda d: d["signer"].pop("hash"))
        variant("iteration-missing", lambda d: d["signer"].pop("iteration"))
        variant("signatures-missing", lambda d: d.pop("signatures"))
        variant("signatures-string", lambda d: d.update(signatures=d["signatures"][0]))
        variant("signatures-object", lambda d: d.update(signatures={"0": d["signatures"][0]}))
        variant("signatures-null", lambda d: d.update(signatures=None))
        variant("signature-null", lambda d: d["signatures"].append(None))
        variant("signature-upper", lambda d: d["signatures"].__setitem__(0, d["signatures"][0].upper()))
        variant("extra-key", lambda d: d.update(comment="x"))
        variant("signature-blanks", lambda d: d["signatures"].__setitem__(
            0, " ".join(d["signatures"][0][i:i + 2] for i in range(0, len(d["signatures"][0]), 2))))
        variant("signature-fullwidth", lambda d: d["signatures"].__setitem__(
            0, d["signatures"][0].translate({0x30 + i: 0xFF10 + i for i in range(10)})))
        variant("iteration-padded-string", lambda d: d["signer"].update(iteration="000300"))
        for name, raw in (("toplist", json.dumps([good])), ("topstring", json.dumps("x")),
                          ("notjson", "{version: 1}"), ("emptyfile", ""), ("truncated", json.dumps(good)[:-5])):
            self.x_file(Args(raw=raw, doc=None, hname="rnd1", iname="300", skind=name), stats, vs)
        # absent file
        stats.evaluations += 1
        try:
            self.SA.SignerAuthorization.from_jsonfile(self.td.file("does-not-exist.json"))
            self.viol(vs, "malformed-accepted", "file:absent", "file", {}, {"loaded": True},
                      {"refused": "no such file"})
        except Exception as e:   # noqa
            stats.observe(("file-absent", type(e).__name__))

    # =========================================================================
    # route dev: authorize_signer through adm_ledger.main() against a UI device
    # =========================================================================
    def seams(self, world, extra=()):
        # library-level seams: hold for `from x import y`, `import x; x.y(...)` and renamed imports
        return opstub.seam_dongle(world.get_dongle) + opstub.seam_getpass(self.no_getpass) + list(extra)

    @staticmethod
    def no_getpass(prompt=""):
        raise opstub.OperatorGone("getpass")

    def x_dev(self, a, stats, vs):
        """args: doc (authorization document), policy: {"kind": "threshold", "k": int}
        | {"kind": "fault", "at": j, "fault": name, "k": int} | {"kind": "genuine", "auth": [key idx]}
        """
        stats.evaluations += 1
        doc, pol = a.doc, a.policy
        path = self.td.write("auth.json", json.dumps(doc))
        authorizers = [self.pubs[i] for i in pol.get("auth", [])]
        dev = UiAdmin(seed=b"c17", mode=MODE_BOOTLOADER, onboarded=True, pin=PIN.encode(),
                      authorizers=authorizers)
        if pol["kind"] != "genuine":
            k = pol["k"]
            dev.q_sigauth = lambda index, sig: index == k
            dev.current_signer = (bytes(32), -1)      # pure threshold policy: any iteration
        w = World(dev)
        if pol["kind"] == "fault":
            at, fault = pol["at"], pol["fault"]
            seen = [0]

            def inject(world, idx, apdu):
                if len(apdu) > 1 and apdu[1] == 0x51:
                    seen[0] += 1
                    if seen[0] - 1 == at:
                        if fault.startswith("sw"):
                            return ("sw", int(fault[2:], 16))
                        return (fault,)
                return None
            w.inject = inject
        r = opstub.run_main(self.adm_ledger.main,
                            ["adm_ledger.py", "authorize_signer", "-z", path, "-p", PIN] +
                            (["-v", "-e"] if a.verbose else []),
                            patches=self.seams(w))
        sent = [e for e in w.exchanges() if len(e[2]) > 1 and e[2][0] == 0x80 and e[2][1] == 0x51]
        log = [e[2] for e in sent]
        # reference: what must be on the wire
        wf = self.ref_doc(doc)
        args = dict(a)
        pk = pol["kind"] + (":" + pol.get("fault", "") if pol["kind"] == "fault" else "")
        if wf[0] == "refuse":
            stats.observe(("dev", "malformed-file", wf[1], r.code, len(log)))
            if log or r.code == 0:
                self.viol(vs, "malformed-accepted", "authorize:%s" % wf[1], "dev", args,
                          {"exit": r.code, "apdus": log}, {"exit": "nonzero", "apdus": []})
            return
        if wf[0] == "open":
            stats.dont_care += 1
            if not log and r.code not in (0, None):
                stats.observe(("dev", "open-refused", wf[1], r.code))
                return
        h32 = ref_hash(doc["signer"]["hash"])[1]
        n_it = ref_iteration(doc["signer"]["iteration"])[1]
        sigs = [bytes.fromhex(s) for s in doc["signatures"]]
        first = b"\x80\x51\x01" + h32 + n_it.to_bytes(2, "big")
        want = [first]
        authorized_at = None
        fault_hit = False
        if pol["kind"] == "genuine":
            # the device is the arbiter; the reference recomputes its verdicts independently
            verified = set()
            dg = ref_digest(h32, n_it)
            if n_it == 0:
                fault_hit = True          # iteration not above the device's current one
            else:
                for i, s in enumerate(sigs):
                    want.append(b"\x80\x51\x02" + s)
                    for ai in pol["auth"]:
                        if ecsig.verify_ecdsa_pkg(self.pubs[ai], dg, s):
                            verified.add(ai)
                            break
                    if len(verified) >= len(pol["auth"]) // 2 + 1:
                        authorized_at = i + 1
                        break
        else:
            k = pol["k"]
            at = pol["at"] if pol["kind"] == "fault" else None
            if at == 0:
                fault_hit = True
            else:
                for i, s in enumerate(sigs):
                    want.append(b"\x80\x51\x02" + s)
                    if at is not None and i + 1 == at:
                        fault_hit = True
                        break
                    if i + 1 == k:
                        authorized_at = i + 1
                        break
        fault_at = 0 if fault_hit else None
        should_succeed = authorized_at is not None and fault_at is None
        dev_ok = any(True for _ in dev.authorized)
        stats.observe(("dev", pk, len(sigs), authorized_at, fault_at, r.code, len(log)))
        stats.sample({"route": "dev", "policy": pol, "nsigs": len(sigs), "exit": r.code,
                      "apdus": [x.hex()[:24] for x in log]})
        if r.gone or r.exc:
            self.viol(vs, "tool-crash", "authorize:%s" % pk, "dev", args,
                      {"exc": r.exc, "gone": r.gone}, {"exit": "0 or nonzero"})
            return
        if log != want:
            detail = "first" if (log[:1] != want[:1]) else \
                ("short" if len(log) < len(want) else ("long" if len(log) > len(want) else "content"))
            self.viol(vs, "device-log", "%s:%s" % (pol["kind"], detail), "dev", args,
                      {"apdus": log}, {"apdus": want})
        if should_succeed and r.code != 0:
            self.viol(vs, "authorized-but-failed", pk, "dev", args,
                      {"exit": r.code, "out": r.out[-300:]}, {"exit": 0})
        if not should_succeed and r.code == 0:
            self.viol(vs, "never-authorized-but-succeeded", pk, "dev", args,
                      {"exit": r.code, "device_authorized": dev_ok}, {"exit": "nonzero"})
        if pol["kind"] != "fault" and log == want and (authorized_at is not None) != dev_ok:
            raise HarnessError("device model and reference disagree on authorization: %r" % (args,))

    def auth_doc(self, hidx, it, key_idxs, hash_str=None):
        h = self.hashes[hidx]
        return {"version": 1, "signer": {"hash": hash_str or h.hex(), "iteration": it},
                "signatures": [self.sig_by(i, h, it) for i in key_idxs]}

    def case_dev_threshold(self, case, stats, vs):
        n = case["n"]
        for it in (1, 255, 256, 65535, 0):
            doc = self.auth_doc(n % 4, it, list(range(n)))
            for k in range(1, n + 2):
                self.x_dev(Args(doc=doc, policy={"kind": "threshold", "k": k}), stats, vs)
                if it == 255:
                    self.x_dev(Args(doc=doc, policy={"kind": "threshold", "k": k}, verbose=True), stats, vs)
        # malformed files never reach the device
        if n >= 1:
            for kd in MALFORMED:
                doc = self.auth_doc(0, 5, list(range(n)))
                doc["signatures"][n - 1] = corrupt(doc["signatures"][n - 1], kd)
                self.x_dev(Args(doc=doc, policy={"kind": "threshold", "k": 1}), stats, vs)
        else:
            for iname, ival in ITER_MENU:
                if ref_iteration(ival)[0] == "refuse":
                    doc = self.auth_doc(0, 5, [0, 1])
                    doc["signer"]["iteration"] = ival
                    self.x_dev(Args(doc=doc, policy={"kind": "threshold", "k": 1}), stats, vs)
            for hname, hval in self.hmenu:
                if ref_hash(hval)[0] == "refuse":
                    doc = self.auth_doc(0, 5, [0, 1])
                    doc["signer"]["hash"] = hval
                    self.x_dev(Args(doc=doc, policy={"kind": "threshold", "k": 1}), stats, vs)

    def case_dev_many(self, case, stats, vs):
        """signature counts around the UI's maximal number of authorizers (10): every signature
        of the file reaches the device until it reports the signer authorized"""
        n = case["n"]
        for it in (1, 65535):
            doc = self.auth_doc(n % 4, it, list(range(n)))
            for k in sorted({1, 2, n // 2 + 1, n - 2, n - 1, n, n + 1}):
                self.x_dev(Args(doc=doc, policy={"kind": "threshold", "k": k}, verbose=(k == n)), stats, vs)
            self.x_dev(Args(doc=doc, policy={"kind": "genuine", "auth": list(range(n))}), stats, vs)
            # a genuine device that needs the LAST signature: the earlier ones are by outsiders
            # (duplicates of one authorizer count once)
            if n >= 3:
                doc2 = self.auth_doc(n % 4, it, [0] * (n - 2) + [1, 2])
                self.x_dev(Args(doc=doc2, policy={"kind": "genuine", "auth": [0, 1, 2, 3, 4]}), stats, vs)
        for fault in ("sw6a04", "timeout"):
            for at in (n - 1, n):
                self.x_dev(Args(doc=self.auth_doc(n % 4, 300, list(range(n))),
                                policy={"kind": "fault", "k": n, "at": at, "fault": fault}), stats, vs)

    def case_dev_faults(self, case, stats, vs):
        n = case["n"]
        doc = self.auth_doc(n % 4, 258, list(range(n)))
        for fault in ("sw6a01", "sw6a03", "sw6a04", "sw6985", "timeout", "read", "write"):
            for k in sorted({1, n, n + 1} - {0}):
                for at in range(0, min(k, n) + 1):
                    self.x_dev(Args(doc=doc, policy={"kind": "fault", "k": k, "at": at,
                                                     "fault": fault}), stats, vs)

    def case_dev_genuine(self, case, stats, vs):
        m = case["m"]
        auth = list(range(m))
        outsider = [self.nkeys, self.nkeys + 1]
        thr = m // 2 + 1
        pol = {"kind": "genuine", "auth": auth}
        seqs = []
        for r in range(0, min(m, 4) + 1):
            for sub in itertools.permutations(auth, r):
                if r <= 2 or sub == tuple(sorted(sub)) or sub == tuple(sorted(sub, reverse=True)):
                    seqs.append(list(sub))
        seqs += [[outsider[0]] + auth[:thr], auth[:thr - 1] + [outsider[0], auth[thr - 1]],
                 [auth[0], auth[0]] + auth[1:thr], [outsider[0], outsider[1]],
                 [auth[0]] * thr, auth + outsider]
        for it in (1, 65535):
            for seq in seqs:
                self.x_dev(Args(doc=self.auth_doc(m % 4, it, seq), policy=pol, verbose=it == 65535),
                           stats, vs)
        # signatures over another digest (other iteration / little-endian confusion) do not count
        h = self.hashes[m % 4]
        doc = self.auth_doc(m % 4, 258, auth[:thr])
        doc["signatures"][0] = self.sig_by(auth[0], h, 513)
        self.x_dev(Args(doc=doc, policy=pol), stats, vs)
        doc = self.auth_doc(m % 4, 258, auth)
        doc["signatures"][0] = self.sig_by(auth[0], h, 513)
        self.x_dev(Args(doc=doc, policy=pol), stats, vs)
        # iteration 0 is never above the device's current iteration
        self.x_dev(Args(doc=self.auth_doc(m % 4, 0, auth), policy=pol), stats, vs)

    def case_dev_openhash(self, case, stats, vs):
        """hash spellings the loader may accept: what the device receives must be the 32 bytes,
        and signatures over the reference digest must be what a genuine device accepts"""
        h = self.hashes[3]
        for hname, hval in self.hmenu:
            if ref_hash(hval)[0] == "refuse":
                continue
            hb = ref_hash(hval)[1]
            hidx = [i for i in range(4) if self.hashes[i] == hb]
            if not hidx:
                continue
            for it in (7, 65535):
                doc = self.auth_doc(hidx[0], it, [0, 1, 2], hash_str=hval)
                self.x_dev(Args(doc=doc, policy={"kind": "threshold", "k": 2}), stats, vs)
                self.x_dev(Args(doc=doc, policy={"kind": "genuine", "auth": [0, 1, 2]}), stats, vs)
        del h
        # the generator signing into an existing file that spells the hash leniently
        for hname, hval in self.hmenu:
            if ref_hash(hval)[0] == "valid" or not isinstance(hval, str):
                continue
            for it in (7, 65535):
                self.x_signapp_key_existing(Args(hash=hval, hname=hname, iter=it, key=1), stats, vs)

    def x_signapp_key_existing(self, a, stats, vs):
        """args: hash (string as written in an existing file), hname, iter, key"""
        stats.evaluations += 1
        doc = {"version": 1, "signer": {"hash": a.hash, "iteration": a.iter}, "signatures": []}
        outp = self.td.write("auth.json", json.dumps(doc))
        held = self.td.read("auth.json")
        r = self.run_signapp(["key", "-o", outp, "-k", self.keys[a.key].hex()])
        if ref_hash(a.hash)[0] == "refuse":
            # a malformed hash in the existing file: nothing is signed, the file stays as it was
            stats.observe(("signapp-key-existing-malformed", a.hname, r.code))
            if r.code == 0 or not same_content(self.td.read("auth.json"), held):
                self.viol(vs, "malformed-accepted", "signapp-key-existing-file:%s" % a.hname,
                          "signapp_key_existing", dict(a), {"exit": r.code, "file": self.td.read("auth.json")},
                          {"exit": "nonzero", "file": "unchanged"})
            return
        stats.dont_care += 1
        h32 = ref_hash(a.hash)[1]
        try:
            d = json.loads(self.td.read("auth.json"))
        except Exception:   # noqa
            d = None
        stats.observe(("signapp-key-existing", a.hname, r.code))
        if r.code != 0:
            return                      # refusing a lenient spelling is allowed
        hk = "hash-with-blanks" if a.hname.startswith("blank") else a.hname
        try:
            raw = bytes.fromhex(d["signatures"][-1])
        except Exception:   # noqa
            raw = b""
        if not ecsig.verify_libsecp(self.pubs[a.key], ref_digest(h32, a.iter), raw):
            self.viol(vs, "signature-verifies", "signapp-key-existing-file:%s" % hk,
                      "signapp_key_existing", dict(a), {"signature": raw, "file": d},
                      {"verifies_for_digest": ref_digest(h32, a.iter).hex(),
                       "text": ref_text(h32, a.iter)})

    # =========================================================================
    # route signapp: the authorization generator through main()
    # =========================================================================
    def run_signapp(self, argv, world=None, stream="c17-urandom", verbose=False):
        argv = list(argv) + (["-v"] if verbose else [])
        patches = opstub.seam_urandom(opstub.ByteStream(stream))
        if world is not None:
            patches += self.seams(world)
        return opstub.run_main(self.signapp.main, ["signapp.py"] + argv, patches=patches)

    def x_signapp_message(self, a, stats, vs):
        """args: app (0/1), iter (string), iname, out (bool), pre: what the output path holds
        from an earlier step (None | "old0" | "old2": authorization of the OTHER image with
        another iteration and 0 / 2 signatures | "garbage")"""
        stats.evaluations += 1
        app = self.td.write("app%d.hex" % a.app, self.app_text[a.app])
        h32 = self.app_hash[a.app]
        ri = ref_iteration(a.iter)
        argv = ["message", "-a", app, "-i", a.iter]
        outp = self.td.file("out.json")
        if os.path.exists(outp):
            os.unlink(outp)
        if a.pre in ("old0", "old2"):
            oh, oit = self.app_hash[1 - a.app], 4242
            old = {"version": 1, "signer": {"hash": oh.hex(), "iteration": oit},
                   "signatures": [ecsig.sign_libsecp(self.keys[i], ref_digest(oh, oit)).hex()
                                  for i in range(2 if a.pre == "old2" else 0)]}
            self.td.write("out.json", json.dumps(old, indent=2) + "\n")
        elif a.pre == "garbage":
            self.td.write("out.json", "not an authorization\n")
        before = self.td.read("out.json")
        if a.out:
            argv += ["-o", outp]
        r = self.run_signapp(argv, verbose=bool(a.verbose))
        args = dict(a)
        saved = self.td.read("out.json")
        stats.observe(("signapp-message", a.iname, bool(a.out), a.pre, r.code, saved is not None,
                       saved == before))
        if a.pre and (ri[0] == "refuse" or not a.out):
            # a refused or print-only call leaves the earlier file alone
            if not same_content(saved, before):
                self.viol(vs, "refusal-changed-state", "signapp-message:existing-file",
                          "signapp_message", args, {"file": saved}, {"file": before})
            if ri[0] == "refuse":
                if r.code == 0:
                    self.viol(vs, "malformed-accepted", "signapp-message:%s" % a.iname,
                              "signapp_message", args, {"exit": r.code}, {"exit": "nonzero"})
                return
        stats.sample({"route": "signapp-message", "argv": argv[3:], "exit": r.code,
                      "stdout": r.out[-200:]})
        if r.exc or r.gone:
            self.viol(vs, "tool-crash", "signapp-message", "signapp_message", args,
                      {"exc": r.exc}, {"exit": "0 or 1"})
            return
        if ri[0] == "refuse":
            if r.code == 0 or saved is not None:
                self.viol(vs, "malformed-accepted", "signapp-message:%s" % a.iname,
                          "signapp_message", args, {"exit": r.code, "file": saved, "out": r.out[-200:]},
                          {"exit": "nonzero", "file": None})
            return
        if ri[0] == "open":
            stats.dont_care += 1
            if r.code != 0:
                return
        if r.code != 0:
            self.viol(vs, "wellformed-refused", "signapp-message:%s" %
                      ("over-existing-file" if a.pre else a.iname), "signapp_message",
                      args, {"exit": r.code, "out": r.out[-300:]}, {"exit": 0})
            return
        text = ref_text(h32, ri[1])
        if not a.out:
            want = ref_printable(ref_message(text))
            if want not in r.out:
                self.viol(vs, "text", "signapp-message-printed:%s" %
                          (a.iname if ri[0] == "open" else "iter-valid"), "signapp_message", args,
                          {"stdout": r.out[-300:]}, {"line": want})
        else:
            try:
                d = json.loads(saved)
            except Exception:   # noqa
                d = None
            want = {"version": 1, "signer": {"hash": h32.hex(), "iteration": ri[1]}, "signatures": []}
            if a.pre:
                # the file must now speak about THIS image and iteration, whatever it held before
                if not isinstance(d, dict) or d.get("signer") != want["signer"]:
                    self.viol(vs, "saved-content", "signapp-message-over-existing-file",
                              "signapp_message", args, {"file": saved, "held_before": before},
                              {"signer": want["signer"]})
            elif d != want:
                self.viol(vs, "saved-content", "signapp-message-file", "signapp_message", args,
                          {"file": saved}, {"file": want})

    def case_signapp_message(self, case, stats, vs):
        iname, ival = ITER_MENU[case["it"]]
        if not isinstance(ival, str):
            ival = {True: "true", None: "null"}.get(ival, str(ival)) if not isinstance(ival, list) \
                else "[1]"
            iname = "argv-" + iname
        for app in (0, 1):
            for out in (False, True):
                for pre in (None, "old0", "old2", "garbage"):
                    self.x_signapp_message(Args(app=app, iter=ival, iname=iname, out=out, pre=pre),
                                           stats, vs)
                self.x_signapp_message(Args(app=app, iter=ival, iname=iname, out=out, pre=None,
                                            verbose=True), stats, vs)
        if case["it"] == 0:
            # missing arguments
            for argv in (["message"], ["message", "-i", "1"], ["message", "-a", self.td.file("nope.hex"),
                         "-i", "1"], ["key", "-a", "x", "-i", "1", "-k", self.keys[0].hex()],
                         ["manual", "-o", self.td.file("o.json")], ["eth"], ["frobnicate"]):
                stats.evaluations += 1
                if "-a" in argv and argv[argv.index("-a") + 1] == "x":
                    argv[argv.index("-a") + 1] = self.td.write("app0.hex", self.app_text[0])
                r = self.run_signapp(argv)
                stats.observe(("signapp-usage", argv[0], len(argv), r.code))
                if r.code == 0 or r.exc:
                    self.viol(vs, "malformed-accepted", "signapp-usage:%s" % argv[0],
                              "signapp_usage", {"argv": argv}, {"exit": r.code, "exc": r.exc},
                              {"exit": "nonzero"})

    def x_signapp_usage(self, a, stats, vs):
        stats.evaluations += 1
        r = self.run_signapp(a.argv)
        if r.code == 0 or r.exc:
            self.viol(vs, "malformed-accepted", "signapp-usage:%s" % a.argv[0], "signapp_usage",
                      dict(a), {"exit": r.code, "exc": r.exc}, {"exit": "nonzero"})

    def x_signapp_key(self, a, stats, vs):
        """args: app, iter (string), keys [idx...] added one after the other, then the file is
        authorized on a genuine device whose authorizers are exactly those keys"""
        app = self.td.write("app%d.hex" % a.app, self.app_text[a.app])
        h32 = self.app_hash[a.app]
        n_it = ref_iteration(a.iter)[1]
        dg = ref_digest(h32, n_it)
        outp = self.td.file("auth.json")
        if os.path.exists(outp):
            os.unlink(outp)
        args = dict(a)
        if not a["keys"]:
            stats.evaluations += 1
            r = self.run_signapp(["message", "-a", app, "-i", a.iter, "-o", outp])
        for j, ki in enumerate(a["keys"]):
            stats.evaluations += 1
            argv = ["key", "-o", outp, "-k", self.keys[ki].hex()]
            if j == 0:
                argv += ["-a", app, "-i", a.iter]
            elif j % 2 == 0:
                # later calls: app/iteration given again are ignored in favour of the file
                argv += ["-a", self.td.write("other.hex", self.app_text[1 - a.app]), "-i", "9"]
            r = self.run_signapp(argv, stream=a.stream or "c17-k%d-%d" % (ki, j), verbose=bool(a.verbose))
            try:
                d = json.loads(self.td.read("auth.json") or "null")
            except Exception:   # noqa
                d = None
            stats.observe(("signapp-key", j, r.code, isinstance(d, dict) and len(d.get("signatures", []))))
            if r.code != 0 or r.exc or not isinstance(d, dict):
                self.viol(vs, "wellformed-refused", "signapp-key:call%d" % min(j, 2), "signapp_key",
                          args, {"exit": r.code, "exc": r.exc, "out": r.out[-300:]}, {"exit": 0})
                return
            sg = d.get("signatures")
            if (d.get("signer") != {"hash": h32.hex(), "iteration": n_it} or not isinstance(sg, list)
                    or len(sg) != j + 1):
                self.viol(vs, "saved-content", "signapp-key:call%d" % min(j, 2), "signapp_key", args,
                          {"file": d}, {"signer": {"hash": h32.hex(), "iteration": n_it},
                                        "signatures": j + 1})
                return
            try:
                raw = bytes.fromhex(sg[j])
            except Exception:   # noqa
                raw = b""
            if not ecsig.is_strict_der(raw) or not ecsig.verify_libsecp(self.pubs[ki], dg, raw):
                self.viol(vs, "signature-verifies", "signapp-key", "signapp_key", args,
                          {"signature": sg[j], "key": self.pubs[ki].hex()},
                          {"verifies_for_digest": dg.hex()})
                return
            _, s_val = ecsig.der_decode(raw)
            if s_val > ecsig.N // 2:
                stats.dont_care += 1           # high-S: accepted here, see assumptions
        stats.sample({"route": "signapp-key", "keys": a["keys"], "iteration": a.iter})
        # end to end: a genuine device with these authorizers accepts the produced file
        d = json.loads(self.td.read("auth.json"))
        uniq = []
        for ki in a["keys"]:
            if ki not in uniq:
                uniq.append(ki)
        if uniq and n_it > 0:
            self.x_dev(Args(doc=d, policy={"kind": "genuine", "auth": uniq}), stats, vs)

    def case_signapp_key(self, case, stats, vs):
        m = case["m"]
        its = ["1", "65535", "0x100", "0"] if m else ["0", "65535"]
        for app in (0, 1):
            for it in its:
                self.x_signapp_key(Args(app=app, iter=it, keys=list(range(m)), verbose=it == "65535"),
                                   stats, vs)
        if m == 1 and self.grind:
            # the randomness under which the tool's own signature comes out short
            self.x_signapp_key(Args(app=0, iter="5", keys=[0], stream=self.grind), stats, vs)
        if m == 3:
            self.x_signapp_key(Args(app=0, iter="77", keys=[2, 0, 1]), stats, vs)
            self.x_signapp_key(Args(app=0, iter="77", keys=[4, 4, 5]), stats, vs)

    def x_signapp_keyform(self, a, stats, vs):
        """args: key (string), kname, expect valid|refuse|open, pre (the output file already holds
        an authorization with one signature: a refusal leaves it as it was)"""
        stats.evaluations += 1
        app = self.td.write("app0.hex", self.app_text[0])
        outp = self.td.file("auth.json")
        if os.path.exists(outp):
            os.unlink(outp)
        if a.pre:
            self.td.write("auth.json", json.dumps(
                {"version": 1, "signer": {"hash": self.app_hash[0].hex(), "iteration": 3},
                 "signatures": [ecsig.sign_libsecp(self.keys[5], ref_digest(self.app_hash[0], 3)).hex()]},
                indent=2) + "\n")
        held = self.td.read("auth.json")
        argv = ["key", "-o", outp, "-a", app, "-i", "3"] + (["-k", a.key] if a.key is not None else [])
        r = self.run_signapp(argv, verbose=bool(a.verbose))
        saved = self.td.read("auth.json")
        if a.pre:
            if r.code != 0 and not same_content(saved, held):
                self.viol(vs, "refusal-changed-state", "signapp-key:existing-file:%s" % a.kname,
                          "signapp_keyform", dict(a), {"exit": r.code, "file": saved}, {"file": held})
            if a.expect == "refuse" and r.code == 0:
                self.viol(vs, "malformed-accepted", "signapp-key:%s" % a.kname, "signapp_keyform", dict(a),
                          {"exit": r.code}, {"exit": "nonzero"})
            stats.observe(("signapp-keyform-existing", a.kname, r.code))
            if a.expect == "open":
                stats.dont_care += 1
            return
        stats.observe(("signapp-keyform", a.kname, r.code, saved is not None))
        args = dict(a)
        if a.expect == "open":
            stats.dont_care += 1
        if r.exc:
            self.viol(vs, "tool-crash", "signapp-keyform:%s" % a.kname, "signapp_keyform", args,
                      {"exc": r.exc}, {"exit": "0 or 1"})
            return
        if a.expect == "refuse" and (r.code == 0 or saved is not None):
            self.viol(vs, "malformed-accepted", "signapp-key:%s" % a.kname, "signapp_keyform", args,
                      {"exit": r.code, "file": saved}, {"exit": "nonzero", "file": None})
        if a.expect == "valid" and r.code != 0:
            self.viol(vs, "wellformed-refused", "signapp-key:%s" % a.kname, "signapp_keyform", args,
                      {"exit": r.code, "out": r.out[-200:]}, {"exit": 0})
        if r.code == 0 and a.expect != "refuse":
            d = json.loads(saved)
            priv = bytes.fromhex(a.key[2:] if a.key.startswith("0x") else a.key)
            raw = bytes.fromhex(d["signatures"][0])
            if not ecsig.verify_libsecp(ecsig.pub_of_libsecp(priv), ref_digest(self.app_hash[0], 3), raw):
                self.viol(vs, "signature-verifies", "signapp-key:%s" % a.kname, "signapp_keyform",
                          args, {"signature": raw}, {"verifies": True})

    def case_signapp_keyforms(self, case, stats, vs):
        k = self.keys[0].hex()
        forms = [("lower", k, "valid"), ("upper", k.upper(), "valid"), ("0x", "0x" + k, "open"),
                 ("len31", k[:62], "refuse"), ("len33", k + "00", "refuse"), ("nonhex", "zz" + k[2:], "refuse"),
                 ("zero", "00" * 32, "refuse"), ("order", "%064x" % ecsig.N, "refuse"),
                 ("above-order", "ff" * 32, "refuse"), ("one", "%064x" % 1, "valid"),
                 ("order-1", "%064x" % (ecsig.N - 1), "valid"), ("absent", None, "refuse"),
                 ("empty", "", "refuse")]
        for kname, key, expect in forms:
            self.x_signapp_keyform(Args(key=key, kname=kname, expect=expect), stats, vs)
            self.x_signapp_keyform(Args(key=key, kname=kname, expect=expect, pre=True), stats, vs)

    def x_signapp_manual(self, a, stats, vs):
        """args: nsig (already in the file), kind of the signature given with -g"""
        stats.evaluations += 1
        h, it = self.hashes[2], 1000
        doc = self.auth_doc(2, it, list(range(a.nsig)))
        if a.short:
            # a valid signature with short r / s, into a file that may already hold short ones
            h, it = self.hashes[0], 77
            doc = self.auth_doc(0, it, [self.short[k] for k in (a.held or [])] + list(range(a.nsig)))
        outp = self.td.write("auth.json", json.dumps(doc, indent=2) + "\n")
        before = self.td.read("auth.json")
        sig = corrupt(self.sig_by(self.short[a.short] if a.short else a.nsig, h, it), a.skind) \
            if a.skind != "absent" else None
        argv = ["manual", "-o", outp] + (["-g", sig] if a.skind != "absent" else [])
        r = self.run_signapp(argv, verbose=bool(a.verbose))
        after = self.td.read("auth.json")
        args = dict(a)
        stats.observe(("signapp-manual", a.nsig, a.skind, a.short, r.code, after == before))
        if r.exc:
            self.viol(vs, "tool-crash", "signapp-manual:%s" % a.skind, "signapp_manual", args,
                      {"exc": r.exc}, {"exit": "0 or 1"})
            return
        if a.skind == "valid":
            want = dict(doc)
            want["signatures"] = doc["signatures"] + [sig]
            try:
                got = json.loads(after)
            except Exception:   # noqa
                got = None
            if r.code != 0 or got != want:
                self.viol(vs, "saved-content", "signapp-manual", "signapp_manual", args,
                          {"exit": r.code, "file": got}, {"exit": 0, "file": want})
        else:
            if r.code == 0 or not same_content(after, before):
                self.viol(vs, "malformed-accepted", "signapp-manual:signature-%s" % a.skind,
                          "signapp_manual", args, {"exit": r.code, "file": after},
                          {"exit": "nonzero", "file": "unchanged"})

    def case_signapp_manual(self, case, stats, vs):
        for nsig in range(0, 4):
            for kd in ["valid"] + MALFORMED + ["empty", "nonhex", "inttag", "seqlen", "absent"]:
                self.x_signapp_manual(Args(nsig=nsig, skind=kd, verbose=nsig % 2 == 1), stats, vs)
        names = [k for k, _, _ in SHORT_KINDS]
        for i, kd in enumerate(names):
            self.x_signapp_manual(Args(nsig=i % 3, skind="valid", short=kd, held=names[:i % 4]), stats, vs)
        # manual on an absent / malformed file
        for name, content in (("absent", None), ("malformed", "{}")):
            stats.evaluations += 1
            p = self.td.file("m.json")
            if os.path.exists(p):
                os.unlink(p)
            if content is not None:
                self.td.write("m.json", content)
            r = self.run_signapp(["manual", "-o", p, "-g", self.sig_by(0, self.hashes[0], 1)])
            stats.observe(("signapp-manual-file", name, r.code))
            if r.code == 0 or r.exc:
                self.viol(vs, "malformed-accepted", "signapp-manual:file-%s" % name, "signapp_usage",
                          {"argv": ["manual", "-o", p, "-g", "00"]}, {"exit": r.code, "exc": r.exc},
                          {"exit": "nonzero"})

    def x_signapp_eth(self, a, stats, vs):
        """args: app, iter, path (or None), nsig (existing), mode: ok|pubkey|wrongmsg|wrongkey|
        sw-pub|sw-sign|wrongapp|locked"""
        stats.evaluations += 1
        app = self.td.write("app%d.hex" % a.app, self.app_text[a.app])
        h32 = self.app_hash[a.app]
        n_it = ref_iteration(a.iter)[1]
        outp = self.td.file("auth.json")
        if os.path.exists(outp):
            os.unlink(outp)
        pre = None
        if a.nsig:
            pre = {"version": 1, "signer": {"hash": h32.hex(), "iteration": n_it},
                   "signatures": [ecsig.sign_libsecp(self.keys[i], ref_digest(h32, n_it)).hex()
                                  for i in range(a.nsig)]}
            self.td.write("auth.json", json.dumps(pre))
        before = self.td.read("auth.json")
        eth = EthApp(seed=b"c17eth")
        mode = a.mode
        if mode == "wrongmsg":
            eth.sign_other_message = True
        if mode == "wrongkey":
            eth.sign_other_key = True
        if mode == "sw-pub":
            eth.sw_for[0x02] = 0x6A15
        if mode == "sw-sign":
            eth.sw_for[0x08] = 0x6985
        if mode == "locked":
            eth.sw_for[0x02] = 0x6B0C
        if mode == "wrongapp":
            eth.wrong_app = True
        w = World(eth)
        pathspec = a.path or "m/44'/60'/0'/0/0"
        pbe = path_binary(pathspec, "big", with_len=False)
        argv = ["eth", "-o", outp] + (["-p", a.path] if a.path else [])
        if mode == "pubkey":
            argv += ["-b"]
        else:
            argv += ["-a", app, "-i", a.iter]
        r = self.run_signapp(argv, world=w, verbose=bool(a.verbose))
        after = self.td.read("auth.json")
        args = dict(a)
        apdus = w.apdus()
        stats.observe(("signapp-eth", mode, a.nsig, bool(a.path), r.code, len(apdus), after == before))
        stats.sample({"route": "signapp-eth", "mode": mode, "exit": r.code,
                      "apdus": [x.hex()[:40] for x in apdus]})
        if r.exc:
            self.viol(vs, "tool-crash", "signapp-eth:%s" % mode, "signapp_eth", args,
                      {"exc": r.exc}, {"exit": "0 or 1"})
            return
        pub = eth.key(pbe)[1]
        if mode == "pubkey":
            if r.code != 0 or (after or "").strip() != pub.hex():
                self.viol(vs, "eth-pubkey", "signapp-eth", "signapp_eth", args,
                          {"exit": r.code, "file": after}, {"file": pub.hex()})
            return
        if mode != "ok":
            if r.code == 0 or not same_content(after, before):
                self.viol(vs, "bad-device-signature-accepted" if mode.startswith("wrong") and
                          mode != "wrongapp" else "device-error-ignored", "signapp-eth:%s" % mode,
                          "signapp_eth", args, {"exit": r.code, "file": after},
                          {"exit": "nonzero", "file": "unchanged"})
            return
        text = ref_text(h32, n_it)
        try:
            d = json.loads(after)
            sg = d["signatures"]
        except Exception:   # noqa
            d, sg = None, []
        if r.code != 0 or d is None or len(sg) != a.nsig + 1 or \
                d.get("signer") != {"hash": h32.hex(), "iteration": n_it} or \
                (pre is not None and sg[:-1] != pre["signatures"]):
            self.viol(vs, "saved-content", "signapp-eth", "signapp_eth", args,
                      {"exit": r.code, "file": after, "out": r.out[-300:]},
                      {"exit": 0, "signatures": a.nsig + 1})
            return
        raw = bytes.fromhex(sg[-1])
        if not ecsig.is_strict_der(raw) or not ecsig.verify_libsecp(pub, ref_digest(h32, n_it), raw):
            self.viol(vs, "signature-verifies", "signapp-eth", "signapp_eth", args,
                      {"signature": sg[-1]}, {"verifies_under": pub.hex()})
        signed = [q for q in eth.requests if q[0] == "sign"]
        if len(signed) != 1 or signed[0][1] != pbe or signed[0][2] != text.encode("ascii"):
            self.viol(vs, "text", "signapp-eth-sent-to-app", "signapp_eth", args,
                      {"requests": [(q[0], q[1].hex(), q[2:]) for q in eth.requests]},
                      {"sign": text, "path": pbe.hex()})

    def case_signapp_eth(self, case, stats, vs):
        for app in (0, 1):
            for it in ("1", "65535", "0x1f", "0"):
                for nsig in (0, 1, 3):
                    for path in (None, "m/44'/60'/0'/0/1", "m/44'/137'/0'/0/0"):
                        self.x_signapp_eth(Args(app=app, iter=it, path=path, nsig=nsig, mode="ok",
                                                verbose=nsig == 1), stats, vs)
        if self.eth_short_iter:
            for nsig in (0, 2):
                self.x_signapp_eth(Args(app=0, iter=str(self.eth_short_iter), path=None, nsig=nsig,
                                        mode="ok"), stats, vs)
        for mode in ("pubkey", "wrongmsg", "wrongkey", "sw-pub", "sw-sign", "wrongapp", "locked"):
            for nsig in (0, 2):
                for path in (None, "m/44'/60'/0'/0/1"):
                    self.x_signapp_eth(Args(app=0, iter="12", path=path, nsig=nsig, mode=mode,
                                            verbose=nsig == 2), stats, vs)
        # malformed iteration / path through the eth route
        for it in ("65536", "-1", "x"):
            stats.evaluations += 1
            app = self.td.write("app0.hex", self.app_text[0])
            outp = self.td.file("auth.json")
            if os.path.exists(outp):
                os.unlink(outp)
            w = World(EthApp(seed=b"c17eth"))
            r = self.run_signapp(["eth", "-o", outp, "-a", app, "--iteration=" + it], world=w)
            stats.observe(("signapp-eth-baditer", it, r.code))
            if r.code == 0 or self.td.read("auth.json") is not None:
                self.viol(vs, "malformed-accepted", "signapp-eth:iteration", "signapp_usage",
                          {"argv": ["eth", "--iteration=" + it]}, {"exit": r.code}, {"exit": "nonzero"})


CHECK = C17
