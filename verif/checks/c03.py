"""C03 - no client request can take the manager down or go unanswered.

Input x history enumeration through the real comm.server._RequestHandler + protocol +
APDU layer over a conforming device: every C02 document, a hostile menu of request
lines (bad encodings, deep nesting, huge numbers, oversized / malformed fields for every
command), each from the initial state and with a reconnection pending, and every ordered
pair of outcome-class representatives over one manager lifetime (differential oracle)."""
import copy
import itertools
import json

from ..framework import Check, Violation
from ..env import Rng
from ..refs import rlp as R
from .. import harness, dialogues, reqs
from ..simdev.base import World
from ..simdev.powhsm import PowHsm
from . import c02 as C02mod


def hostile_lines():
    """list of (label, bytes)"""
    rng = Rng("c03")
    N = dialogues.nominal_requests()
    out = []

    def add(label, obj=None, raw=None):
        if raw is None:
            raw = json.dumps(obj).encode()
        out.append((label, raw))

    # --- framing / encoding
    add("empty", raw=b"")
    add("blank", raw=b"   \t ")
    add("cr", raw=b"\r")
    add("utf8-bad-start", raw=b"\xff{\"command\":\"version\"}")
    add("utf8-bad-middle", raw=b"{\"command\":\"ver\xc3sion\"}")
    add("utf8-bad-end", raw=b"{\"command\":\"version\"}\xe2\x82")
    add("utf16-bom", raw="{\"command\":\"version\"}".encode("utf-16"))
    add("nul", raw=b"{\"command\":\"version\"}\x00")
    add("nul-inside", raw=b"{\"command\":\"ver\x00sion\"}")
    add("lone-surrogate-cmd", raw=b"{\"command\":\"\\ud800\",\"version\":5}")
    add("lone-surrogate-keyid", raw=b"{\"command\":\"getPubKey\",\"version\":5,\"keyId\":\"m/44'/0'/0'/0/\\udfff\"}")
    add("lone-surrogate-hash", raw=b"{\"command\":\"sign\",\"version\":5,\"keyId\":\"m/44'/137'/0'/0/0\",\"message\":{\"hash\":\"\\ud800\"}}")
    add("not-json", raw=b"hello")
    add("two-docs", raw=b"{\"command\":\"version\"}{\"command\":\"version\"}")
    add("trailing-comma", raw=b"{\"command\":\"version\",}")
    add("single-quotes", raw=b"{'command':'version'}")
    add("nan-version", raw=b"{\"command\":\"blockchainState\",\"version\":NaN}")
    add("inf-version", raw=b"{\"command\":\"blockchainState\",\"version\":Infinity}")
    add("nan-input", raw=json.dumps(dict(N["sign-legacy"], message=dict(N["sign-legacy"]["message"], input=0))).replace('"input": 0', '"input": NaN').encode())
    add("neg-inf-outpoint", raw=json.dumps(N["sign-segwit"]).replace(str(N["sign-segwit"]["message"]["outpointValue"]), "-Infinity").encode())
    add("dup-keys", raw=b"{\"command\":\"version\",\"command\":\"getPubKey\",\"version\":5}")
    add("dup-keys2", raw=b"{\"command\":\"getPubKey\",\"version\":5,\"keyId\":\"m/44'/0'/0'/0/0\",\"keyId\":5}")
    # the depths just below what the JSON parser of this interpreter accepts: parsed, but perhaps
    # too deep for something else done with the value (printing it in a log line, copying it)
    lo, hi = 10, 400000
    while lo + 1 < hi:
        mid = (lo + hi) // 2
        try:
            json.loads("[" * mid + "]" * mid)
            lo = mid
        except (RecursionError, ValueError):
            hi = mid
    for depth in list(range(max(10, lo - 60), lo + 3)) + [lo // 2, lo // 3, (2 * lo) // 3]:
        add("deep-window-extra-%d" % depth, raw=b"{\"command\":\"getPubKey\",\"version\":5,\"keyId\":\"m/44'/0'/0'/0/0\",\"x\":"
            + b"[" * depth + b"]" * depth + b"}")
    for depth in range(max(10, lo - 60), lo + 3, 6):
        add("deep-window-keyid-%d" % depth, raw=b"{\"command\":\"getPubKey\",\"version\":5,\"keyId\":"
            + b"[" * depth + b"]" * depth + b"}")
        add("deep-window-obj-%d" % depth, raw=b"{\"command\":\"blockchainState\",\"version\":5,\"x\":"
            + b"{\"a\":" * depth + b"1" + b"}" * depth + b"}")
    for depth in (1000, 100000):
        add("deep-array-%d" % depth, raw=b"[" * depth + b"]" * depth)
        add("deep-object-%d" % depth, raw=b"{\"a\":" * depth + b"1" + b"}" * depth)
        add("deep-in-field-%d" % depth, raw=b"{\"command\":\"getPubKey\",\"version\":5,\"keyId\":" + b"[" * depth + b"]" * depth + b"}")
    for digits in (400, 5000, 1000000):
        add("huge-int-version-%d" % digits, raw=b"{\"command\":\"blockchainState\",\"version\":" + b"9" * digits + b"}")
        add("huge-int-toplevel-%d" % digits, raw=b"1" * digits)
        add("huge-float-%d" % digits, raw=b"{\"command\":\"blockchainState\",\"version\":5." + b"0" * digits + b"}")
    add("huge-exp", raw=b"{\"command\":\"blockchainState\",\"version\":5e400}")
    add("big-string-cmd", raw=b"{\"command\":\"" + b"a" * 1000000 + b"\",\"version\":5}")
    add("big-string-keyid", raw=b"{\"command\":\"getPubKey\",\"version\":5,\"keyId\":\"m/" + b"1/" * 300000 + b"1\"}")
    # --- commands of odd types
    for label, val in (("list", []), ("dict", {}), ("num", 5), ("null", None), ("bool", True),
                       ("float", 1.5), ("nested", [["sign"]])):
        add("cmd-%s" % label, {"command": val, "version": 5})
        add("cmd-%s-v" % label, {"command": val})
    add("version-dict", {"command": "blockchainState", "version": {}})
    add("version-list", {"command": "blockchainState", "version": [5]})
    # --- sign: out-of-range and oversized
    SL, SS, SH = N["sign-legacy"], N["sign-segwit"], N["sign-hash"]

    def with_msg(base, **kw):
        d = copy.deepcopy(base)
        d["message"].update(kw)
        return d

    def with_auth(base, **kw):
        d = copy.deepcopy(base)
        d["auth"].update(kw)
        return d
    for v in (-1, -2 ** 31, 2 ** 32 - 1, 2 ** 32, 2 ** 64, 10 ** 30, 10 ** 400):
        add("input-%s" % (v if abs(v) < 10 ** 12 else "big%d" % len(str(v))), with_msg(SL, input=v))
        add("input-sw-%s" % (v if abs(v) < 10 ** 12 else "big%d" % len(str(v))), with_msg(SS, input=v))
    for v in (0, -1, 2 ** 64 - 1, 2 ** 64, 10 ** 30):
        add("outpoint-%s" % (v if abs(v) < 10 ** 12 else "big%d" % len(str(v))), with_msg(SS, outpointValue=v))
    for n in (252, 253, 65523, 65524, 65530, 65536, 70000, 300000):
        add("witness-%d" % n, with_msg(SS, witnessScript="ab" * n))
    rng2 = Rng("c03-tx")
    good = reqs.signed_script(rng2)
    txs = {
        "empty-script": reqs.mk_tx(rng2, [b""]),
        "empty-script-2nd": reqs.mk_tx(rng2, [good, b""]),
        "trunc-push": reqs.mk_tx(rng2, [b"\x05\x01\x02"]),
        "pushdata4-huge": reqs.mk_tx(rng2, [b"\x4e\xff\xff\xff\xff"]),
        "zero-inputs": bytes.fromhex("01000000" "00" "01" + "e803000000000000" + "00" + "00000000"),
        "many-inputs-announced": bytes.fromhex("01000000" "feffffffff") + b"\x00" * 40,
        "huge-varint-inputs": bytes.fromhex("01000000" "ffffffffffffffffff") + b"\x00" * 40,
        "huge-script-len": bytes.fromhex("01000000" "01") + b"\x11" * 36 + bytes.fromhex("feffffff7f") + b"\x00" * 10,
        "trailing": reqs.mk_tx(rng2, [good]) + b"\x00",
        "segwit-form": bytes.fromhex("01000000" "0001" "01") + b"\x22" * 36 + b"\x01\x51" + b"\xff" * 4 + bytes.fromhex("01e80300000000000000") + b"\x01\x01\xaa" + b"\x00" * 4,
        "version-3": b"\x03\x00\x00\x00" + reqs.mk_tx(rng2, [good])[4:],
        "neg-version": b"\xff\xff\xff\xff" + reqs.mk_tx(rng2, [good])[4:],
        "one-byte": b"\x01",
        "big-tx": reqs.mk_tx(rng2, [b"\x00" + b"\x4d\xff\xff" + b"\x07" * 65535]),
        "20-inputs": reqs.mk_tx(rng2, [good] * 20, nout=20),
    }
    for label, tx in txs.items():
        add("tx-%s" % label, with_msg(SL, tx=tx.hex()))
        add("tx-sw-%s" % label, with_msg(SS, tx=tx.hex()))
    add("input-beyond-tx", with_msg(SL, input=7))
    for n in (255, 256, 257, 70000):
        add("receipt-%d" % n, with_auth(SL, receipt=reqs.mk_receipt(rng2, n).hex()))
        add("proof-node-%d" % n, with_auth(SL, receipt_merkle_proof=["ab" * n]))
    for d in (300, 990, 5000):
        x = b"\x80"
        for _ in range(d):
            n = len(x)
            ln = n.to_bytes((n.bit_length() + 7) // 8, "big")
            x = (bytes([0xc0 + n]) if n < 56 else bytes([0xf7 + len(ln)]) + ln) + x
        add("receipt-deep-%d" % d, with_auth(SL, receipt=x.hex()))
    add("receipt-not-rlp", with_auth(SL, receipt="01020304"))
    add("receipt-rlp-string", with_auth(SL, receipt=R.encode(b"x" * 100).hex()))
    for n in (255, 256, 257, 1000):
        add("proof-%d-nodes" % n, with_auth(SL, receipt_merkle_proof=["ab"] * n))
    add("auth-with-hash", dict(SH, auth=SL["auth"]))
    add("hash-on-auth-path", dict(SH, keyId=reqs.PATHS[0]))
    add("tx-on-noauth-path", dict(SL, keyId=reqs.PATHS[2]))
    add("unlisted-path", dict(SL, keyId="m/44'/0'/0'/0/1"))
    add("unlisted-path-hash", dict(SH, keyId="m/44'/0'/0'/0/1"))
    add("unlisted-path-pubkey", {"command": "getPubKey", "version": 5, "keyId": "m/0/0/0/0/0"})
    add("keyid-unicode-digits", {"command": "getPubKey", "version": 5, "keyId": "m/44'/\u0660'/0'/0/0"})
    add("keyid-superscript", {"command": "getPubKey", "version": 5, "keyId": "m/44'/\u00b2'/0'/0/0"})
    add("keyid-huge-elt", {"command": "getPubKey", "version": 5, "keyId": "m/44'/" + "9" * 5000 + "'/0'/0/0"})
    add("hash-blanks", dict(SH, message={"hash": " ".join(["ab"] * 32)}))
    # one decimal digit of an otherwise valid hex field replaced by a digit that is not ASCII
    def exotic(hexstr, k=0):
        digits = [i for i, ch in enumerate(hexstr) if ch.isdigit()]
        i = digits[min(k, len(digits) - 1)]
        return hexstr[:i] + chr(0x0660 + int(hexstr[i])) + hexstr[i + 1:]
    add("exotic-digit-receipt", with_auth(SL, receipt=exotic(SL["auth"]["receipt"], 5)))
    add("exotic-digit-proof", with_auth(SL, receipt_merkle_proof=[exotic(SL["auth"]["receipt_merkle_proof"][0])]))
    add("exotic-digit-witness", with_msg(SS, witnessScript=exotic(SS["message"]["witnessScript"], 3)))
    add("exotic-digit-tx", with_msg(SL, tx=exotic(SL["message"]["tx"], 9)))
    add("exotic-digit-hash", dict(SH, message={"hash": exotic("12" * 32, 7)}))
    add("exotic-digit-ud", {"command": "signerHeartbeat", "version": 5, "udValue": exotic("12" * 16, 2)})
    add("exotic-digit-ud-fullwidth", {"command": "uiHeartbeat", "version": 5, "udValue": "\uff11" + "1" * 63})
    # --- blocks / brothers
    b1 = bytes.fromhex(N["advance-nobrothers"]["blocks"][0])
    fields = R.decode(b1)

    def adv(blocks, brothers=None):
        return {"command": "advanceBlockchain", "version": 5, "blocks": blocks,
                "brothers": brothers if brothers is not None else [[] for _ in blocks]}

    def upd(blocks):
        return {"command": "updateAncestorBlock", "version": 5, "blocks": blocks}
    variants = {
        "not-rlp": b"\x01\x02\x03\x04",
        "rlp-string": R.encode(b"x" * 100),
        "rlp-empty-list": R.encode([]),
        "rlp-string-17": R.encode(b"\x81" * 17), "rlp-string-19": R.encode(b"\x81" * 19),
        "rlp-string-20": R.encode(b"\x81" * 20),
        "rlp-list-of-lists-19": R.encode([[b"a"]] * 19),
        "rlp-3-fields": R.encode(fields[:3]),
        "rlp-16-fields": R.encode(fields[:16]),
        "rlp-21-fields": R.encode(fields + [b"\x01", b"\x02"]),
        "rlp-17-fields": R.encode(fields[:17]),
        "nested-coinbase": R.encode(fields[:-1] + [[b"a", [b"b"]]]),
        "nested-first": R.encode([[b"a"]] + fields[1:]),
        "short-coinbase": R.encode(fields[:-1] + [b"\x01\x02"]),
        "empty-coinbase": R.encode(fields[:-1] + [b""]),
        "coinbase-39": R.encode(fields[:-1] + [b"\x07" * 39]),
        "coinbase-huge-counter": R.encode(fields[:-1] + [b"\xff" * 8 + b"\x01" * 40]),
        "coinbase-counter-2e61": R.encode(fields[:-1] + [bytes.fromhex("2000000000000000") + b"\x01" * 40]),
        "payload-65535": None, "payload-65536": None, "payload-70000": None,
        "truncated": b1[:-5],
        "trailing": b1 + b"\x00",
        "one-byte-c0": b"\xc0",
        "length-lies": b"\xf9\xff\xff" + b1[3:],
        "leading-zero-len": b"\xfa\x00" + b1[1:3] + b1[3:],
    }
    def nest(d):
        x = b"\x80"
        for _ in range(d):
            n = len(x)
            if n < 56:
                x = bytes([0xc0 + n]) + x
            else:
                ln = n.to_bytes((n.bit_length() + 7) // 8, "big")
                x = bytes([0xf7 + len(ln)]) + ln + x
        return x

    def raw_list(items):
        p = b"".join(items)
        ln = len(p).to_bytes((len(p).bit_length() + 7) // 8, "big")
        return (bytes([0xc0 + len(p)]) if len(p) < 56 else bytes([0xf7 + len(ln)]) + ln) + p
    enc_fields = [R.encode(f) for f in fields]
    for d in (250, 300, 600, 990, 1100, 5000):
        # a field that is a list nested d deep (first field: kept; last one: a merge-mining field)
        variants["deep-first-%d" % d] = raw_list([nest(d)] + enc_fields[1:])
        variants["deep-mm-%d" % d] = raw_list(enc_fields[:-1] + [nest(d)])
        variants["deep-whole-%d" % d] = nest(d)
    for target in (65535, 65536, 70000):
        f2 = list(fields)
        f2[12] = b"\x01" * (target - 700)
        for _ in range(40):
            raw = R.encode(f2)
            mm = R.list_payload_len(R.encode(f2[:-3]))
            if mm == target:
                break
            f2[12] = b"\x01" * (len(f2[12]) + (target - mm))
        variants["payload-%d" % target] = R.encode(f2)
    for label, raw in variants.items():
        add("adv-block-%s" % label, adv([raw.hex()]))
        add("adv-2nd-block-%s" % label, adv([b1.hex(), raw.hex()]))
        add("adv-brother-%s" % label, adv([b1.hex()], [[raw.hex()]]))
        add("adv-2-brothers-%s" % label, adv([b1.hex()], [[b1.hex(), raw.hex()]]))
        add("upd-block-%s" % label, upd([raw.hex()]))
        add("upd-2nd-block-%s" % label, upd([b1.hex(), raw.hex()]))
    # well-formed requests whose single line is far beyond any buffer size one might pick
    for target in (1 << 20, 1 << 22, 1 << 24):
        f2 = list(fields)
        f2[12] = b"\x01" * 60000
        big = R.encode(f2).hex()
        n = target // len(big) + 2
        add("adv-line-%dMiB" % (target >> 20), adv([big] * n))
        add("upd-line-%dMiB" % (target >> 20), upd([big] * n))
    add("exotic-digit-block", adv([exotic(b1.hex(), 4)]))
    add("exotic-digit-brother", adv([b1.hex()], [[exotic(b1.hex(), 4)]]))
    add("exotic-digit-upd", upd([exotic(b1.hex(), 4)]))
    for nb in (0, 1, 2, 10, 11, 12, 300):
        add("adv-%d-brothers" % nb, adv([b1.hex()], [[b1.hex()] * nb]))
    add("adv-300-blocks", adv([b1.hex()] * 300))
    add("upd-300-blocks", upd([b1.hex()] * 300))
    add("adv-block-upper", adv([b1.hex().upper()]))
    add("adv-block-blanks", adv([" ".join(b1.hex()[i:i + 2] for i in range(0, len(b1.hex()), 2))]))
    add("adv-brother-blanks", adv([b1.hex()], [[" ab cd "]]))
    add("adv-brothers-not-lists", adv([b1.hex()], ["aa"]))
    add("ud-blanks", {"command": "signerHeartbeat", "version": 5, "udValue": " ".join(["ab"] * 16)})
    add("ud-blanks-ui", {"command": "uiHeartbeat", "version": 5, "udValue": " ".join(["ab"] * 32)})
    add("ud-upper", {"command": "signerHeartbeat", "version": 5, "udValue": "AB" * 16})
    add("ud-0x", {"command": "signerHeartbeat", "version": 5, "udValue": "0x" + "ab" * 16})
    add("ud-0x-ui", {"command": "uiHeartbeat", "version": 5, "udValue": "0x" + "ab" * 32})
    add("ud-0X", {"command": "signerHeartbeat", "version": 5, "udValue": "0X" + "ab" * 16})
    add("hash-0x", dict(SH, message={"hash": "0x" + "ab" * 32}))
    add("receipt-0x", with_auth(SL, receipt="0x" + SL["auth"]["receipt"]))
    add("tx-0x", with_msg(SL, tx="0x" + SL["message"]["tx"]))
    add("block-0x", adv(["0x" + b1.hex()]))
    add("brother-0x", adv([b1.hex()], [["0x" + b1.hex()]]))
    # commands of the current protocol sent with "version": 1 (judged in both modes)
    for k in ("advance-nobrothers", "updateAncestor", "reset", "state", "params", "signerHeartbeat",
              "uiHeartbeat", "sign-legacy"):
        add("as-v1-%s" % k, dict(N[k], version=1))
    for k in ("v1-sign", "v1-getPubKey"):
        add("as-v5-%s" % k, dict(N[k], version=5))
    # v1
    add("v1-msg-dict", {"command": "sign", "version": 1, "keyId": reqs.PATHS[2], "message": {"hash": "aa" * 32}})
    return out


SLOW_LABELS = ("empty", "utf8-bad-start", "not-json", "cmd-list", "input--1", "unlisted-path-pubkey",
               "as-v5-v1-getPubKey", "adv-block-not-rlp")


class C03(Check):
    id = "C03"
    level = "exploration"
    rule = ("request lines = every document of the C02 enumeration (serialised) + a hostile menu "
            "(~400 lines: encodings, nesting 10^5, integers of 10^6 digits, 1 MB strings, "
            "odd-typed commands, out-of-range integers, oversized witness scripts / receipts / "
            "proofs, transactions and blocks malformed in 20+ ways in every position, 0..300 "
            "brothers); each alone from the initial state, the hostile ones also with a "
            "reconnection pending and in v1 mode; every ordered pair of outcome-class "
            "representatives over one manager lifetime. Classes = (line class, reply code, "
            "device contacted, exception).")
    assumptions = [
        "the device keeps to its protocol (conforming device model)",
        "history-independence is checked for requests after which the device state is unchanged",
        "the socket layer itself (accepting the next connection) is exercised by C12's harness; "
        "here 'goes on accepting' = the handler neither raises nor asks for a shutdown",
    ]
    trusted_base = ["verif/simdev/powhsm.py (conforming device)"]

    def prepare(self):
        self.c02 = C02mod.C02(self.tier, self.seed)
        self.c02.prepare()
        self.hostile = hostile_lines()

    def bounds(self):
        return {"hostile_lines": len(self.hostile), "c02_cases": len(self.c02.cases()),
                "histories": "all ordered pairs of class representatives"}

    def cases(self):
        base = self._base_cases()
        # a sample of them also under `python -O` (assert statements compiled away)
        return base + [{"kind": "optimized", "sub": c} for c in [c for c in base if c.get('kind') == 'hostile'][::6][:5]]

    def _base_cases(self):
        cs = []
        for i, c in enumerate(self.c02.cases()):
            cs.append({"kind": "c02", "i": i})
        for i in range(0, len(self.hostile), 8):
            cs.append({"kind": "hostile", "lo": i, "hi": min(i + 8, len(self.hostile))})
        cs.append({"kind": "pairs"})
        for i in range(0, len(self.hostile), 16):
            cs.append({"kind": "socket", "lo": i, "hi": min(i + 16, len(self.hostile))})
        cs.append({"kind": "hangups"})
        for label in SLOW_LABELS:
            cs.append({"kind": "slow", "label": label})
        cs.append({"kind": "ders"})
        return cs

    # ------------------------------------------------------------------
    def fresh(self, v1=False, pending=False):
        if not getattr(self, "_logging_on", False):
            from .. import env
            env.logging_as_in_production(True)
            self._logging_on = True
        dev = PowHsm(seed=b"c03")
        w = World(dev)
        proto = harness.make_protocol(w, v1=v1)
        if pending:
            (proto.protocol_v2 if v1 else proto).report_comm_issue()
        return dev, w, proto

    def judge(self, o, label, line, v1, pending, vs, stats, history=None):
        code = o.reply.get("errorcode") if isinstance(o.reply, dict) else None
        ok = (o.exc is None and isinstance(o.reply, dict) and isinstance(code, int)
              and not isinstance(code, bool))
        if ok:
            return True
        site = None
        try:
            dev, w, proto = self.fresh(v1, pending)
            harness.handle_request(proto, json.loads(line.decode("utf-8")))
            site = harness.LAST_EXC_SITE[0]
        except RecursionError:
            site = "RecursionError@json.loads"
        except ValueError as e:
            site = "%s@json.loads" % type(e).__name__
        except Exception as e:   # noqa
            site = "%s@json.loads" % type(e).__name__
        clause = "unanswered-or-stopped"
        keep = len(line) < 4000 or label not in dict(self.hostile)      # lines that cannot be found again by label
        case = {"kind": "one", "line": line.hex() if keep else None, "label": label,
                "v1": v1, "pending": pending, "history": history}
        vs.append(Violation("C03", "C03:%s:%s" % (clause, site or o.exc or "bad-reply"), case, None,
                            {"raw": o.raw[:200], "exc": o.exc, "error": (o.error or "")[:200]},
                            "one line with a JSON object holding an integer errorcode; no shutdown",
                            clause))
        return False

    def run_line(self, label, line, v1, pending, stats, vs):
        stats.evaluations += 1
        dev, w, proto = self.fresh(v1, pending)
        base = len(w.log)
        o = harness.handle_line(proto, line)
        code = o.reply.get("errorcode") if isinstance(o.reply, dict) else None
        stats.observe((label.split("-")[0], code, len(w.log) > base, o.exc))
        stats.sample({"label": label, "line": (line[:120] + b"...").decode("latin-1"), "v1": v1,
                      "pending": pending, "reply": o.raw[:80].decode("latin-1")}, cap=4)
        self.judge(o, label, line, v1, pending, vs, stats)
        # the line layer only transports: what the client gets for a line that is a JSON object is
        # what the protocol object answers to that object
        if o.exc is None and isinstance(o.reply, dict):
            try:
                doc = json.loads(line.decode("utf-8"))
            except Exception:   # noqa
                doc = None
            if isinstance(doc, dict):
                dev2, w2, proto2 = self.fresh(v1, pending)
                try:
                    reply2, exc2 = harness.handle_request(proto2, doc)
                except Exception:   # noqa
                    reply2, exc2 = None, "raised"
                if exc2 is None and isinstance(reply2, dict) and reply2 != o.reply:
                    vs.append(Violation("C03", "C03:line-layer-changes-the-answer:%s" % label.split("-")[0],
                                        {"kind": "one", "label": label,
                                         "line": line.hex() if (len(line) < 4000 or label not in dict(self.hostile)) else None,
                                         "v1": v1, "pending": pending, "history": None}, None,
                                        {"over_the_line": o.reply, "line_bytes": len(line)},
                                        {"protocol_object_answers": reply2}, "transport"))
        return o

    def run_case(self, case, stats):
        if case.get("kind") == "optimized":
            from ..framework import optimized
            return optimized(self, case, stats)
        vs = []
        k = case["kind"]
        if k == "one":
            if case.get("line") is None:
                line = dict(self.hostile)[case["label"]]
            else:
                line = bytes.fromhex(case["line"])
            if case.get("history"):
                self.run_history([bytes.fromhex(h) for h in case["history"]] + [line], case["v1"],
                                 stats, vs, ["h"] * len(case["history"]) + [case["label"]])
            else:
                self.run_line(case["label"], line, case["v1"], case["pending"], stats, vs)
        elif k == "c02":
            sub = self.c02.cases()[case["i"]]
            docs = []
            self.collect_c02(sub, docs)
            for doc, v1 in docs:
                self.run_line("c02", json.dumps(doc).encode(), v1, False, stats, vs)
        elif k == "hostile":
            for label, line in self.hostile[case["lo"]:case["hi"]]:
                for v1 in (False, True):
                    for pending in (False, True):
                        self.run_line(label, line, v1, pending, stats, vs)
        elif k == "pairs":
            self.pairs(stats, vs)
        elif k == "socket":
            for label, line in self.hostile[case["lo"]:case["hi"]]:
                self.socket_line(label, line, stats, vs)
        elif k == "one-socket":
            if case.get("hangup") is not None:
                self.socket_hangup(case["label"], dict(self.hostile)[case["label"]], case["hangup"], stats, vs)
            else:
                self.socket_line(case["label"], dict(self.hostile)[case["label"]], stats, vs)
        elif k == "slow":
            self.socket_slow(case, dict(self.hostile)[case["label"]], stats, vs)
        elif k == "ders":
            self.ders(case, stats, vs)
        elif k == "hangups":
            N = {l: ln for l, ln in self.hostile}
            for label in ("empty", "utf8-bad-start", "not-json", "cmd-list", "input--1", "tx-empty-script",
                          "adv-block-not-rlp", "unlisted-path-pubkey", "ud-blanks", "witness-252",
                          "adv-2-brothers", "receipt-256"):
                if label in N:
                    for hang in ("before-send", "mid-line", "after-line"):
                        self.socket_hangup(label, N[label], hang, stats, vs)
        return vs

    def ders(self, case, stats, vs):
        """"as long as the device itself keeps to its protocol": every well-formed DER signature a
        device may return (r, s of 1, 31, 32, 33 bytes, the 0x31 tag quirk, trailing bytes) for every
        command that carries one - the client's line is answered and the manager goes on"""
        from ..simdev.policy import der_menu
        from ..env import Rng
        good = der_menu(Rng("c03-der"))[0]
        N = dialogues.nominal_requests()
        for name, sig, r, s_ in good:
            for rq in ("signerHeartbeat", "uiHeartbeat", "sign-hash", "sign-legacy", "v1-sign"):
                v1 = rq.startswith("v1-")
                stats.evaluations += 1
                dev, w, proto = self.fresh(v1, False)
                dev.signature_for = lambda material, sig=sig: sig
                line = json.dumps(N[rq]).encode()
                o = harness.handle_line(proto, line)
                code = o.reply.get("errorcode") if isinstance(o.reply, dict) else None
                stats.observe(("der", name, rq, code, o.exc))
                if o.exc is not None or not isinstance(code, int) or isinstance(code, bool):
                    vs.append(Violation("C03", "C03:unanswered-or-stopped:device-signature-%s:%s" % (name, rq),
                                        {"kind": "ders"}, None,
                                        {"raw": o.raw, "exc": o.exc, "error": o.error, "der": sig.hex()},
                                        "one line with a JSON object holding an integer errorcode; no shutdown",
                                        "device-within-protocol"))

    def socket_slow(self, case, line, stats, vs):
        """a client that pauses in the middle of its line (time passes: a socket time-out the
        manager may have set can run out), and one whose end is reset there; explored with one
        deviation (a time-out firing, a preemption): the slow client still gets its one reply line,
        and the next connection is served"""
        from .. import vserver, vnet
        from ..xplore import explore, run_once
        full = line + b"\n"
        cut = max(1, len(full) // 2)
        follow = b'{"command": "version"}\n'
        for mode in ("pause", "reset"):
            frags = [full[:cut], full[cut:]] if mode == "pause" else [full[:cut], vnet.RESET]

            def run(ctx, frags=frags):
                dev, w, proto = self.fresh(False, False)
                return vserver.run_server(proto, w, [frags, [follow]], ctx)

            def check(ctx, obs, mode=mode):
                net, info, crashed = obs
                first = net.clients[0].conn.out if net.clients[0].conn is not None else None
                second = net.clients[1].conn.out if net.clients[1].conn is not None else None
                ok1 = True
                if mode == "pause":
                    ok1 = False
                    if first is not None and first.endswith(b"\n") and first.count(b"\n") == 1:
                        try:
                            d = json.loads(first.decode())
                            ok1 = isinstance(d, dict) and isinstance(d.get("errorcode"), int) \
                                and not isinstance(d.get("errorcode"), bool)
                        except Exception:   # noqa
                            ok1 = False
                taken = tuple(p[1].split("|")[0] for ch, p in zip(ctx.choices, ctx.points) if ch)
                stats.observe(("slow", mode, case["label"], ok1, second is not None, taken), nontrivial=bool(taken))
                if (net.sched.deadlock or net.sched.livelock or crashed or net.sched.errors
                        or info["early_shutdown"] or not ok1
                        or second != b'{"errorcode": 0, "version": 5}\n'):
                    vs.append(Violation("C03", "C03:socket-slow-client-%s" % mode,
                                        dict(case, mode=mode), list(ctx.choices),
                                        {"first_reply": first, "second_reply": second, "crashed": crashed,
                                         "deadlock": net.sched.deadlock, "errors": net.sched.errors[:2],
                                         "early_shutdown": info["early_shutdown"], "deviations": taken},
                                        "one reply line with an integer errorcode; the next connection is served",
                                        "socket"))
            if case.get("choices") is not None and case.get("mode") == mode:
                ctx, obs = run_once(run, case["choices"])
                check(ctx, obs)
            elif case.get("choices") is None:
                explore(run, check, stats, bound=1)

    def socket_hangup(self, label, line, hang, stats, vs):
        """a client that goes away (before sending, in the middle of its line, or without waiting
        for the reply); the manager must go on serving the next connection"""
        from .. import vserver, vnet
        stats.evaluations += 1
        dev, w, proto = self.fresh(False, False)
        follow = b'{"command": "version"}\n'
        full = line + b"\n"
        if hang == "before-send":
            frags = [vnet.HANGUP]
        elif hang == "mid-line":
            frags = [full[:max(1, len(full) // 2)], vnet.HANGUP]
        else:
            frags = [full, vnet.HANGUP]
        net, info, crashed = vserver.run_server(proto, w, [frags, [follow]], None)
        second = net.clients[1].conn.out if net.clients[1].conn is not None else None
        stats.observe(("hangup", hang, label.split("-")[0], info["early_shutdown"], second is not None))
        if (net.sched.deadlock or net.sched.livelock or crashed or net.sched.errors
                or info["early_shutdown"] or second != b'{"errorcode": 0, "version": 5}\n'):
            vs.append(Violation("C03", "C03:socket-client-hangup-%s" % hang,
                                {"kind": "one-socket", "label": label, "hangup": hang}, None,
                                {"deadlock": net.sched.deadlock, "crashed": crashed, "errors": net.sched.errors[:2],
                                 "early_shutdown": info["early_shutdown"], "second_reply": second},
                                "the next connection is served", "socket"))

    def socket_line(self, label, line, stats, vs):
        """the same line through the unmodified socketserver stack on the virtual network,
        followed by a second connection that must still be served"""
        from .. import vserver
        if b"\n" in line.strip(b"\n") or len(line) > 300000:
            return
        stats.evaluations += 1
        dev, w, proto = self.fresh(False, False)
        follow = b'{"command": "version"}\n'
        net, info, crashed = vserver.run_server(proto, w, [[line + b"\n"], [follow]], None)
        outs = [c.conn.out if c.conn is not None else None for c in net.clients]
        stats.observe(("socket", label.split("-")[0], outs[0][:30] if outs[0] else None, info["early_shutdown"]))

        def bad(clause, observed):
            vs.append(Violation("C03", "C03:socket-%s" % clause, {"kind": "one-socket", "label": label},
                                None, observed, "one reply line; the next connection is served",
                                "socket"))
        if net.sched.deadlock or net.sched.livelock or crashed or net.sched.errors:
            bad("server-crash-or-deadlock", {"deadlock": net.sched.deadlock, "crashed": crashed,
                                             "errors": net.sched.errors[:2]})
            return
        o = outs[0]
        ok = False
        if o is not None and o.endswith(b"\n") and o.count(b"\n") == 1:
            try:
                r = json.loads(o.decode())
                ok = isinstance(r, dict) and isinstance(r.get("errorcode"), int) and not isinstance(r.get("errorcode"), bool)
            except Exception:
                ok = False
        if not ok:
            bad("unanswered", {"label": label, "reply": o[:200] if o else o})
        if info["early_shutdown"] or outs[1] != b'{"errorcode": 0, "version": 5}\n':
            bad("next-connection-not-served", {"label": label, "early_shutdown": info["early_shutdown"],
                                               "second_reply": outs[1]})

    def collect_c02(self, sub, docs):
        c = self.c02
        if sub["kind"] == "nonobject":
            for val in (None, True, 0, -1.5, "", "sign", [], [{"command": "version"}]):
                docs.append((val, False))
                docs.append((val, True))
            return
        if sub["kind"] != "combo":
            return
        name = sub["t"]
        t, v1 = c.templates[name]
        paths = [c.paths_for(name)[i] for i in sub["paths"]]
        for vals in itertools.product(*[c.M[p] for p in paths]):
            doc = c.apply(name, list(zip(paths, vals)))
            if doc is not None:
                docs.append((doc, v1))

    # ------------------------------------------------------------------
    def fingerprint(self, dev):
        return (dev.mode, len(dev.held), dev.flags, dev.sign is None, dev.adv is None)

    def run_history(self, lines, v1, stats, vs, labels):
        dev, w, proto = self.fresh(v1, False)
        outs = []
        for i, line in enumerate(lines):
            stats.evaluations += 1
            fp0 = self.fingerprint(dev)
            o = harness.handle_line(proto, line)
            ok = self.judge(o, labels[i], line, v1, False, vs, stats,
                            history=[x.hex() for x in lines[:i] if len(x) < 4000] or None)
            outs.append((o, fp0 == self.fingerprint(dev)))
            if not ok:
                break
        return outs

    def pairs(self, stats, vs):
        # representatives: one line per (reply code, device contacted) class, from the hostile menu
        # and the nominal requests
        reps = {}
        N = dialogues.nominal_requests()
        pool = [(k, json.dumps(v).encode()) for k, v in N.items() if not k.startswith("v1-")]
        pool += [(l, ln) for l, ln in self.hostile if len(ln) < 200000]
        alone = {}
        for label, line in pool:
            dev, w, proto = self.fresh(False, False)
            base = len(w.log)
            o = harness.handle_line(proto, line)
            code = o.reply.get("errorcode") if isinstance(o.reply, dict) else None
            cmd = json.loads(line).get("command") if self._loads(line) else None
            cls = (code, len(w.log) > base, cmd if isinstance(cmd, str) else repr(cmd)[:20])
            if o.exc is None and cls not in reps:
                reps[cls] = (label, line)
                alone[label] = o.raw
        items = list(reps.values())
        stats.bump("pair_representatives", len(items))
        for (la, a) in items:
            for (lb, b) in items:
                outs = self.run_history([a, b], False, stats, vs, [la, lb])
                if len(outs) == 2:
                    (oa, unchanged), (ob, _) = outs
                    stats.observe(("pair", la.split("-")[0], lb.split("-")[0], ob.raw[:40]))
                    if unchanged and ob.raw != alone[lb]:
                        vs.append(Violation(
                            "C03", "C03:history-dependence:%s-after-%s" % (lb.split("-")[0], la.split("-")[0]),
                            {"kind": "one", "line": b.hex(), "label": lb, "v1": False, "pending": False,
                             "history": [a.hex()]}, None,
                            {"reply_after_history": ob.raw[:300]}, {"reply_alone": alone[lb][:300]},
                            "history-dependence"))

    @staticmethod
    def _loads(line):
        try:
            return isinstance(json.loads(line), dict)
        except Exception:
            return False

    def replay(self, case, choices):
        from ..xplore import Stats
        if case.get("kind") == "slow" and choices is not None:
            case = dict(case, choices=list(choices))
        return self.run_case(case, Stats())


CHECK = C03
