"""C16 - loading an attestation file always terminates with a usable verdict.

Bounded exhaustive enumeration of JSON documents shaped like version-1 / version-2 certificates
(top-level defects, every signed_by function on up to 4 / 5 elements, every field defect of every
element kind, rule-built chains and cycles of 12 elements); keys and signatures are real wherever
a field is well formed.  Oracle: ``HSMCertificate.from_jsonfile`` returns or raises within a step
budget; what it returns has, by an independent walk over ``to_dict()``, a repetition-free path to
the root for every target; ``validate_and_get_values`` terminates with an entry per target;
save -> load -> validate reproduces verdicts and values.
"""
import base64
import itertools
import json
import multiprocessing

from ..framework import Check, Violation
from ..xplore import HarnessError
from ..certharness import verdict, same_hex
from ..xplore import h64
from ..gen import certs as G

ABSENT = "<absent>"
# names that are not strings, and names that collide after str() or as dictionary keys
NAME_SETS = [[7, 8, 9, 10, 11], [7, 0.5, None, True, False], [7, "7", 1, True, 1.0], [None, "None", "null", 0, False]]
KINDS = [("x509_pem", "p256"), ("x509_pem", "p384"), ("x509_pem", "k1"), ("sgx_attestation_key", "p256"),
         ("sgx_quote", "p256")]
ROOTS = {1: "root", 2: "sgx_root"}
DAY = G.timedelta(days=1)


def walk(d):
    """Independent structural walk over a saved dictionary: None or a reason.  Only the documented
    keys are read (extra keys are nobody's business); when a name occurs more than once in the
    saved elements, either resolution (first or last occurrence) may carry the paths."""
    if not isinstance(d, dict) or d.get("version") not in (1, 2):
        return "version"
    root = ROOTS[1 if d["version"] == 1 else 2]
    if not isinstance(d.get("targets"), (list, tuple)) or not isinstance(d.get("elements"), (list, tuple)):
        return "shape"
    for e in d["elements"]:
        if not isinstance(e, dict) or "name" not in e or "signed_by" not in e:
            return "element-shape"
    reason = None
    for order in (d["elements"], list(reversed(d["elements"]))):
        els = {}
        try:
            for e in order:
                els[e["name"]] = e
        except TypeError:
            return "unhashable-name"
        reason = _walk_paths(d["targets"], els, root)
        if reason is None:
            return None
    return reason


def _walk_paths(targets, els, root):
    for t in targets:
        try:
            if t not in els:
                return "target-missing"
        except TypeError:
            return "unhashable-target"
        seen = []
        cur = t
        while True:
            if cur in seen:
                return "cycle"
            seen.append(cur)
            sb = els[cur]["signed_by"]
            if sb == root:
                break
            try:
                if sb not in els:
                    return "dangling"
            except TypeError:
                return "unhashable-signed_by"
            cur = sb
            if len(seen) > len(els):
                return "cycle"
    return None


def same_verdict(got, want):
    """got: as reported (normalised by norm_result); want: (True, value, tweak) / (False, name)."""
    g, w = verdict(got), verdict(want)
    if g is None or w is None or g[0] != w[0]:
        return False
    if g[0] == "fail":
        return g[1] == w[1]
    if isinstance(w[1], dict):
        return (isinstance(g[1], dict) and same_hex(g[1].get("message"), w[1]["message"])
                and g[1].get("sgx_quote") == w[1]["sgx_quote"] and g[2] is None)
    return isinstance(g[1], str) and same_hex(g[1], w[1]) and same_hex(g[2], w[2])


class _Enough(Exception):
    """An execution ran out of budget: the case is cut short (and says so)."""


class C16(Check):
    id = "C16"
    level = "exploration"
    rule = ("(a) top level: version in {1, 2, 0, 3, -1, 1.0, 2.0, 1.5, true, '1', '2', null, [], {}, absent} "
            "x targets in {absent, null, string, object, number, [], dangling, duplicate, non-string "
            "members, good} x elements in {absent, null, object, string, number, [], non-object members, "
            "good}, plus non-object / malformed JSON texts; (b) for n <= 4 elements (thorough: 5) every "
            "function signed_by: [n] -> [n] + {root, dangling name, non-string} with genuine signatures "
            "by the designated parent, for version 1 (names of the four kinds, duplicates for n = 5) "
            "and version 2 (all certificates / certificates + attestation key + quote), every non-empty "
            "target subset (quick n = 4: no triples; n = 5: singletons and all), and the same with one element named like the root "
            "sentinel of the version ('root' / 'sgx_root') or with the empty name (version 2: n <= 3, "
            "thorough 4 with singleton and full target lists; version 1: n <= 2); (c) every field of every element kind absent / "
            "null / number / list / object / boolean / empty / non-hex / odd hex / spaced hex / short / "
            "long; every sequence of 1..3 element kinds (P-256 / P-384 / secp256k1 certificate, attestation "
            "key, quote) chained below a valid certificate, each really signed by its parent; unknown and "
            "swapped element types, unknown and duplicate names, re-signed over- and "
            "under-long SGX messages, every hex / base64 field in the other spellings the decoders accept "
            "and every key field in the other point encodings (genuine: reference verdicts required); (d) rule-built chains, cycles, rho shapes, "
            "stars of 12 elements; (e) certificates genuine by construction (every version-1 path x tweak "
            "patterns x target lists, version-2 chains of depth 1..3 x auth data, each also with one "
            "spoiled signature; every graph document of (b) whose elements are all signed by elements or "
            "the root and whose targets reach the root) must load through HSMCertificate.from_jsonfile "
            "and give the verdicts and values an independent reference computes; (f) version-2 element names "
            "from a menu (non-ASCII, astral, lone surrogates, control characters, quotes and backslashes, "
            "10^4 characters, JSON-ish tokens, case twins) on the target and on a certifier, and names "
            "colliding with the root word, as genuine documents; one run of load/validate/save/load/validate "
            "in a child process under an ASCII locale. An execution is distinct by (part, load outcome or exception type, "
            "validation outcome classes, round-trip outcome).")
    assumptions = [
        "any exception raised by from_jsonfile counts as 'reports an error' (the tools catch Exception)",
        "the statement does not say which defective documents must be refused; documents genuine by "
        "construction (really signed, finite paths, well-formed fields) must load through the entry "
        "point the tools use, HSMCertificate.from_jsonfile, which is also what save/load goes through",
        "step budget: 4*10^4 executed lines of middleware code per call (load, to_dict, validate, "
        "save; the longest legitimate call on 12 elements executes about 7.8*10^3), 3 s of CPU time per "
        "call (loops inside extension code execute no line) and a 30 s wall-clock alarm behind them; the first exhausted budget ends its case, the sixth ends the run",
        "roots of trust for validation: the generator's secp256k1 root key / root certificate with "
        "the clock fixed inside every generated validity period; the process time zone is UTC, UTC-3 "
        "or UTC+5:30 in turn",
        "values are compared after save/load as (verdict, value, tweak); SGX quotes by their field dictionary",
    ]
    trusted_base = ["verif/gen/certs.py", "sys.settrace line counting", "verif/certharness.py"]

    # ---------------------------------------------------------------------------------
    def prepare(self):
        from ..certharness import CertImpl
        self.impl = CertImpl()
        self.w1 = G.V1World("c16")
        self.w2 = G.V2World("c16")
        self.nmax = 5 if self.thorough else 4
        # does the code under test read a clock the harness owns?  If not, every validity period is
        # generated around the real present (see CertImpl.settle_clock)
        G.set_reference_instant(G.T0_FIXED)
        doc, pem, _ = self.w2.chain(2, "wide-top")
        if not self.impl.settle_clock(doc, pem, G.T0):
            G.set_reference_instant(self.impl.fresh_reference_instant())
            self.w2 = G.V2World("c16")
        self.root1 = self.w1.pub("root").hex()
        self.root2 = G.pem_of(self.w2.cert("root", "root", G.T0 - 4000 * DAY, G.T0 + 4000 * DAY))
        self._c = {}
        self.shared = multiprocessing.get_context("fork").Array("i", 4096)
        self.hangs = multiprocessing.get_context("fork").Value("i", 0)

    def bounds(self):
        return {"clock": "owned" if self.impl.owned else "not owned: validity periods around the real present",
                "max_elements_all_functions": self.nmax, "rule_built_elements": 12,
                "step_budget_lines": 40000, "cpu_budget_s": 3, "wall_backstop_s": 30}

    def alphabets(self):
        return {"signed_by": ["<element i>", "<root>", "nobody", 7],
                "field_variants": [repr(v) for v in self.variants()],
                "v2_kind_patterns": ["all x509_pem", "x509_pem* + sgx_attestation_key + sgx_quote"]}

    def cases(self):
        cs = [{"kind": "top", "base": b, "vi": vi} for b in (1, 2) for vi in range(len(self.versions()))]
        cs.append({"kind": "texts"})
        for ver, pat in ((1, "v1"), (2, "x509"), (2, "sgx")):
            for n in range(1, self.nmax + 1):
                plen = max(0, n - 1) if n >= 3 else 0
                for first in itertools.product(range(n + 3), repeat=plen):
                    cs.append({"kind": "graph", "ver": ver, "pat": pat, "n": n, "first": list(first)})
                    # all elements with NON-STRING names (and names that collide after str() / as keys)
                    if ver == 2 and n <= self.nmax - 1:
                        for ns in range(len(NAME_SETS)):
                            if n >= 3 and not self.thorough and ns not in (1, 2):
                                continue
                            cs.append({"kind": "graph", "ver": ver, "pat": pat, "n": n,
                                       "first": list(first), "nameset": ns})
                    # one element NAMED like the root sentinel of the version / with the empty name
                    if n <= (self.nmax - 1 if ver == 2 else 2):
                        for i in range(n):
                            for nm in (ROOTS[ver], ""):
                                cs.append({"kind": "graph", "ver": ver, "pat": pat, "n": n,
                                           "first": list(first), "rename": [i, nm]})
        for ver in (1, 2):
            for idx in range(4):
                cs.append({"kind": "fields", "ver": ver, "idx": idx})
        cs.append({"kind": "special"})
        for part in range(4):
            cs.append({"kind": "names", "part": part})
        cs.append({"kind": "ascii"})
        cs.append({"kind": "genuine", "ver": 1})
        cs.append({"kind": "genuine", "ver": 2})
        for first in range(len(KINDS)):
            cs.append({"kind": "kinds", "first": first})
        cs.append({"kind": "long", "ver": 1})
        cs.append({"kind": "long", "ver": 2})
        # small documents first: the shortest counterexamples get recorded before the per-key cap
        cs.sort(key=lambda c: (c.get("n") or 0))
        return cs

    def run_case_single(self, case, choices, stats):
        return self.run_case(case, stats)

    def run_case(self, case, stats):
        vs = []
        k = case["kind"]
        if k == "one":
            self.evaluate(case["text"], case.get("label", "replay"), stats, vs)
        elif self.hangs.value >= 6:
            stats.bump("capped")       # non-termination was reported several times: stop early
            return vs
        else:
            try:
                getattr(self, "run_" + k)(case, stats, vs)
            except _Enough:
                stats.bump("capped")
        # genuine defects hit thousands of documents: keep the two shortest inputs per key and case
        # (the framework stops a run after 2000 violation records)
        by = {}
        for v in vs:
            by.setdefault(v.key, []).append(v)
        out = []
        for k2, lst in by.items():
            lst.sort(key=lambda v: (len(v.d["case"]["text"]), v.d["case"]["text"]))
            keep = lst[:2]
            # ... and at most ~40 records per key over all workers (counter shared through fork)
            # (documents of <= 2 elements are always recorded: they are the shortest examples)
            if case.get("n", 9) > 2:
                slot = h64(k2) % len(self.shared)
                with self.shared.get_lock():
                    keep = keep[:max(0, 40 - self.shared[slot])]
                    self.shared[slot] += len(keep)
            out.extend(keep)
            if len(lst) > len(keep):
                stats.bump("violations_same_key_not_recorded", len(lst) - len(keep))
        return out

    # ---- building blocks -------------------------------------------------------------------
    def base_doc(self, ver):
        if ver == 1:
            return self.w1.doc([("device", "root", False), ("attestation", "device", False),
                                ("ui", "attestation", True), ("signer", "attestation", True)],
                               ["ui", "signer"])
        doc, pem, meta = self.w2.chain(2, "wide-top")
        return doc

    def root2_for(self, doc):
        """Root certificate matching the document's generator (chains use key 'root')."""
        return self.root2

    @staticmethod
    def versions():
        return [1, 2, 0, 3, -1, 1.0, 2.0, 1.5, True, "1", "2", None, [], {}, ABSENT]

    @staticmethod
    def variants():
        return [ABSENT, None, 5, 0, False, [], {}, True, "", " ", "\n", " \t\r\n ", "zz", "abc", "AB cd", "aa", "root",
                "sgx_root"]

    # ---- (a) top level ------------------------------------------------------------------------
    def run_top(self, case, stats, vs):
        base = self.base_doc(case["base"])
        names = [e["name"] for e in base["elements"]]
        leaf = base["targets"][0]
        tvars = [ABSENT, None, leaf, {leaf: 1}, 5, [], ["nobody"], [leaf, "nobody"], [leaf, leaf],
                 [5], [None], [[leaf]], [{}], [leaf, 5], list(base["targets"]), list(reversed(names)), names + names]
        e0 = base["elements"]
        evars = [ABSENT, None, {e["name"]: e for e in e0}, "elements", 5, [], ["x"] + e0, [5] + e0,
                 e0 + [None], [[e0[0]]] + e0, e0 + [{}], e0, list(reversed(e0)), e0 + e0,
                 {"name": "x"}, [e0[0]["name"]]]
        v = self.versions()[case["vi"]]
        for t in tvars:
            for ev in evars:
                d = {}
                if v is not ABSENT:
                    d["version"] = v
                if t is not ABSENT:
                    d["targets"] = t
                if ev is not ABSENT:
                    d["elements"] = ev
                self.evaluate(json.dumps(d), "top:v%s" % case["base"], stats, vs)
        d = dict(self.base_doc(case["base"]), version=v, extra_key={"a": [1, 2]})
        self.evaluate(json.dumps(d), "top:extra-key", stats, vs)

    def run_texts(self, case, stats, vs):
        good = json.dumps(self.base_doc(1))
        for text in ["", " ", "null", "1", "\"version\"", "[]", "[1]", "[{\"version\": 1}]", "{", good[:-1],
                     good + "x", good + good, "{\"version\": 1,}", "﻿" + good, "true",
                     "{\"version\": 1, \"version\": 2, \"targets\": [], \"elements\": []}",
                     "{\"version\": 2, \"version\": 1, \"targets\": [], \"elements\": []}",
                     "{\"version\": 1, \"targets\": [], \"targets\": [\"ui\"], \"elements\": []}",
                     "{\"version\": NaN, \"targets\": [], \"elements\": []}",
                     "{\"version\": 1e0, \"targets\": [], \"elements\": []}",
                     "{\"version\": 1, \"targets\": [], \"elements\": []}",
                     "{\"version\": 2, \"targets\": [], \"elements\": []}"]:
            self.evaluate(text, "text", stats, vs)

    # ---- (b) every signed_by function ---------------------------------------------------------
    def v1_el(self, i, n, sb, names, certifies):
        name = names[i]
        k = ("v1", i, name, repr(sb), certifies)
        e = self._c.get(k)
        if e is None:
            e = self.w1.element(name, sb, i % 2 == 1, certifies)
            self._c[k] = e
        return dict(e)

    def v2_el(self, i, name, kind, sb, signer):
        """Element number i (its own key is 'e<i>') shown under `name`, really signed by key `signer`."""
        k = ("v2", i, name, kind, repr(sb), signer)
        e = self._c.get(k)
        if e is not None:
            return dict(e)
        w = self.w2
        own = "e%d" % i
        if kind == "x509_pem":
            e = w.x509_element(name, sb, w.cert(own, signer, G.T0 - 100 * DAY, G.T0 + 100 * DAY))
        elif kind == "sgx_attestation_key":
            e = w.att_element(name, sb, signer, key_name=own)
        else:
            e = w.quote_element(name, sb, signer)
        self._c[k] = e
        return dict(e)

    def run_graph(self, case, stats, vs):
        ver, pat, n = case["ver"], case["pat"], case["n"]
        first = case["first"] or []
        if ver == 1:
            names = [G.V1_NAMES[i % 4] for i in range(n)]
            kinds = ["v1"] * n
        else:
            names = ["e%d" % i for i in range(n)]
            if pat == "x509":
                kinds = ["x509_pem"] * n
            else:
                kinds = ["x509_pem"] * n
                kinds[-1] = "sgx_quote"
                if n >= 2:
                    kinds[-2] = "sgx_attestation_key"
        own_names = list(names)
        rename = case.get("rename")
        if rename:
            names[rename[0]] = rename[1]
        if case.get("nameset") is not None:
            names = list(NAME_SETS[case["nameset"]][:n])
            rename = rename or [0, "non-string"]
        opts = names + [ROOTS[ver], "nobody", 7]
        if n == 4 and (case.get("rename") or case.get("nameset") is not None):
            tsets = [(i,) for i in range(n)] + [tuple(range(n))]
        elif n <= 3 or (n == 4 and self.thorough):
            tsets = [c for r in range(1, n + 1) for c in itertools.combinations(range(n), r)]
        elif n == 4:
            tsets = [c for r in (1, 2, 4) for c in itertools.combinations(range(n), r)]
        else:
            tsets = [(i,) for i in range(n)] + [tuple(range(n))]
        label = "graph:v%d:%s:n%d" % (ver, pat, n)
        if case.get("nameset") is not None:
            label += ":non-string-names"
        elif rename:
            label += ":named-like-root" if rename[1] else ":empty-name"
        for rest in itertools.product(range(n + 3), repeat=n - len(first)):
            f = list(first) + list(rest)
            sbs = [opts[j] for j in f]
            if ver == 1:
                parents = {s for s in sbs if isinstance(s, str)}
                els = [self.v1_el(i, n, sbs[i], own_names, names[i] in parents) for i in range(n)]
                if rename:
                    els[rename[0]]["name"] = rename[1]
            else:
                els = []
                for i in range(n):
                    # the sentinel wins over an element of the same name (that is what loading does)
                    if sbs[i] == ROOTS[ver]:
                        signer = "root"
                    elif f[i] < n and kinds[f[i]] in ("x509_pem", "sgx_attestation_key"):
                        signer = "e%d" % f[i]
                    else:
                        signer = "stranger"
                    els.append(self.v2_el(i, names[i], kinds[i], sbs[i], signer))
            # every element signed by an element or the root, names unique: genuine by construction
            # whenever each target reaches the root
            clean = (not rename) and len(set(names)) == n and all(j <= n for j in f)
            for ts in tsets:
                d = {"version": ver, "targets": [names[i] for i in ts], "elements": els}
                self.evaluate(json.dumps(d), label, stats, vs, must_load=clean and walk(d) is None)

    # ---- (c) field defects -----------------------------------------------------------------------
    def run_fields(self, case, stats, vs):
        ver, idx = case["ver"], case["idx"]
        base = self.base_doc(ver)
        e = base["elements"][idx]
        kind = e.get("type", "v1")
        fields = list(e.keys()) + ["unknown_field"]
        if ver == 1 and "tweak" not in fields:
            fields.append("tweak")
        leaf = base["targets"]
        other_names = {1: ["device", "ui", "nobody", "root"], 2: ["quote", "platform_ca", "nobody", "sgx_root"]}[ver]
        other_types = ["sgx_quote", "sgx_attestation_key", "x509_pem", "x509", "SGX_QUOTE", "sgx_quote ", "v1"]
        # target lists that leave the element a SPARE one (off every target's path): the elements above
        # it, and none at all
        by = {x["name"]: x for x in base["elements"]}
        above, cur = [], e
        while cur["signed_by"] in by:
            cur = by[cur["signed_by"]]
            above.append(cur["name"])
        spare_for = above[:1]
        for f in fields:
            extra = other_names if f in ("name", "signed_by") else other_types if f == "type" else []
            for v in self.variants() + extra:
                for targets in (leaf, [e["name"]], [x["name"] for x in base["elements"]], spare_for, []):
                    d = G.clone(base)
                    d["targets"] = list(targets)
                    if v is ABSENT:
                        d["elements"][idx].pop(f, None)
                    else:
                        d["elements"][idx][f] = v
                    self.evaluate(json.dumps(d), "field:v%d:%s:%s" % (ver, kind, f), stats, vs)

    def run_special(self, case, stats, vs):
        """Well-formed but unusual field contents, genuinely signed."""
        w = self.w2
        base = self.base_doc(2)
        leaf = "quoting_enclave"

        def with_(ne, targets=("quote",)):
            d = G.clone(base)
            for i, e in enumerate(d["elements"]):
                if e["name"] == ne["name"]:
                    d["elements"][i] = ne
            d["targets"] = list(targets)
            return json.dumps(d)
        for targets in (("quote",), ("attestation",), ("quote", "attestation")):
            for extra in (b"\x00", bytes(16), bytes(100)):
                self.evaluate(with_(w.att_element("attestation", leaf, leaf, extra=extra), targets),
                              "special:sgx_attestation_key:message-long", stats, vs)
                self.evaluate(with_(w.quote_element("quote", "attestation", "attkey", extra=extra), targets),
                              "special:sgx_quote:message-long", stats, vs)
            for cut in (1, 64, 200, 383):
                ne = w.att_element("attestation", leaf, leaf)
                msg = bytes.fromhex(ne["message"])[:-cut]
                ne["message"], ne["signature"] = msg.hex(), w.ec_sign(leaf, msg).hex()
                self.evaluate(with_(ne, targets), "special:sgx_attestation_key:message-short", stats, vs)
                ne = w.quote_element("quote", "attestation", "attkey")
                msg = bytes.fromhex(ne["message"])[:-cut]
                ne["message"], ne["signature"] = msg.hex(), w.ec_sign("attkey", msg).hex()
                self.evaluate(with_(ne, targets), "special:sgx_quote:message-short", stats, vs)
            for fmt in ("raw", "compressed"):
                self.evaluate(with_(w.att_element("attestation", leaf, leaf, key_fmt=fmt), targets),
                              "special:sgx_attestation_key:key-" + fmt, stats, vs)
            for bad in ("aa", "04" + "11" * 64, "02" + "ff" * 32, "00", "04" + "00" * 64):
                ne = w.att_element("attestation", leaf, leaf)
                ne["key"] = bad
                self.evaluate(with_(ne, targets), "special:sgx_attestation_key:key-not-a-point", stats, vs)
            for auth in (b"\x00", bytes(1000)):
                self.evaluate(with_(w.att_element("attestation", leaf, leaf, auth=auth), targets),
                              "special:sgx_attestation_key:auth-len", stats, vs)
            # every hex field in the other spellings the loader accepts for the same bytes
            for e0 in base["elements"]:
                if e0["type"] == "x509_pem":
                    continue
                for fld in ("message", "custom_data", "key", "auth_data", "signature"):
                    if fld not in e0:
                        continue
                    for sp, fn in G.HEX_SPELLINGS.items():
                        d = G.clone(base)
                        G.element_of(d, e0["name"])[fld] = fn(e0[fld])
                        d["targets"] = list(targets)
                        self.genuine_eval(d, "special:v2:hex-spelling", stats, vs)
            # the attestation key in every point encoding the loader accepts
            for fmt in ("raw", "compressed", "hybrid"):
                d = json.loads(with_(w.att_element("attestation", leaf, leaf, key_fmt=fmt), targets))
                self.genuine_eval(d, "special:v2:key-encoding", stats, vs)
        # base64 spellings of certificates
        for nm in ("quoting_enclave", "platform_ca"):
            for spell in (lambda b: "\n".join(b[i:i + 64] for i in range(0, len(b), 64)),
                          lambda b: b.rstrip("="), lambda b: b + "====", lambda b: " " + b + " ",
                          lambda b: b[:40] + "!" + b[40:],
                          lambda b: base64.b64encode(base64.b64decode(b) + b"\x00").decode(),
                          lambda b: base64.b64encode(base64.b64decode(b)[:-1]).decode(),
                          lambda b: "-----BEGIN CERTIFICATE-----" + b + "-----END CERTIFICATE-----",
                          lambda b: b[:-4]):
                for targets in (("quote",), (nm,)):
                    d = G.clone(base)
                    e = G.element_of(d, nm)
                    e["message"] = spell(e["message"])
                    d["targets"] = list(targets)
                    self.evaluate(json.dumps(d), "special:base64-spelling", stats, vs)
            for sp, fn in G.B64_SPELLINGS.items():
                d = G.clone(base)
                e = G.element_of(d, nm)
                e["message"] = fn(e["message"])
                self.genuine_eval(d, "special:v2:base64-spelling", stats, vs)
        # version 1 spellings
        b1 = self.base_doc(1)
        for i, e in enumerate(b1["elements"]):
            for fld in ("message", "signature", "tweak"):
                if fld not in e:
                    continue
                for spell in (lambda h: "0x" + h, lambda h: h + "0", lambda h: h[:1] + " " + h[1:]):
                    d = G.clone(b1)
                    d["elements"][i][fld] = spell(e[fld])
                    self.evaluate(json.dumps(d), "special:hex-spelling", stats, vs)
                for sp, fn in G.HEX_SPELLINGS.items():
                    for targets in (b1["targets"], [e["name"]]):
                        d = G.clone(b1)
                        d["elements"][i][fld] = fn(e[fld])
                        d["targets"] = list(targets)
                        self.genuine_eval(d, "special:v1:hex-spelling", stats, vs)
        # spelled fields of realistic length with one defect: loading must still terminate (with an
        # error, or with a certificate); and every binary field followed / preceded by stray bytes
        defects = (lambda h: h + "g", lambda h: h + "a", lambda h: h[:len(h) // 2] + "x" + h[len(h) // 2:],
                   lambda h: h + " g", lambda h: "g" + h, lambda h: h + " 0")
        for bdoc in (b1, base):
            for i, e in enumerate(bdoc["elements"]):
                if e.get("type") == "x509_pem":
                    continue
                for fld in ("message", "custom_data", "key", "auth_data", "signature", "tweak"):
                    if fld not in e:
                        continue
                    for sp, fn in list(G.HEX_SPELLINGS.items()) + [("plain", lambda h: h)]:
                        for df in defects:
                            d = G.clone(bdoc)
                            d["elements"][i][fld] = df(fn(e[fld]))
                            self.evaluate(json.dumps(d), "special:v%d:defective-spelling" % bdoc["version"],
                                          stats, vs)
                    for lab, nb in G.extra_bytes_variants(bytes.fromhex(e[fld])):
                        d = G.clone(bdoc)
                        d["elements"][i][fld] = nb.hex()
                        self.genuine_eval(d, "special:v%d:extra-bytes" % bdoc["version"], stats, vs)
        # version 1: tweak whose HMAC with the certifier key starts with one / two zero bytes
        w1 = self.w1
        for nz in (1, 2):
            for nm in ("ui", "signer"):
                d = G.clone(b1)
                e = G.element_of(d, nm)
                zt = w1.zero_tweak("attestation", nz)
                e["tweak"] = zt.hex()
                e["signature"] = w1.sign("attestation", zt, bytes.fromhex(e["message"])).hex()
                exp = self.genuine_eval(d, "special:v1:zero-hmac", stats, vs)
                if exp[nm][0] != "ok":
                    raise HarnessError("genuine chain with a short tweak scalar not valid for the reference")
        # version 1: the embedded certifier keys in the other encodings (parent re-signed)
        for parent, child in (("attestation", "ui"), ("device", "attestation")):
            for enc in ("compressed", "hybrid"):
                d = G.clone(b1)
                pe = G.element_of(d, parent)
                pm = bytes.fromhex(pe["message"])
                pub = w1.pub(parent)
                key = w1.pub(parent, compressed=True) if enc == "compressed" else G.k1_hybrid(pub)
                nm = pm[:-65] + key
                pe["message"] = nm.hex()
                pe["signature"] = w1.sign(pe["signed_by"], bytes.fromhex(pe["tweak"]) if "tweak" in pe else None,
                                          nm).hex()
                d["targets"] = [child, parent]
                self.genuine_eval(d, "special:v1:key-encoding", stats, vs)

    # ---- (f) element names: free text in version 2 ------------------------------------------------
    NAME_MENU = [
        "\u00e9", "\u540d\u524d", "\U0001f600", "quote-\ud83d", "\udc00", "a\u0000b", "\n", "\u007f", "\u2028",
        'a"b\\c', "'", "\\u0041", " ", "x" * 10000, "null", "true", "0", "[]", "{}", "-1e5", "NaN",
        "sgx_root\u0000", "\ufeff", "e\u0301", "\u00e9\u0301", "Quote", "QUOTE",
    ]

    def named_docs(self):
        """The genuine 4-element chain with one element (the quote = target, or the leaf certificate,
        which the attestation key names as certifier) renamed to each entry of NAME_MENU, consistently;
        plus the reserved-word documents shared with C07."""
        base = self.base_doc(2)
        out = []
        for nm in self.NAME_MENU:
            for old in ("quote", "quoting_enclave"):
                d = G.clone(base)
                for e in d["elements"]:
                    if e["name"] == old:
                        e["name"] = nm
                    if e["signed_by"] == old:
                        e["signed_by"] = nm
                d["targets"] = [nm if t == old else t for t in d["targets"]]
                out.append(("names:v2:" + ("target" if old == "quote" else "certifier"), d))
        for label, d, _ in G.reserved_name_docs(self.w2):
            out.append(("names:v2:" + label, d))
        for label, d in G.zero_value_docs(self.w2):
            out.append(("names:v2:" + label, d))
        for label, d in G.displaced_binding_docs(self.w2, offsets=(1, 7, 16, 31, 32)):
            out.append(("names:v2:" + label, d))
        return out

    def run_names(self, case, stats, vs):
        for label, d in self.named_docs()[case["part"]::4]:
            self.genuine_eval(d, label, stats, vs)

    def run_ascii(self, case, stats, vs):
        """The same load -> validate -> save -> load -> validate in a child process whose locale is
        ASCII (LC_ALL=C, UTF-8 mode and locale coercion off): files must round-trip there too."""
        import os
        import subprocess
        import sys
        from .. import env
        docs = [("v1-base", self.base_doc(1)), ("v2-base", self.base_doc(2))]
        picked = [d for d in self.named_docs() if d[0].startswith("names:v2:target")]
        docs += [("name-%d" % i, d) for i, (_, d) in enumerate(picked)]
        man = {"root1": self.root1, "root2": self.root2, "docs": [], "owned": self.impl.owned,
               "t0": G.T0.strftime("%Y-%m-%dT%H:%M:%S")}
        for did, d in docs:
            path = self.impl.path("ascii-" + did)
            with open(path, "w", encoding="ascii") as f:
                f.write(json.dumps(d))
            man["docs"].append({"id": did, "path": path})
        mpath = self.impl.path("ascii-manifest")
        with open(mpath, "w", encoding="ascii") as f:
            json.dump(man, f)
        cenv = dict(os.environ, LC_ALL="C", LANG="C", PYTHONUTF8="0", PYTHONCOERCECLOCALE="0",
                    PYTHONIOENCODING="ascii:backslashreplace")
        cenv.pop("LC_CTYPE", None)
        r = subprocess.run([sys.executable, "-X", "utf8=0", "-m", "verif.certchild", mpath], env=cenv,
                           cwd=env.HOME, capture_output=True, timeout=300)
        try:
            res = json.loads(r.stdout.decode("ascii").strip().splitlines()[-1])
        except Exception:   # noqa
            raise HarnessError("ASCII-locale child failed: rc=%s %s" % (r.returncode, r.stderr.decode("ascii", "replace")[-800:]))
        if "utf" in res["encoding"].lower().replace("-", "") or res["utf8_mode"]:
            stats.bump("ascii_locale_unavailable")
        for did, d in docs:
            stats.evaluations += 1
            c = res["docs"].get(did, {})
            text = json.dumps(d)
            label = "ascii-locale:" + ("base" if "base" in did else "name")
            stats.observe((label, c.get("load"), c.get("save"), c.get("reload"), c.get("same")))
            if c.get("load") != "ok":
                self.viol(vs, "C16:ascii-locale:genuine-refused:%s" % c.get("load"), text, label,
                          {"child": c, "encoding": res["encoding"]}, {"load": "ok"},
                          "a genuine certificate loads, whatever the locale")
            elif c.get("save") != "ok" or c.get("reload") != "ok" or c.get("same") is not True:
                step = "save" if c.get("save") != "ok" else "reload" if c.get("reload") != "ok" else "verdicts"
                self.viol(vs, "C16:ascii-locale:roundtrip:%s:%s" % (step, c.get(step, "differ")), text, label,
                          {"child": c, "encoding": res["encoding"]}, {"save": "ok", "reload": "ok", "same": True},
                          "save and load again: same verdicts and values, whatever the locale")
        for m in man["docs"]:
            for pth in (m["path"], m["path"] + ".saved"):
                if os.path.exists(pth):
                    os.unlink(pth)
        os.unlink(mpath)

    def genuine_eval(self, d, label, stats, vs):
        """d is well formed and every target has a path: it must load, and give the verdicts and values
        the reference computes (whatever they are; None where the statement defines no value)."""
        from ..refs import certref as R
        if d["version"] == 1:
            if getattr(self, "k1ver", None) is None:
                self.k1ver = R.K1Verifier()
            exp = R.v1_validate(d, self.w1.pub("root"), self.k1ver)
            want = {t: ((True, v[1], v[2]) if v[0] == R.OK else (False, v[1]) if v[0] == R.FAIL else None)
                    for t, v in exp.items()}
        else:
            exp = R.v2_validate(d, R.v2_root_element(self.root2), G.T0)
            want = {t: ((True, v[1], None) if v[0] == R.OK else (False, v[1]) if v[0] == R.FAIL else None)
                    for t, v in exp.items()}
        self.evaluate(json.dumps(d), label, stats, vs, must_load=True, expect=want)
        return exp

    # ---- (e) genuine certificates load through the tools' entry point, with the reference's verdicts
    def run_genuine(self, case, stats, vs):
        from ..refs import certref as R
        if case["ver"] == 1:
            w = self.w1
            ver = R.K1Verifier()
            root = w.pub("root")
            for k in range(1, 5):
                for path in itertools.permutations(G.V1_NAMES, k):
                    for mask in (0, (1 << k) - 1, 0b0101 & ((1 << k) - 1)):
                        shape = [(nm, "root" if i == 0 else path[i - 1], bool(mask >> i & 1))
                                 for i, nm in enumerate(path)]
                        for targets in ([path[-1]], list(path), list(reversed(path))):
                            d = w.doc(shape, targets)
                            exp = R.v1_validate(d, root, ver)
                            want = {t: (True, v[1], v[2]) if v[0] == R.OK else None for t, v in exp.items()}
                            if None in want.values():
                                raise HarnessError("genuine version-1 chain not valid for the reference")
                            self.evaluate(json.dumps(d), "genuine:v1", stats, vs, must_load=True, expect=want)
                            # one spoiled signature: loads all the same, reference names the failing element
                            d2 = G.clone(d)
                            e = d2["elements"][0]
                            e["signature"] = G.flip(bytes.fromhex(e["signature"]), 20, 1).hex()
                            exp = R.v1_validate(d2, root, ver)
                            want = {t: ((True, v[1], v[2]) if v[0] == R.OK else (False, v[1]) if v[0] == R.FAIL
                                        else None) for t, v in exp.items()}
                            self.evaluate(json.dumps(d2), "genuine:v1:one-bad-signature", stats, vs,
                                          must_load=True, expect=want)
        else:
            w = self.w2
            rel = R.v2_root_element(self.root2)

            def run(d, label):
                exp = R.v2_validate(d, rel, G.T0)
                want = {}
                for t, v in exp.items():
                    want[t] = (True, v[1], None) if v[0] == R.OK else (False, v[1]) if v[0] == R.FAIL else None
                self.evaluate(json.dumps(d), label, stats, vs, must_load=True, expect=want)
                return exp
            for depth in (1, 2, 3):
                for nest in ("wide-top", "narrow-top"):
                    for auth in (None, b"", b"\x07", bytes(300)):
                        d, _, _ = w.chain(depth, nest, auth=auth)
                        exp = run(d, "genuine:v2")
                        if exp["quote"][0] != R.OK:
                            raise HarnessError("genuine version-2 chain not valid for the reference")
                        for e in d["elements"]:
                            d2 = G.clone(d)
                            e2 = G.element_of(d2, e["name"])
                            if e["type"] == "x509_pem":
                                der = base64.b64decode(e["message"])
                                e2["message"] = base64.b64encode(G.flip(der, len(der) - 9, 2)).decode()
                            else:
                                e2["signature"] = G.flip(bytes.fromhex(e["signature"]), 30, 1).hex()
                            run(d2, "genuine:v2:one-bad-signature")

    # ---- (c') every kind under every kind, ancestors valid -----------------------------------
    def run_kinds(self, case, stats, vs):
        """root -> ca (P-256 certificate) -> k0 -> k1 -> k2 for every sequence of 1..3 kinds out of
        KINDS, each element really signed by its parent's key where the parent has one (of whatever
        curve), so that validation reaches every element; kinds that cannot certify (quote, non-P-256
        certificate under an SGX element) included."""
        w = self.w2
        ca = w.x509_element("ca", "sgx_root", w.cert("ca", "root", G.T0 - 100 * DAY, G.T0 + 100 * DAY))
        for n in (1, 2, 3):
            for rest in itertools.product(range(len(KINDS)), repeat=n - 1):
                seq = [KINDS[case["first"]]] + [KINDS[i] for i in rest]
                els = [ca]
                pname, pkey, pcurve = "ca", "ca", "p256"
                for i, (kind, curve) in enumerate(seq):
                    name = "k%d" % i
                    signer, scurve = (pkey, pcurve) if pkey is not None else ("stranger", "p256")
                    if kind == "x509_pem":
                        els.append(w.x509_element(name, pname, w.cert(
                            name, signer, G.T0 - 100 * DAY, G.T0 + 100 * DAY, scurve=curve, icurve=scurve)))
                        pkey, pcurve = name, curve
                    elif kind == "sgx_attestation_key":
                        els.append(w.att_element(name, pname, signer, key_name=name, signer_curve=scurve))
                        pkey, pcurve = name, "p256"
                    else:
                        els.append(w.quote_element(name, pname, signer, signer_curve=scurve))
                        pkey, pcurve = None, None
                    pname = name
                names = ["k%d" % i for i in range(n)]
                tls = [[names[-1]], list(names), ["ca"] + names] + ([[x] for x in names[:-1]])
                for tl in tls:
                    d = {"version": 2, "targets": tl, "elements": list(reversed(els))}
                    self.evaluate(json.dumps(d), "kinds:%s" % seq[-1][0], stats, vs)

    # ---- (d) twelve elements ------------------------------------------------------------------
    def run_long(self, case, stats, vs):
        ver = case["ver"]
        n = 12
        if ver == 2:
            w = self.w2
            names = ["c%d" % i for i in range(10)] + ["attestation", "quote"]

            def build(parent_of, targets):
                els = []
                for i, nm in enumerate(names):
                    sb = parent_of(i)
                    signer = "root" if sb == "sgx_root" else sb if sb in names[:10] else \
                        "attkey" if sb == "attestation" else "stranger"
                    if i < 10:
                        els.append(w.x509_element(nm, sb, w.cert(nm, signer, G.T0 - 100 * DAY, G.T0 + 100 * DAY)))
                    elif i == 10:
                        els.append(w.att_element(nm, sb, signer))
                    else:
                        els.append(w.quote_element(nm, sb, signer))
                return json.dumps({"version": 2, "targets": targets, "elements": els})
            root = "sgx_root"
        else:
            w1 = self.w1
            names = [G.V1_NAMES[i % 4] for i in range(n)]

            def build(parent_of, targets):
                els = []
                sbs = [parent_of(i) for i in range(n)]
                parents = {s for s in sbs if isinstance(s, str)}
                for i, nm in enumerate(names):
                    els.append(w1.element(nm, sbs[i], i % 2 == 1, nm in parents))
                return json.dumps({"version": 1, "targets": targets, "elements": els})
            root = "root"
        shapes = {
            "chain": lambda i: root if i == 0 else names[i - 1],
            "chain-reversed-file-order": lambda i: root if i == n - 1 else names[i + 1],
            "cycle": lambda i: names[(i + 1) % n],
            "cycle-back": lambda i: names[(i - 1) % n],
            "rho": lambda i: names[6] if i == 0 else names[i - 1],
            "rho-deep": lambda i: names[11] if i == 6 else (root if i == 0 else names[i - 1]),
            "dangling-top": lambda i: "nobody" if i == 0 else names[i - 1],
            "nonstring-top": lambda i: 7 if i == 0 else names[i - 1],
            "null-top": lambda i: None if i == 0 else names[i - 1],
            "self-signed": lambda i: names[i],
            "star": lambda i: root,
            "two-cycles": lambda i: names[i ^ 1],
            "chain-with-self-signed-middle": lambda i: root if i == 0 else names[i] if i == 5 else names[i - 1],
        }
        tvars = [[names[-1]], [names[0]], [names[5]], list(names), list(reversed(names)), [names[-1]] * 12]
        for sname, fn in shapes.items():
            for t in tvars:
                self.evaluate(build(fn, t), "long:v%d:%s" % (ver, sname), stats, vs)

    # ---- one execution -----------------------------------------------------------------------
    def viol(self, vs, key, text, label, observed, expected, clause):
        if ":nontermination:" in key:
            # one hit ends the case; a handful over all workers ends the run (see run_case)
            with self.hangs.get_lock():
                self.hangs.value += 1
            vs.append(Violation("C16", key, {"kind": "one", "text": text, "label": label}, None,
                                observed, expected, clause))
            raise _Enough()
        vs.append(Violation("C16", key, {"kind": "one", "text": text, "label": label}, None,
                            observed, expected, clause))

    def validate(self, cert, version):
        from ..certharness import norm_result
        if version == 1:
            root = self.impl.root_v1(self.root1)
            out = self.impl.budgeted(lambda: cert.validate_and_get_values(root))
        else:
            self.zone_turn = (getattr(self, "zone_turn", 0) + 1) % 3
            with self.impl.clock(G.T0, (None, "VRF3", "VRF-5:30")[self.zone_turn]):
                root = self.impl.root_v2(self.root2)
                out = self.impl.budgeted(lambda: cert.validate_and_get_values(root))
        if out[0] == "ok":
            try:
                return ("ok", norm_result(out[1]))
            except Exception as e:   # noqa
                return ("raise", e)
        return out

    def evaluate(self, text, label, stats, vs, must_load=False, expect=None):
        stats.evaluations += 1
        impl = self.impl
        out = impl.budgeted(lambda: impl.load_text(text))
        if out[0] == "budget":
            stats.observe((label, "load-budget"))
            self.viol(vs, "C16:nontermination:load:" + label, text, label, {"budget": out[1]},
                      {"outcome": "returns or raises"}, "load terminates")
            return
        if out[0] == "raise":
            stats.observe((label, "load-error", type(out[1]).__name__))
            stats.sample({"label": label, "text": text[:300], "outcome": "error " + type(out[1]).__name__})
            if must_load:
                # genuine by construction: every element really signed, every target with a finite
                # path to the root, every field well formed -> the tools' entry point must load it
                ver = label.split(":")[1] if label.count(":") else "?"
                self.viol(vs, "C16:genuine-refused:%s:%s" % (ver, type(out[1]).__name__), text, label,
                          {"from_jsonfile": repr(out[1])}, {"from_jsonfile": "a certificate"},
                          "a genuine certificate loads through HSMCertificate.from_jsonfile")
            return
        cert = out[1]
        td = impl.budgeted(cert.to_dict)
        if td[0] != "ok":
            stats.observe((label, "to_dict", td[0]))
            if td[0] == "budget":
                self.viol(vs, "C16:nontermination:save:" + label, text, label, {"budget": td[1]}, {}, "save")
            else:
                cls, frame = self.impl.where(td[1])
                self.viol(vs, "C16:save-raises:%s:%s:%s" % (type(td[1]).__name__, cls, frame), text, label,
                          {"to_dict": repr(td[1])}, {"to_dict": "a dictionary"}, "saving a loaded certificate")
            return
        d = td[1]
        reason = walk(d)
        if reason is not None:
            stats.observe((label, "loaded-without-path", reason))
            self.viol(vs, "C16:target-without-path:%s:%s" % (reason, label.split(":")[0]), text, label,
                      {"loaded": d}, {"error": reason}, "every target has a cycle-free path to the root")
            return
        version = d["version"]
        types = {e["name"]: e.get("type", "v1") for e in d["elements"]}
        r1 = self.validate(cert, version)
        if r1[0] == "budget":
            stats.observe((label, "validate-budget"))
            self.viol(vs, "C16:nontermination:validate:" + label, text, label, {"budget": r1[1]}, {},
                      "validation terminates")
            return
        tkinds = sorted({types[t] for t in d["targets"]})
        if r1[0] == "raise":
            cls, frame = self.impl.where(r1[1])
            self.viol(vs, "C16:validate-raises:%s:%s:%s" % (type(r1[1]).__name__, cls, frame),
                      text, label, {"validate": repr(r1[1]), "targets": d["targets"]},
                      {"validate": "an entry per target"}, "validation yields a verdict for every target")
            v1sig = ("raise", type(r1[1]).__name__)
        else:
            res = r1[1]
            bad = [t for t in d["targets"] if t not in res] if isinstance(res, dict) else d["targets"]
            shape_ok = isinstance(res, dict) and all(verdict(v) is not None for v in res.values())
            if bad or not shape_ok:
                self.viol(vs, "C16:verdict-missing:" + "+".join(tkinds), text, label, {"result": res},
                          {"targets": d["targets"]}, "an entry per target")
            v1sig = ("ok", tuple(sorted((str(k), bool(v[0])) for k, v in res.items()))) \
                if isinstance(res, dict) and shape_ok else ("?",)
            if expect is not None and isinstance(res, dict):
                for t, want in expect.items():
                    if want is not None and not same_verdict(res.get(t), want):
                        self.viol(vs, "C16:genuine-verdict:%s:%s" % (label.split(":")[1], types.get(t)), text, label,
                                  {"target": t, "result": res.get(t)}, {"target": t, "result": want},
                                  "a genuine certificate gives the verdicts the reference computes")
        # save -> load -> validate
        sv = impl.budgeted(lambda: impl.save(cert))
        if sv[0] != "ok":
            stats.observe((label, "save", sv[0]))
            self.viol(vs, "C16:save-raises:%s" % (type(sv[1]).__name__ if sv[0] == "raise" else "budget"),
                      text, label, {"save": repr(sv[1])}, {}, "saving a loaded certificate")
            return
        ld = impl.budgeted(lambda: impl.load_text(sv[1], "again"))
        if ld[0] != "ok":
            stats.observe((label, "reload", ld[0]))
            self.viol(vs, "C16:reload-fails:%s:%s" % (type(ld[1]).__name__ if ld[0] == "raise" else "budget",
                                                      label.split(":")[0]),
                      text, label, {"reload": repr(ld[1]), "saved": sv[1][:600]}, {"reload": "loads"},
                      "saved certificate loads again")
            return
        r2 = self.validate(ld[1], version)
        v2sig = ("raise", type(r2[1]).__name__) if r2[0] == "raise" else (r2[0],)
        same = (r1[0] == r2[0]) and (r1[1] == r2[1] if r1[0] == "ok" else
                                      (r1[0] != "raise" or type(r1[1]) is type(r2[1])))
        vclass = tuple(sorted({(str(types.get(k)), str(verdict(v) and verdict(v)[0])) for k, v in r1[1].items()})) \
            if r1[0] == "ok" and isinstance(r1[1], dict) else v1sig
        stats.observe((label, "loaded", vclass, same))
        stats.sample({"label": label, "text": text[:300], "outcome": "loaded", "verdicts": repr(vclass)})
        if not same:
            # which saved field differs from what was loaded?
            diff = "-"
            try:
                src = json.loads(text)
                by = {e["name"]: e for e in src["elements"] if isinstance(e, dict) and "name" in e}
                for e in d["elements"]:
                    s = by.get(e["name"], {})
                    for k2, v in e.items():
                        sv2 = s.get(k2)
                        if isinstance(v, str) and isinstance(sv2, str) and k2 in ("message", "signature", "key",
                                                                                "auth_data", "custom_data", "tweak"):
                            try:
                                eq = (base64.b64decode(v) == base64.b64decode(sv2)) if e.get("type") == "x509_pem" \
                                    else bytes.fromhex(v) == bytes.fromhex(sv2)
                            except Exception:   # noqa
                                eq = v == sv2
                        else:
                            eq = v == sv2
                        if not eq and (diff == "-" or diff.endswith(".key")):
                            # (a key saved in another encoding of the same point is blamed last)
                            diff = "%s.%s" % (e.get("type", "v1"), k2)
                    for k2 in s:
                        if k2 not in e and k2 in ("tweak", "message", "signature", "key", "auth_data",
                                                  "custom_data", "signed_by", "name") and diff == "-":
                            diff = "%s.%s-dropped" % (e.get("type", "v1"), k2)
            except Exception:   # noqa
                pass
            self.viol(vs, "C16:roundtrip-changes-verdict:" + diff, text, label,
                      {"before": r1[1] if r1[0] == "ok" else repr(r1[1]),
                       "after": r2[1] if r2[0] == "ok" else repr(r2[1])},
                      {"after": "same as before"}, "save and load again: same verdicts and values")


CHECK = C16
