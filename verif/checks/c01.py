"""C01 - signing relays to the device exactly what the client asked to have signed.

Model checking of the device dialogue: for each well-formed sign request the device
side is a nondeterministic automaton (PolicySigner); every choice sequence with at
most B departures from the firmware's default behaviour is executed against the real
protocol + APDU layer; the device-side reassembly is compared with an independent
encoding of the JSON request."""
import struct

from ..framework import Check, Violation
from ..xplore import explore, run_once, HarnessError
from ..env import Rng
from ..refs import btc as B
from .. import reqs, harness
from ..simdev.base import World
from ..simdev.policy import PolicySigner, der_menu

DOC_SIGN_CODES = {0, -101, -102, -103, -901, -902, -903, -904, -905, -906}
V1_CODES = {0, -2, -666}


def ref_der(sig):
    """independent parse of the device's answer: 30|31 L 02 lr R 02 ls S [rubbish]"""
    if len(sig) < 2 or sig[0] not in (0x30, 0x31) or len(sig) - 2 < sig[1]:
        return None
    b = sig[2:]
    if len(b) < 2 or b[0] != 2 or len(b) - 2 < b[1]:
        return None
    r = b[2:2 + b[1]]
    b = b[2 + b[1]:]
    if len(b) < 2 or b[0] != 2 or len(b) - 2 < b[1]:
        return None
    s = b[2:2 + b[1]]
    return r, s


class C01(Check):
    id = "C01"
    level = "model_checking"
    rule = ("request shapes (key paths x legacy/segwit/hash, tx 1..3 inputs with present/absent "
            "signatures, index / witness-script / outpoint / receipt / proof boundary values, "
            "upper-case hex, v5 and v1 mode) x every device policy with <= B deviations from "
            "the firmware default at each answer (chunk size alphabet, over-ask, early move-on, "
            "late re-ask, final DER menu); for receipts/proofs of <= L bytes every composition "
            "of the length. An execution is non-trivial when it takes >= 1 non-default choice; "
            "classes are (shape kind, phases consumed, early/late, final answer kind, reply code).")
    assumptions = [
        "byte values come from a seeded generator (VERIF_SEED), not enumerated",
        "bitcoin.core is the shim in /verif/shims; the expected blanked transaction comes from "
        "the independent parser in verif/refs/btc.py",
        "BIP144-serialised client transactions are outside the alphabet",
        "device answers shorter than the 3/4 header bytes are not injected",
    ]
    trusted_base = ["verif/simdev/policy.py (policy device)", "verif/refs/btc.py",
                    "/verif/shims/bitcoin"]

    def prepare(self):
        self.bound = 3 if self.thorough else 2
        self.compose_max = 12 if self.thorough else 9
        rng = Rng("c01")
        self.ders = der_menu(rng)
        self.shapes = self.build_shapes()

    def bounds(self):
        return {"deviation_bound": self.bound, "deviation_bound_big_shapes": 2 if self.thorough else 1,
                "compositions_up_to_bytes": self.compose_max, "late_reasks": 2}

    def alphabets(self):
        return {"chunk_sizes": ["fw default min(rem,80)", 1, 2, 7, 255, "rem", "rem+1"],
                "final": [g[0] for g in self.ders[0]] + [b[0] for b in self.ders[1]],
                "shapes": len(self.shapes)}

    # ------------------------------------------------------------------
    def build_shapes(self):
        rng = Rng("c01-shapes")
        shapes = []

        def add(kind, big=False, **kw):
            kw["kind"] = kind
            kw["big"] = big
            kw["name"] = "%s-%d" % (kind, len(shapes))
            shapes.append(kw)

        redeem = reqs.redeem_script(rng)
        tx1 = reqs.mk_tx(rng, [reqs.signed_script(rng, 2, (True, False), redeem)], nout=1)
        tx2 = reqs.mk_tx(rng, [reqs.signed_script(rng, 2, (False, False), redeem),
                               reqs.signed_script(rng, 3, (True, True), redeem)], nout=2, version=2)
        tx3 = reqs.mk_tx(rng, [reqs.signed_script(rng, 1, (True,), redeem),
                               b"\x00" + B.minimal_push(rng.nz_bytes(80)),
                               reqs.signed_script(rng, 2, (True, True), redeem)], nout=1)
        dup = B.minimal_push(redeem) + B.minimal_push(rng.nz_bytes(70)) + B.minimal_push(redeem)
        tx4 = reqs.mk_tx(rng, [dup, b"\x52\x53\x52"], nout=1)
        # the same spending transaction in BIP144 wire format (marker, flag, one witness stack per
        # input): the witness section is part of "the client's transaction" and is relayed untouched
        t5 = B.parse_tx(tx2)
        t5["witness"] = [[rng.nz_bytes(72), redeem], [b"", rng.nz_bytes(33)]]
        tx5 = B.serialize_tx(t5)
        t6 = B.parse_tx(tx1)
        t6["witness"] = [[b"\x01"]]
        tx6 = B.serialize_tx(t6)
        self.txs = [tx1, tx2, tx3, tx4, tx5, tx6]
        receipt = reqs.mk_receipt(rng, 90)
        proof = [rng.nz_bytes(33), rng.nz_bytes(7)]
        ws = rng.nz_bytes(71)
        # base shapes: paths x modes
        for p in (0, 1):
            for mode in ("legacy", "segwit"):
                add("auth", path=p, mode=mode, tx=p, index=p, receipt=receipt.hex(),
                    proof=[n.hex() for n in proof], ws=ws.hex(), value=1 + p)
        add("auth", path=0, mode="legacy", tx=3, index=1, receipt=receipt.hex(),
            proof=[n.hex() for n in proof], ws=ws.hex(), value=3)
        for p in (2, 3, 4, 5):
            add("hash", path=p, hash=rng.bytes(32).hex(), v1=False)
        for p in (2, 5):
            add("hash", path=p, hash=rng.bytes(32).hex(), v1=True)
        add("hash", path=3, hash=rng.bytes(32).hex().upper(), v1=False)
        # one large-dimension value at a time on two base shapes
        for mode, txi in (("legacy", 2), ("segwit", 0)):
            for index in (0x01020304, 2 ** 32 - 1):
                add("auth", path=0, mode=mode, tx=txi, index=index, receipt=receipt.hex(),
                    proof=[n.hex() for n in proof], ws=ws.hex(), value=7)
            for rl in (1, 2, 3, 10, 255, 256, 600):
                r = reqs.mk_receipt(rng, rl) if rl >= 3 else rng.nz_bytes(rl)
                add("auth", big=rl > 200, path=1, mode=mode, tx=txi, index=0, receipt=r.hex(),
                    proof=[n.hex() for n in proof], ws=ws.hex(), value=7)
            for pr in ([1], [1, 32, 255], [1] * 255, [255, 255, 255]):
                nodes = [rng.nz_bytes(n).hex() for n in pr]
                add("auth", big=sum(pr) > 100, path=0, mode=mode, tx=txi, index=0,
                    receipt=receipt.hex(), proof=nodes, ws=ws.hex(), value=7)
        for wl in (1, 252, 253, 300):
            add("auth", big=wl > 200, path=0, mode="segwit", tx=0, index=0, receipt=receipt.hex(),
                proof=[n.hex() for n in proof], ws=rng.nz_bytes(wl).hex(), value=7)
        for val in (1, 0x0102030405060708, 2 ** 64 - 1):
            add("auth", path=1, mode="segwit", tx=1, index=1, receipt=receipt.hex(),
                proof=[n.hex() for n in proof], ws=ws.hex(), value=val)
        add("auth", path=0, mode="legacy", tx=0, index=0, receipt=receipt.hex().upper(),
            proof=[n.hex().upper() for n in proof], ws=ws.hex(), value=7, upper=True)
        for mode, txi in (("legacy", 4), ("segwit", 4), ("segwit", 5)):
            add("auth", path=0, mode=mode, tx=txi, index=1 if txi == 4 else 0, receipt=receipt.hex(),
                proof=[n.hex() for n in proof], ws=ws.hex(), value=9)
        # other spellings of the same bytes that the validators accept (blanks between the bytes,
        # as bytes.fromhex skips them): the text is longer than twice the byte count
        for mode, txi, rl, pr, wl in (("legacy", 1, 90, [33, 7], 71), ("segwit", 0, 255, [200, 255, 171], 252),
                                      ("legacy", 2, 300, [255] * 3, 71)):
            r = reqs.mk_receipt(rng, rl)
            add("auth", big=True, path=0, mode=mode, tx=txi, index=0, receipt=r.hex(" "),
                proof=[rng.nz_bytes(n).hex(" ") for n in pr], ws=rng.nz_bytes(wl).hex(" "), value=7,
                spell="blanks")
        # parts that take more than a thousand / tens of thousands of messages: long receipts asked for
        # byte by byte, a transaction of 90 kB in firmware-sized requests, the largest proof
        manyin = reqs.mk_tx(rng, [reqs.signed_script(rng, 2, (True, True), redeem)] * 400, nout=2)
        self.txs.append(manyin)
        add("auth", big=True, long=True, path=0, mode="legacy", tx=len(self.txs) - 1, index=399,
            receipt=reqs.mk_receipt(rng, 3000).hex(), proof=[rng.nz_bytes(255).hex() for _ in range(20)],
            ws=ws.hex(), value=7)
        add("auth", big=True, long=True, path=1, mode="segwit", tx=0, index=0,
            receipt=reqs.mk_receipt(rng, 1100).hex(), proof=[rng.nz_bytes(255).hex() for _ in range(255)],
            ws=ws.hex(), value=7)
        # repeated entries: the same node several times, a receipt equal to a node
        node = rng.nz_bytes(40).hex()
        add("auth", path=1, mode="legacy", tx=1, index=1, receipt=receipt.hex(),
            proof=[node, proof[0].hex(), node, node], ws=ws.hex(), value=7)
        add("auth", path=1, mode="segwit", tx=0, index=0, receipt=receipt.hex(),
            proof=[receipt.hex(), receipt.hex()], ws=receipt.hex(), value=7)
        add("hash", path=2, hash=rng.bytes(32).hex(" "), v1=False, spell="blanks")
        add("hash", path=2, hash=rng.bytes(32).hex(" "), v1=True, spell="blanks")
        return shapes

    def cases(self):
        cs = []
        for i, s in enumerate(self.shapes):
            if s.get("long"):
                for force in (80, 1, 255) if (self.thorough or i % 2 == 0) else (80, 7):
                    cs.append({"kind": "shape", "shape": i, "force": force})
                # the other dongle classes (TCP, SGX: their own connection and, possibly, framing) with the
                # largest and an ordinary chunk size
                for plat in ("tcp", "sgx"):
                    for force in ((255, 80) if self.thorough else (255,)):
                        cs.append({"kind": "shape", "shape": i, "force": force, "platform": plat})
                continue
            cs.append({"kind": "shape", "shape": i})
        # every composition of short receipts / proofs
        for L in range(3, self.compose_max + 1):
            cs.append({"kind": "compose", "phase": "receipt", "L": L})
        for L in range(2, self.compose_max + 1):
            cs.append({"kind": "compose", "phase": "proof", "L": L})
        for order in range(5):
            cs.append({"kind": "sequence", "order": order})
        return cs

    # ------------------------------------------------------------------
    def request_and_expectation(self, s):
        path = reqs.PATHS[s["path"]]
        pb = reqs.path_binary(path)
        if s["kind"] == "hash":
            h = bytes.fromhex(s["hash"])
            req = reqs.sign_request(path, hash_hex=s["hash"], version=1 if s.get("v1") else 5)
            return req, {"first": pb + h, "auth": False, "v1": bool(s.get("v1"))}
        tx = self.txs[s["tx"]]
        txhex = tx.hex().upper() if s.get("upper") else (tx.hex(" ") if s.get("spell") == "blanks" else tx.hex())
        req = reqs.sign_request(path, txhex, s["index"], s["mode"], s["receipt"], s["proof"],
                                witness_script=s["ws"], outpoint_value=s["value"])
        canon, _ok = B.blank_tx(tx)
        if s["mode"] == "segwit":
            ws = bytes.fromhex(s["ws"])
            ed = B.enc_varint(len(ws)) + ws + struct.pack("<Q", s["value"])
            mode = 1
        else:
            ed = b""
            mode = 0
        btc = struct.pack("<I", len(canon) + 7) + bytes([mode]) + struct.pack("<H", len(ed)) + canon + ed
        nodes = [bytes.fromhex(n) for n in s["proof"]]
        proof = bytes([len(nodes)]) + b"".join(bytes([len(n)]) + n for n in nodes)
        return req, {"first": pb + struct.pack("<I", s["index"]), "auth": True, "v1": False,
                     "btc": btc, "receipt": bytes.fromhex(s["receipt"]), "proof": proof}

    def driver(self, s, compose=None):
        req, exp = self.request_and_expectation(s)

        def run(ctx):
            import copy
            lens = {k: len(exp[k]) for k in ("btc", "receipt", "proof")} if exp["auth"] else {}
            dev = PolicySigner(ctx, lens, exp["auth"], self.ders, compose=compose)
            if s.get("long"):
                dev.force_sticky = s.get("force", 80)
            w = World(dev, max_exchanges=200000 if s.get("long") else 3000)
            proto = harness.make_protocol(w, v1=exp["v1"], platform=s.get("platform", "ledger"))
            reply, exc = harness.handle_request(proto, copy.deepcopy(req))
            return dev, w, reply, exc
        return run, exp

    def judge(self, s, exp, ctx, obs, stats, vs, case):
        dev, w, reply, exc = obs
        name = s["kind"] + ("-v1" if exp["v1"] else "")

        def viol(clause, observed, expected):
            vs.append(Violation("C01", "C01:%s:%s" % (clause, name), case, list(ctx.choices),
                                observed, expected, clause))
        code = reply.get("errorcode") if isinstance(reply, dict) else None
        if exc is not None or not isinstance(code, int) or isinstance(code, bool):
            viol("no-reply", {"reply": reply, "exc": exc}, "a reply with an integer errorcode")
            return
        if w.livelock:
            viol("livelock", {"exchanges": w.seq}, "termination")
            return
        if s.get("spell") and dev.first is None and code != 0 and code in (V1_CODES if exp["v1"] else DOC_SIGN_CODES):
            # a manager that refuses the unusual spelling outright (no device contact) is as good as
            # one that reads it: the statement speaks of well-formed requests
            stats.dont_care += 1
            return
        if dev.errors:
            viol("protocol", {"errors": dev.errors}, "no APDU outside the dialogue")
        if dev.first != exp["first"]:
            viol("path-index", {"first": dev.first}, {"first": exp["first"]})
        consumed_all = True
        if exp["auth"]:
            for ph in ("btc", "receipt", "proof"):
                got = dev.recv[ph]
                want = exp[ph]
                if got != want[:len(got)]:
                    viol("content-" + ph, {"received": got}, {"prefix_of": want})
                off = 0
                for reqn, chunk in dev.chunks[ph]:
                    if chunk != want[off:off + reqn]:
                        viol("chunking-" + ph, {"asked": reqn, "at": off, "got": chunk},
                             {"chunk": want[off:off + reqn]})
                        break
                    off += len(chunk)
                if len(got) != len(want):
                    consumed_all = False
            if dev.finished is None and dev.phase is not None and not dev.errors and dev.early is None:
                ph = dev.PHASES[dev.phase][0]
                if len(dev.recv[ph]) < len(exp[ph]):
                    viol("abandoned-" + ph, {"received": len(dev.recv[ph]), "errorcode": code},
                         {"all_bytes": len(exp[ph]), "why": "the device kept asking within the data"})
        fin = dev.finished
        ok_expected = consumed_all and fin is not None and fin[0] == "good"
        allowed = V1_CODES if exp["v1"] else DOC_SIGN_CODES
        if code not in allowed:
            viol("undocumented-code", {"errorcode": code}, {"allowed": sorted(allowed)})
        if ok_expected:
            rs = ref_der(fin[1][1])
            sig = reply.get("signature") if isinstance(reply, dict) else None
            if code != 0 or not isinstance(sig, dict) or rs is None \
                    or sig.get("r") != rs[0].hex() or sig.get("s") != rs[1].hex():
                viol("success-expected", {"reply": reply},
                     {"errorcode": 0, "r": rs[0].hex() if rs else None,
                      "s": rs[1].hex() if rs else None})
        else:
            if code == 0:
                viol("success-unexpected", {"reply": reply, "early": dev.early,
                                            "final": fin[1][0] if fin else None},
                     "an error code: the device did not consume everything / did not answer a "
                     "well-formed success")
        if dev.extra_apdus:
            viol("apdu-after-end", {"extra": dev.extra_apdus}, 0)
        stats.observe((name, s.get("mode"), tuple(len(dev.recv[p]) == len(exp.get(p, b"")) for p in
                       ("btc", "receipt", "proof")) if exp["auth"] else None,
                       dev.early, fin[1][0] if fin else None, code,
                       tuple(sorted(set(p[1].split(":")[0] for c, p in zip(ctx.choices, ctx.points) if c)))),
                      nontrivial=any(ctx.choices))
        if any(ctx.choices):
            stats.sample({"shape": s["name"], "choices": list(ctx.choices),
                          "labels": [p[1] for p in ctx.points], "reply": reply}, cap=3)

    def sequence(self, case, stats):
        """all request shapes one after the other on ONE long-lived protocol + dongle object over a
        conforming device; what the device ends up holding and every reply must equal those of
        the same request on fresh objects (differential oracle: no state may leak between
        requests - caches, memoised results, stale chunk sizes)"""
        import copy
        from ..simdev.powhsm import PowHsm
        vs = []
        shapes = [s for s in self.shapes if not s["big"]]
        order = case["order"]
        idx = list(range(len(shapes)))
        if order == 1:
            idx.reverse()
        elif order == 2:
            idx = idx[::2] + idx[1::2]
        elif order == 3:
            idx = [i for pair in zip(idx, idx) for i in pair]      # every request twice in a row
        reqs_ = [self.request_and_expectation(shapes[i]) for i in idx]

        def one(proto, dev, req, spoil=None):
            if spoil is not None:
                # the same request refused by the device at exchange `spoil[1]` first (error status):
                # nothing the manager had in flight may leak into the next request
                wl, at = spoil
                base = wl.seq
                wl.inject = lambda world, i, apdu: ("sw", 0x6A8C) if i - base == at else None
                harness.handle_request(proto, copy.deepcopy(req))
                wl.inject = None
                dev.reset_session()
            n = len(dev.held)
            reply, exc = harness.handle_request(proto, copy.deepcopy(req))
            return reply, exc, [h for h in dev.held[n:]]
        fresh = []
        for req, exp in reqs_:
            dev = PowHsm(seed=b"c01-seq")
            proto = harness.make_protocol(World(dev), v1=exp["v1"])
            fresh.append(one(proto, dev, req))
        dev = PowHsm(seed=b"c01-seq")
        w = World(dev)
        protos = {False: harness.make_protocol(w, v1=False)}
        protos[True] = harness.make_protocol(w, v1=True)
        protos[True].hsm2dongle = protos[False].hsm2dongle
        protos[True].protocol_v2.hsm2dongle = protos[False].hsm2dongle
        for k, (req, exp) in enumerate(reqs_):
            stats.evaluations += 1
            got = one(protos[exp["v1"]], dev, req, spoil=(w, 1 + k % 5) if order == 4 else None)
            same = got == fresh[k]
            stats.observe(("sequence", order, shapes[idx[k]]["kind"], same), nontrivial=True)
            if not same:
                vs.append(Violation(
                    "C01", "C01:history-dependence:%s" % shapes[idx[k]]["kind"],
                    dict(case, upto=k), None,
                    {"position": k, "shape": shapes[idx[k]]["name"], "reply": got[0], "exc": got[1],
                     "held": got[2]},
                    {"reply_on_fresh_objects": fresh[k][0], "held": fresh[k][2]}, "history"))
                break
        return vs

    def run_case(self, case, stats):
        vs = []
        if case["kind"] == "sequence":
            return self.sequence(case, stats)
        if case["kind"] in ("shape", "one-shape"):
            s = self.shapes[case["shape"]]
            if s.get("long"):
                s = dict(s, force=case.get("force", 80))
            if case.get("platform"):
                s = dict(s, platform=case["platform"])
            run, exp = self.driver(s)
            bound = self.bound
            if s["big"]:
                bound = 2 if self.thorough else 1
            if s.get("long"):
                bound = 0        # thousands of exchanges: the default answers only (the size is forced)
        else:
            rng = Rng("c01-compose-%s-%d" % (case["phase"], case["L"]))
            base = dict(self.shapes[0])
            base["name"] = "compose-%s-%d" % (case["phase"], case["L"])
            if case["phase"] == "receipt":
                base["receipt"] = reqs.mk_receipt(rng, case["L"]).hex()
            else:
                # proof bytes total L = 1 + sum(1+len): one node of L-2 bytes, or two nodes
                L = case["L"]
                if L >= 5:
                    nodes = [rng.nz_bytes(1), rng.nz_bytes(L - 4)]
                else:
                    nodes = [rng.nz_bytes(L - 2)] if L > 2 else [rng.nz_bytes(1)]
                base["proof"] = [n.hex() for n in nodes]
            s = base
            run, exp = self.driver(s, compose=case["phase"])
            bound = None   # decided below: restrict deviations to the composed phase

        if case["kind"] == "one-shape" or "choices" in case:
            if case["kind"] == "compose":
                ph0 = case["phase"]
                ctx, obs = run_once(lambda c: run(_OnlyPhase(c, ph0)), case["choices"])
            else:
                ctx, obs = run_once(run, case["choices"])
            self.judge(s, exp, ctx, obs, stats, vs, case)
            return vs

        def check(ctx, obs):
            c = dict(case)
            c["choices"] = list(ctx.choices)
            self.judge(s, exp, ctx, obs, stats, vs, c)

        if case["kind"] == "compose":
            ph = case["phase"]

            def run_restricted(ctx):
                return run(_OnlyPhase(ctx, ph))
            explore(run_restricted, check, stats, bound=None, max_execs=400000)
        else:
            explore(run, check, stats, bound=bound)
        return vs

    def replay(self, case, choices):
        from ..xplore import Stats
        c = dict(case)
        c["choices"] = list(choices or case.get("choices") or [])
        return self.run_case(c, Stats())


class _OnlyPhase:
    """Ctx proxy: choices outside one phase take the default (keeps 'every composition'
    a full tree over that phase only)."""

    def __init__(self, ctx, phase):
        self._c = ctx
        self._p = phase

    def choose(self, n, label="", free=False):
        if label.startswith(self._p + ":"):
            return self._c.choose(n, label, free)
        return 0

    def state(self, key):
        self._c.state(key)


CHECK = C01
