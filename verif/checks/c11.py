"""C11 - link failures get a device-error reply and are repaired on the next request.

Fault-position enumeration over request histories: command x exchange index x fault
kind x follow-up request x reconnection outcome, on the real handler + protocol +
APDU layer over a conforming device; the oracle is a two-state reference automaton
(repair pending / not pending) read off the property statement."""
import json

from ..framework import Check, Violation
from ..xplore import HarnessError
from .. import harness, dialogues
from ..simdev.base import World
from ..simdev.powhsm import MODE_BOOTLOADER, PowHsm, MODE_SIGNER

BRINGUP = [0x06, 0x43, 0x06, 0x11]


class C11(Check):
    id = "C11"
    level = "fault_enumeration"
    rule = ("nominal request (14, both protocol modes) x exchange index at which the link fails x "
            "fault kind {write error, read error, timeout} x follow-up request (device-touching "
            "commands and 'version') x reconnection outcome {ok, connect fails 1 or 2 (thorough 3) "
            "times then ok}, followed by further requests until repaired and one more. Classes = "
            "(command, step kind, fault, follow-up, connect failures, reply codes).")
    assumptions = [
        "only the three HID-shaped fault kinds the statement lists; no second fault during the repair",
        "the exchanges at which the middleware expects the link to drop (exit_app inside "
        "uiHeartbeat) are dont_care, and so are histories in which the fault leaves the device "
        "outside signer mode (bring-up then stops by itself)",
        "the simulated handle keeps opened == True after a fault, as the HID one does",
    ]
    trusted_base = ["verif/simdev/powhsm.py (conforming device)", "verif/simdev/base.py (transport)"]

    def prepare(self):
        self.reqs = dialogues.nominal_requests()
        self.reqs.pop("uiHeartbeat-inplace", None)     # device outside signer mode: not C11's scope
        self.nominal = {}
        self.pre_violations = []
        for name in self.reqs:
            w, replies, _ = self.history(name, None, None, [], 0)
            r = replies[0]
            if r[1] is not None or not isinstance(r[0], dict) or r[0].get("errorcode") not in (0, 1):
                self.pre_violations.append(Violation(
                    "C11", "C11:nominal-dialogue-fails:%s" % name,
                    {"name": name, "idx": 0, "fault": "none", "follow": "version", "k": 0}, None,
                    {"reply": r[0], "exc": r[1]}, {"errorcode": "0/1"}, "nominal"))
            ex = w.exchanges()
            own_opens = sum(1 for e in w.log if e[0] == "open") - 1      # minus make_protocol's connect
            self.nominal[name] = {"n": len(ex), "opens": max(0, own_opens), "reply": r[0],
                                  "apdus": [e[2] for e in ex],
                                  "kinds": [dialogues.classify_exchange(name, e[2]) for e in ex]}
        # what "the full bring-up checks" are on this tree: the exchanges of the real
        # initialize_device against a device that is already in the signer (must at least ask
        # for the onboarded flag and the mode)
        w0 = World(PowHsm(seed=b"c11"))
        p0 = harness.make_protocol(w0, connected=False)
        p0.initialize_device()
        global BRINGUP
        BRINGUP = [e[2][1] for e in w0.log if e[0] == "x"]
        if 0x06 not in BRINGUP or 0x43 not in BRINGUP:
            self.pre_violations.append(Violation(
                "C11", "C11:bring-up-does-not-check-onboarding-and-mode",
                {"name": "getPubKey", "idx": 0, "fault": "none", "follow": "version", "k": 0}, None,
                {"bring_up_apdus": BRINGUP}, "onboarded flag and mode queried", "bring-up"))
        self.bringup = BRINGUP
        self.follow5 = ["getPubKey", "sign-hash", "state", "advance-nobrothers", "signerHeartbeat",
                        "params", "version"]
        if self.thorough:
            self.follow5 += ["sign-legacy", "updateAncestor", "reset", "uiHeartbeat",
                             "advance-brothers", "sign-segwit"]
        self.follow1 = ["v1-getPubKey", "v1-sign", "version1"]
        self.kmax = 3 if self.thorough else 2

    def bounds(self):
        return {"connect_failures": list(range(self.kmax + 1)), "requests_per_history": "2 + k + 1"}

    def alphabets(self):
        return {"commands": {k: v["n"] for k, v in self.nominal.items()},
                "follow_ups_v5": self.follow5, "follow_ups_v1": self.follow1}

    def cases(self):
        cs = []
        for name, nom in self.nominal.items():
            for idx in range(nom["n"]):
                cs.append({"name": name, "idx": idx})
                if idx in (0, nom["n"] // 2, nom["n"] - 1):
                    # the same with the manager's -D/--iodebug option (what is logged on the way)
                    cs.append({"name": name, "idx": idx, "iodebug": True})
            # commands that re-open the connection themselves (the UI heartbeat leaves and re-enters
            # the signer): each of their own getDongle calls failing
            for j in range(1, nom.get("opens", 0) + 1):
                cs.append({"name": name, "idx": 0, "inner_open": j})
        # two faults in a row: a time-out in one request, a link failure at the first exchange of the next
        for name, nom in self.nominal.items():
            for idx in sorted({0, nom["n"] - 1}):
                cs.append({"name": name, "idx": idx, "twofaults": True})
        # the other dongle classes (TCP, SGX: their own connect / disconnect): first and last exchange
        for name, nom in self.nominal.items():
            if name == "uiHeartbeat":
                continue          # leaves and re-enters the signer: a Ledger matter
            for idx in sorted({0, nom["n"] - 1}):
                for plat in ("tcp", "sgx"):
                    cs.append({"name": name, "idx": idx, "platform": plat})
        # the link failure IS a restart of the device (back in the bootloader, locked), at every exchange
        # of every command: whatever the command does about it on its way out, the next request
        # starts with the repair
        for name, nom in self.nominal.items():
            cs.append({"name": name, "idx": 0, "reboot": True})
        # the device comes back locked, in the bootloader: the repair is the long bring-up (unlock,
        # signer launched, second open); each of its exchanges failing in turn
        for platform in ("ledger", "sgx"):
            for v1 in (False, True):
                cs.append({"relock": platform, "v1": v1, "name": "relock", "idx": 0})
        return cs

    def req_of(self, name):
        if name == "version":
            return {"command": "version"}
        if name == "version1":
            return {"command": "version"}
        return self.reqs[name]

    def history(self, name, idx, fault, follow, k, second=None, inner_open=None, reboot=False):
        debug = getattr(self, "debug_dongle", False)
        """returns (world, [(reply, exc)], [log slices])"""
        v1 = name.startswith("v1-")
        dev = dialogues.configure(PowHsm(seed=b"c11"), name)
        w = World(dev)
        platform = getattr(self, "platform", "ledger")
        dev.platform = platform
        # a device that went away is found again only after a reset of the HID stack (USB only)
        w.hid_model = platform == "ledger"
        proto = harness.make_protocol(w, v1=v1, debug=debug, platform=platform)
        base = len(w.log)
        armed = {"on": idx is not None, "base": None}

        def inject(world, i, apdu):
            if not armed["on"]:
                return None
            if armed["base"] is None:
                armed["base"] = i
            if i - armed["base"] == idx:
                armed["on"] = False
                if reboot:
                    # the link failed because the device restarted: it is back in the bootloader, locked
                    # (a write error: before the command arrived; a read error: after it was taken)
                    def restart():
                        dev.mode, dev.unlocked = MODE_BOOTLOADER, False
                        dev.reset_session()
                    if fault == "write":
                        restart()
                    else:
                        orig = dev.handle

                        def once(apdu):
                            del dev.handle
                            try:
                                return orig(apdu)
                            finally:
                                restart()
                        dev.handle = once
                return (fault,)
            return None
        w.inject = inject
        replies, slices = [], []
        if inner_open is not None:
            w.fail_open_at = w.opens_seen + inner_open
        o = harness.handle_line(proto, json.dumps(self.req_of(name)).encode())
        w.fail_open_at = None
        replies.append((o.reply, o.exc))
        slices.append(w.log[base:])
        armed["on"] = False
        w.connect_failures = k
        if second is not None:
            # fail the j-th exchange of the next bring-up (j >= 1: after the onboarded query)
            j, kind2 = second
            st = {"base": None, "done": False}

            def inject2(world, i, apdu):
                if st["done"]:
                    return None
                if st["base"] is None:
                    st["base"] = i
                if i - st["base"] == j:
                    st["done"] = True
                    return (kind2,)
                return None
            w.inject = inject2
        for f in follow:
            b = len(w.log)
            o = harness.handle_line(proto, json.dumps(self.req_of(f)).encode())
            replies.append((o.reply, o.exc))
            slices.append(w.log[b:])
        return w, replies, slices

    def run_case(self, case, stats):
        self.debug_dongle = bool(case.get("iodebug"))
        self.platform = case.get("platform", "ledger")
        try:
            vs = self._run_case(case, stats)
            if self.platform != "ledger":
                for v in vs:
                    if isinstance(v.d.get("case"), dict):
                        v.d["case"]["platform"] = self.platform
                        v.d["key"] = v.d["key"] + ":" + self.platform
            if self.debug_dongle:
                for v in vs:
                    if isinstance(v.d.get("case"), dict):
                        v.d["case"]["iodebug"] = True
                        v.d["key"] = v.d["key"] + ":iodebug"
            return vs
        finally:
            self.debug_dongle = False
            self.platform = "ledger"

    def _run_case(self, case, stats):
        vs = []
        name, idx = case["name"], case["idx"]
        v1 = name.startswith("v1-")
        if case.get("fault") == "none":
            return [v for v in self.pre_violations if v.d["case"]["name"] == name]
        if case.get("relock"):
            self.relock(case, stats, vs)
            return vs
        if case.get("twofaults"):
            self.twofaults(case, stats, vs)
            return vs
        if case.get("reboot"):
            self.reboot(case, stats, vs)
            return vs
        if case.get("inner_open"):
            follows = self.follow1 if v1 else self.follow5
            for f in follows:
                self.inner(name, case["inner_open"], f, stats, vs)
            return vs
        if case.get("second"):
            self.second(name, idx, case["fault"], case["follow"], case["second"][0], case["second"][1],
                        stats, vs)
            return vs
        if "fault" in case:
            self.one(name, idx, case["fault"], case["follow"], case["k"], stats, vs)
            return vs
        follows = self.follow1 if v1 else self.follow5
        for fault in ("write", "read", "timeout"):
            for f in follows:
                for k in range(self.kmax + 1):
                    if fault == "timeout" and k > 0:
                        continue
                    self.one(name, idx, fault, f, k, stats, vs)
        # the repair itself is hit by a fault after the onboarded query (mode, version, parameters)
        if idx in (0, self.nominal[name]["n"] - 1):
            for fault in ("write", "read"):
                for j in (1, 2, 3):
                    if j >= len(self.bringup):
                        continue      # a shorter bring-up on this tree: exchange j is the command's own
                    for kind2 in ("timeout", "write", "read"):
                        self.second(name, idx, fault, follows[0], j, kind2, stats, vs)
        return vs

    def reboot(self, case, stats, vs):
        name = case["name"]
        v1 = name.startswith("v1-")
        derr = -2 if v1 else -905
        drain = "v1-getPubKey" if v1 else "getPubKey"
        nom = self.nominal[name]
        idxs = [case["at"]] if "at" in case else range(nom["n"])
        for idx in idxs:
            for fault in ([case["kind"]] if "kind" in case else ("write", "read")):
                stats.evaluations += 1
                w, replies, slices = self.history(name, idx, fault, [drain, drain], 0, reboot=True)
                codes = [r[0].get("errorcode") if isinstance(r[0], dict) else None for r in replies]
                stats.observe(("reboot", name, nom["kinds"][idx], fault, tuple(codes), tuple(r[1] for r in replies)),
                              nontrivial=True)
                c = dict(case, at=idx, kind=fault)

                def viol(clause, observed, expected):
                    vs.append(Violation("C11", "C11:%s:%s:restart+%s@%s" % (clause, name, fault, nom["kinds"][idx]),
                                        c, None, observed, expected, clause))
                if nom["kinds"][idx] == "exit":
                    stats.dont_care += 1
                    continue
                if replies[0][1] is not None:
                    viol("faulted-request-stops-manager", {"exc": replies[0][1]}, {"errorcode": derr})
                    continue
                if codes[0] != derr:
                    viol("faulted-request-code", {"reply": replies[0][0]}, {"errorcode": derr})
                    continue
                ent = [(e[0], e[2][1] if e[0] == "x" else None) for e in slices[1]]
                xs = [i for i, e in enumerate(ent) if e[0] == "x"]
                opens = [i for i, e in enumerate(ent) if e[0] == "open"]
                if not opens or (xs and xs[0] < opens[0]):
                    viol("no-repair-after-restart", {"log": ent[:8], "reply": replies[1][0]},
                         "close / getDongle() and the bring-up checks before any APDU of the request")
                    continue
                first = [e[1] for e in ent[opens[0] + 1:opens[0] + 3]]
                if first != self.bringup[:2]:
                    viol("bring-up-incomplete", {"apdus_after_open": first, "log": ent[:8]},
                         {"apdus_after_open": self.bringup[:2]})
                    continue
                if replies[1][1] == "RequestHandlerShutdown":
                    stats.dont_care += 1      # the bring-up decided to stop: C09's matter
                    continue
                if replies[1][1] is not None or codes[1] not in (0, 1):
                    viol("follow-up-fails-after-repair", {"reply": replies[1][0], "exc": replies[1][1],
                                                         "log": ent[:12]}, {"errorcode": "0/1"})

    def twofaults(self, case, stats, vs):
        """request 1 times out at exchange idx (no repair is due for a time-out), request 2 meets a
        write / read error at its first exchange: device-error code both times, and request 3 repairs
        (close, open, bring-up) before its own APDUs"""
        name, idx = case["name"], case["idx"]
        v1 = name.startswith("v1-")
        derr = -2 if v1 else -905
        if self.nominal[name]["kinds"][idx] == "exit":
            return
        drain = "v1-getPubKey" if v1 else "getPubKey"
        kinds2 = [case["kind2"]] if case.get("kind2") else ["write", "read"]
        for kind2 in kinds2:
            stats.evaluations += 1
            dev = dialogues.configure(PowHsm(seed=b"c11"), name)
            w = World(dev)
            proto = harness.make_protocol(w, v1=v1, debug=getattr(self, "debug_dongle", False))
            b1 = w.seq
            w.inject = lambda world, i, apdu: ("timeout",) if i - b1 == idx else None
            o1 = harness.handle_line(proto, json.dumps(self.req_of(name)).encode())
            if dev.mode != MODE_SIGNER:
                stats.dont_care += 1
                continue
            b2 = w.seq
            w.inject = lambda world, i, apdu: (kind2,) if i == b2 else None
            o2 = harness.handle_line(proto, json.dumps(self.req_of(drain)).encode())
            w.inject = None
            mark = len(w.log)
            o3 = harness.handle_line(proto, json.dumps(self.req_of(drain)).encode())
            codes = [o.reply.get("errorcode") if isinstance(o.reply, dict) else None for o in (o1, o2, o3)]
            stats.observe(("twofaults", name, idx, kind2, tuple(codes), (o1.exc, o2.exc, o3.exc)), nontrivial=True)
            c = dict(case, kind2=kind2)

            def viol(clause, observed, expected):
                vs.append(Violation("C11", "C11:%s:%s:timeout-then-%s" % (clause, name, kind2), c, None,
                                    observed, expected, clause))
            if o1.exc or o2.exc or o3.exc:
                viol("faulted-request-stops-manager", {"exc": [o1.exc, o2.exc, o3.exc]}, "replies")
                continue
            if codes[0] != derr or codes[1] != derr:
                viol("faulted-request-code", {"codes": codes[:2]}, {"errorcode": derr})
                continue
            ent = [(e[0], e[2][1] if e[0] == "x" else None) for e in w.log[mark:]]
            opens = [i for i, e in enumerate(ent) if e[0] == "open"]
            xs = [i for i, e in enumerate(ent) if e[0] == "x"]
            if not opens or (xs and xs[0] < opens[0]):
                viol("repair-not-done", {"log": ent[:8], "reply": o3.reply},
                     "close / getDongle() and the bring-up before the request's own APDU")
                continue
            after = [e[1] for e in ent[opens[0] + 1:opens[0] + 1 + len(BRINGUP)]]
            if after != BRINGUP or codes[2] not in (0, 1):
                viol("repair-incomplete", {"apdus_after_open": after, "reply": o3.reply}, {"apdus_after_open": BRINGUP})

    def relock(self, case, stats, vs):
        """link failure, the device comes back LOCKED (bootloader): the repairing request unlocks it,
        launches the signer and opens the connection again; exchange j of that long bring-up fails
        (time-out / write / read).  That request gets the device-error code, the manager keeps
        running, and the next request starts with getDongle() and the bring-up checks again, before
        its own APDU."""
        from .c10 import PinDevice
        platform, v1 = case["relock"], case["v1"]
        derr = -2 if v1 else -905
        req = {"command": "getPubKey", "version": 1 if v1 else 5, "keyId": "m/44'/137'/0'/0/0"}
        line = json.dumps(req).encode()

        def scenario(j, kind2):
            dev = PinDevice(platform, b"1234567a")
            dev.mode, dev.unlocked = 3, True
            w = World(dev)
            proto = harness.make_protocol(w, v1=v1, platform=platform)
            base = w.seq
            w.inject = lambda world, i, apdu: ("read",) if i == base else None
            out = [harness.handle_line(proto, line)]
            dev.power_cycle()
            if j is None:
                w.inject = None
            else:
                b2 = w.seq
                w.inject = lambda world, i, apdu: (kind2,) if i - b2 == j else None
            marks = [len(w.log)]
            out.append(harness.handle_line(proto, line))
            w.inject = None
            marks.append(len(w.log))
            out.append(harness.handle_line(proto, line))
            marks.append(len(w.log))
            out.append(harness.handle_line(proto, line))
            return dev, w, out, marks
        # length of the fault-free repair
        dev, w, out, marks = scenario(None, None)
        n = sum(1 for e in w.log[marks[0]:marks[1]] if e[0] == "x")
        codes0 = [o.reply.get("errorcode") if isinstance(o.reply, dict) else None for o in out]
        if codes0[0] != derr or codes0[1] not in (0, 1) or any(o.exc for o in out):
            vs.append(Violation("C11", "C11:relock-repair-fails:%s" % platform, dict(case), None,
                                {"codes": codes0, "exc": [o.exc for o in out]},
                                {"codes": [derr, 0, 0, 0]}, "relock"))
            return
        for j in range(n - 1):          # the last exchange is the request's own command
            for kind2 in ("timeout", "write", "read"):
                stats.evaluations += 1
                dev, w, out, marks = scenario(j, kind2)
                codes = [o.reply.get("errorcode") if isinstance(o.reply, dict) else None for o in out]
                stats.observe(("relock", platform, v1, j, kind2, tuple(codes), tuple(o.exc for o in out)),
                              nontrivial=True)
                c = dict(case, j=j, kind2=kind2)

                def viol(clause, observed, expected):
                    vs.append(Violation("C11", "C11:%s:relock-%s:%s@%d" % (clause, platform, kind2, j), c, None,
                                        observed, expected, clause))
                if "RequestHandlerShutdown" in (out[1].exc, out[2].exc):
                    # the bring-up decided to stop the manager (a failed step of the bootloader
                    # phase ends in an interrupt by design: C09's matter)
                    stats.dont_care += 1
                    continue
                if out[1].exc is not None or out[2].exc is not None:
                    viol("failed-repair-stops-manager", {"exc": [out[1].exc, out[2].exc], "raw": out[1].raw},
                         {"errorcode": derr})
                    continue
                if codes[1] in (0, 1):
                    continue      # the fault hit an exchange whose failure the bring-up tolerates
                if codes[1] != derr:
                    viol("failed-repair-code", {"reply": out[1].reply}, {"errorcode": derr})
                    continue
                ent = [(e[0], e[2][1] if e[0] == "x" else None) for e in w.log[marks[1]:marks[2]]]
                xs = [i for i, e in enumerate(ent) if e[0] == "x"]
                opens = [i for i, e in enumerate(ent) if e[0] in ("open", "open-fail")]
                if kind2 == "timeout" and False:
                    continue
                if not xs:
                    continue
                if not opens or opens[0] > xs[0]:
                    viol("repair-not-retried", {"log": ent[:8], "reply": out[2].reply},
                         "getDongle() and the bring-up checks before any APDU of the request")
                    continue
                first = [e[1] for e in ent[opens[0] + 1:opens[0] + 3]]
                if first != BRINGUP[:2]:
                    viol("repair-retry-incomplete", {"apdus_after_open": first, "log": ent[:8]},
                         {"apdus_after_open": BRINGUP[:2]})

    def inner(self, name, j, f, stats, vs):
        """the j-th getDongle call the command makes itself fails: device-error code, the manager
        keeps running, and the next request repairs the connection (open, full bring-up) before
        its own APDUs"""
        v1 = name.startswith("v1-")
        derr = -2 if v1 else -905
        drain = "v1-getPubKey" if v1 else "getPubKey"
        stats.evaluations += 1
        w, replies, slices = self.history(name, None, None, [f, drain], 0, inner_open=j)
        codes = [r[0].get("errorcode") if isinstance(r[0], dict) else None for r in replies]
        stats.observe((name, "inner-open", j, f, tuple(codes), tuple(r[1] for r in replies),
                       w.device.mode == MODE_SIGNER), nontrivial=True)
        case = {"name": name, "idx": 0, "inner_open": j, "follow": f}

        def viol(clause, observed, expected):
            vs.append(Violation("C11", "C11:%s:%s:own-open-%d" % (clause, name, j), case, None,
                                observed, expected, clause))
        if replies[0][1] is not None:
            viol("failed-reconnect-stops-manager", {"exc": replies[0][1], "reply": replies[0][0]},
                 {"errorcode": derr})
            return
        if codes[0] != derr:
            # the statement speaks of the request whose connection "cannot be re-established"; a command
            # that tries its own reconnection again, gets the device back and completes exactly the
            # nominal dialogue is left free (benign C04-b7)
            log0 = [e[0] for e in slices[0]]
            retried = "open-fail" in log0 and "open" in log0[log0.index("open-fail"):]
            if retried and replies[0][0] == self.nominal[name]["reply"] \
                    and [e[2] for e in slices[0] if e[0] == "x"] == self.nominal[name]["apdus"]:
                stats.dont_care += 1
                return
            viol("failed-reconnect-code", {"reply": replies[0][0]}, {"errorcode": derr})
            return
        if w.device.mode != MODE_SIGNER:
            stats.dont_care += 1       # the device was left in another application: the bring-up decides
            return
        if f.startswith("version"):
            i = 2
        else:
            i = 1
        ent = [(e[0], e[2][1] if e[0] == "x" else None) for e in slices[i]]
        opens = [n for n, e in enumerate(ent) if e[0] == "open"]
        if not opens or any(e[0] == "x" for e in ent[:opens[0]]):
            viol("repair-not-retried", {"log": ent[:8], "reply": replies[i][0], "exc": replies[i][1]},
                 "getDongle() and the full bring-up before any command APDU")
            return
        after = [e[1] for e in ent[opens[0] + 1:opens[0] + 1 + len(BRINGUP)]]
        if after != BRINGUP or replies[i][1] is not None or codes[i] not in (0, 1):
            viol("repair-retry-incomplete", {"apdus_after_open": after, "reply": replies[i][0],
                                             "exc": replies[i][1]}, {"apdus_after_open": BRINGUP})

    def second(self, name, idx, fault, f, j, kind2, stats, vs):
        """link failure, then a fault at exchange j of the repair's bring-up: that request gets
        the device-error code and the following one repeats the whole repair"""
        v1 = name.startswith("v1-")
        derr = -2 if v1 else -905
        kind = self.nominal[name]["kinds"][idx]
        if kind == "exit" or f.startswith("version"):
            return
        drain = "v1-getPubKey" if v1 else "getPubKey"
        stats.evaluations += 1
        w, replies, slices = self.history(name, idx, fault, [f, drain, drain], 0, second=(j, kind2))
        codes = [r[0].get("errorcode") if isinstance(r[0], dict) else None for r in replies]
        stats.observe((name, kind, fault, "second", j, kind2, tuple(codes), tuple(r[1] for r in replies)))
        case = {"name": name, "idx": idx, "fault": fault, "follow": f, "k": 0, "second": [j, kind2]}

        def viol(clause, observed, expected):
            vs.append(Violation("C11", "C11:%s:%s:%s+%s@bringup%d" % (clause, name, fault, kind2, j),
                                case, None, observed, expected, clause))
        if w.device.mode != MODE_SIGNER:
            stats.dont_care += 1
            return
        if replies[0][1] is not None or codes[0] != derr:
            return      # judged by one()
        if replies[1][1] is not None:
            viol("failed-repair-stops-manager", {"exc": replies[1][1]}, {"errorcode": derr})
            return
        if codes[1] != derr:
            viol("failed-repair-code", {"reply": replies[1][0]}, {"errorcode": derr})
            return
        # the following request must repair again: (close) -> open -> full bring-up -> command
        ent = [(e[0], e[2][1] if e[0] == "x" else None) for e in slices[2]]
        opens = [i for i, e in enumerate(ent) if e[0] == "open"]
        if not opens:
            viol("repair-not-retried", {"log": ent[:8], "reply": replies[2][0]},
                 "close/open and the full bring-up before the command")
            return
        after = [e[1] for e in ent[opens[0] + 1:opens[0] + 1 + len(BRINGUP)]]
        if after != BRINGUP or replies[2][1] is not None or codes[2] not in (0, 1):
            viol("repair-retry-incomplete", {"apdus_after_open": after, "reply": replies[2][0],
                                             "exc": replies[2][1]}, {"apdus_after_open": BRINGUP})

    def one(self, name, idx, fault, f, k, stats, vs):
        v1 = name.startswith("v1-")
        derr = -2 if v1 else -905
        kind = self.nominal[name]["kinds"][idx]
        drain = "v1-getPubKey" if v1 else "getPubKey"
        follow = [f] + [drain] * (k + 2)
        stats.evaluations += 1
        w, replies, slices = self.history(name, idx, fault, follow, k)
        codes = [r[0].get("errorcode") if isinstance(r[0], dict) else None for r in replies]
        stats.observe((name, kind, fault, f, k, tuple(codes), tuple(r[1] for r in replies)))
        stats.sample({"command": name, "index": idx, "step": kind, "fault": fault, "follow_up": f,
                      "connect_failures": k, "codes": codes}, cap=4)

        def viol(clause, observed, expected):
            vs.append(Violation("C11", "C11:%s:%s:%s@%s" % (clause, name, fault, kind),
                                {"name": name, "idx": idx, "fault": fault, "follow": f, "k": k},
                                None, observed, expected, clause))
        if kind == "exit":
            stats.dont_care += 1
            return
        # 1. the faulted request
        rep, exc = replies[0]
        if exc is not None:
            viol("faulted-request-stops-manager", {"exc": exc, "reply": rep},
                 {"errorcode": derr, "manager": "keeps running"})
            return
        if codes[0] != derr:
            viol("faulted-request-code", {"reply": rep}, {"errorcode": derr})
            return
        if w.device.mode != MODE_SIGNER and all(c == derr or c is None for c in codes[1:2]):
            pass
        device_ok = True
        pending = fault in ("write", "read")
        handle_open = True     # the faulted handle still claims to be open
        # 2. the following requests
        for i, fname in enumerate(follow, 1):
            rep, exc = replies[i]
            sl = slices[i]
            touches = not fname.startswith("version")
            entries = [(e[0], e[2][1] if e[0] == "x" else None) for e in sl]
            if not touches:
                if sl or exc is not None or codes[i] != 0:
                    viol("version-touches-device", {"log": entries, "reply": rep, "exc": exc},
                         {"log": [], "errorcode": 0})
                    return
                continue
            if w.device.mode != MODE_SIGNER or not device_ok:
                # bring-up may stop by itself: outside the statement
                stats.dont_care += 1
                return
            if pending:
                pos = 0
                if handle_open:
                    if not entries or entries[0][0] != "close":
                        viol("no-close-before-reopen", {"log": entries[:8]},
                             "close() of the old handle first")
                        return
                    pos = 1
                    handle_open = False
                if len(entries) <= pos or entries[pos][0] not in ("open", "open-fail"):
                    viol("no-reopen", {"log": entries[:8]}, "getDongle() after close()")
                    return
                reopened = True
                if entries[pos][0] == "open-fail":
                    # the request may try again by itself (closing in between or not): what counts is
                    # whether the connection was re-established before it gave up
                    while pos < len(entries) and entries[pos][0] in ("open-fail", "close"):
                        if entries[pos][0] == "open-fail":
                            failed_opens = locals().get("failed_opens", 0) + 1
                        pos += 1
                    if failed_opens > k:
                        viol("reconnect-does-not-succeed-when-the-device-is-back",
                             {"failed_attempts": failed_opens, "log": entries[:6]},
                             {"connect_failures_injected": k})
                        return
                    reopened = pos < len(entries) and entries[pos][0] == "open"
                    if not reopened and len(entries) > pos:
                        viol("traffic-after-failed-connect", {"log": entries[:8]}, "nothing")
                        return
                if not reopened:
                    if exc is not None:
                        viol("failed-reconnect-stops-manager", {"exc": exc}, {"errorcode": derr})
                        return
                    if codes[i] != derr:
                        viol("failed-reconnect-code", {"reply": rep}, {"errorcode": derr})
                        return
                    continue     # still pending
                pos += 1
                got = [e[1] for e in entries[pos:pos + len(BRINGUP)]]
                if got != BRINGUP:
                    viol("bring-up-incomplete", {"apdus_after_open": got, "log": entries[:10]},
                         {"apdus_after_open": BRINGUP})
                    return
                pending = False
                handle_open = True
                rest = entries[pos + len(BRINGUP):]
            else:
                rest = entries
                if fname != "uiHeartbeat" and any(e[0] != "x" for e in entries):
                    if fault == "timeout" and not locals().get("touched_before"):
                        # the statement asks for the repair after a link failure "(not a time-out)"; it
                        # does not forbid a manager that also re-opens the connection after a time-out
                        # (a stream transport must: the late answer is still in the stream)
                        stats.dont_care += 1
                        return
                    viol("reconnect-without-cause", {"log": entries[:8]}, "no close/open")
                    return
            touched_before = True
            if exc is not None:
                viol("follow-up-stops-manager", {"exc": exc, "request": fname}, "a reply")
                return
            if codes[i] not in (0, 1):
                viol("follow-up-fails-after-repair", {"reply": rep, "request": fname,
                                                     "log": entries[:10]}, {"errorcode": "0/1"})
                return
            if not rest or rest[0][0] != "x":
                viol("no-command-after-repair", {"log": entries[:10]}, "command APDUs")
                return

    def replay(self, case, choices):
        from ..xplore import Stats
        return self.run_case(case, Stats())


CHECK = C11
