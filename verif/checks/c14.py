"""C14 - clearing of signature placeholders is canonical and loses nothing else.

Bounded exhaustive enumeration of serialized transactions (all scripts up to k
operations over an op menu covering every push encoding, multi-input products,
every truncation / trailing-garbage point) against an independent byte-level
parser; driven both through comm.bitcoin.get_unsigned_tx and through the whole
sign path down to what a conforming device ends up holding.
"""
import itertools
import struct

from ..framework import Check, Violation, optimized
from ..env import Rng
from ..refs import btc as B
from .. import reqs, harness
from ..simdev.base import World
from ..simdev.powhsm import PowHsm


def op_menu(rng):
    multisig = reqs.redeem_script(rng, 3)
    assert len(multisig) == 105, len(multisig)
    return [
        ("OP_0", b"\x00"),
        ("push1", b"\x01\x81"),
        ("push2", b"\x02" + rng.nz_bytes(2)),
        ("push75", b"\x4b" + rng.nz_bytes(75)),
        ("pd1_76", b"\x4c\x4c" + rng.nz_bytes(76)),
        ("pd1_255", b"\x4c\xff" + rng.nz_bytes(255)),
        ("pd1_nonmin3", b"\x4c\x03" + rng.nz_bytes(3)),
        ("pd2_256", b"\x4d\x00\x01" + rng.nz_bytes(256)),
        ("pd2_nonmin3", b"\x4d\x03\x00" + rng.nz_bytes(3)),
        ("pd4_nonmin3", b"\x4e\x03\x00\x00\x00" + rng.nz_bytes(3)),
        ("push1_smallint", b"\x01\x05"),
        ("OP_1", b"\x51"),
        ("OP_16", b"\x60"),
        ("OP_1NEGATE", b"\x4f"),
        ("OP_CHECKSIG", b"\xac"),
        ("redeem105", b"\x4c\x69" + multisig),
        ("pd1_empty", b"\x4c\x00"),
    ]


SUB = [0, 1, 4, 11, 15]     # sub-menu for multi-input products


class C14(Check):
    id = "C14"
    level = "exploration"
    rule = ("every script of <= k operations over a 17-entry op menu (all push encodings, "
            "small-int opcodes, non-push opcodes) as input 0 of a transaction; products of "
            "scripts over 2 and 3 inputs; outputs 0..2, version 1/2, lock time 0/2^32-1; every "
            "truncation point and 1..3 trailing bytes; each case through get_unsigned_tx and "
            "through handle_request down to a conforming device. An execution is non-trivial "
            "when it is a distinct (number of ops, kind of each op, tx shape, outcome) tuple.")
    assumptions = [
        "bitcoin.core is the shim in /verif/shims (python-bitcoinlib is absent from the pinned "
        "environment); the oracle uses its own byte-level parser",
        "non-minimal final pushes are compared at operation level (same data, shortest or "
        "original encoding)",
        "byte values of pushes/outpoints come from a seeded generator",
        "BIP144 (marker/flag) client transactions and 0-input transactions are outside the alphabet",
    ]
    trusted_base = ["/verif/shims/bitcoin (stand-in for python-bitcoinlib)",
                    "verif/refs/btc.py reference parser", "verif/simdev/powhsm.py conforming device"]

    def prepare(self):
        self.rng = Rng("c14")
        self.menu = op_menu(self.rng)
        self.kmax = 4 if self.thorough else 3
        r2 = Rng("c14-fixed")
        self.receipt = reqs.mk_receipt(r2, 120).hex()
        self.proof = [r2.nz_bytes(40).hex(), r2.nz_bytes(33).hex()]
        self.outpoint = r2.bytes(32)

    def bounds(self):
        return {"max_ops_single_input": self.kmax, "menu": len(self.menu),
                "multi_input": "2 inputs x scripts<=2 ops over 5 ops; 3 inputs x scripts<=2 ops over 3 ops",
                "truncation": "every prefix and 1..3 trailing bytes of 8 base transactions"}

    def alphabets(self):
        return {"ops": [n for n, _ in self.menu]}

    def cases(self):
        cs = []
        n = len(self.menu)
        if self.thorough:
            for a in range(n):
                for b in range(n):
                    cs.append({"kind": "scripts", "first": [a, b]})
            cs.append({"kind": "scripts-short"})
        else:
            for a in range(n):
                cs.append({"kind": "scripts", "first": [a]})
        for a in range(len(SUB)):
            cs.append({"kind": "multi2", "a": a})
        cs.append({"kind": "multi3"})
        cs.append({"kind": "shapes"})
        for i in range(8):
            cs.append({"kind": "trunc", "base": i})
        cs.append({"kind": "empty"})
        # the same under `python -O` (assert statements compiled away): validation must not live in asserts
        for sub in [{"kind": "empty"}, {"kind": "trunc", "base": 0}]:
            cs.append({"kind": "optimized", "sub": sub})
        return cs

    # -- building ------------------------------------------------------------
    def script_of(self, idxs):
        return b"".join(self.menu[i][1] for i in idxs)

    def tx_of(self, scripts, nout=1, version=1, locktime=0):
        tx = {"version": struct.pack("<I", version), "vin": [], "vout": [], "witness": None,
              "locktime": struct.pack("<I", locktime)}
        for i, sc in enumerate(scripts):
            tx["vin"].append({"outpoint": self.outpoint + struct.pack("<I", i), "script": sc,
                              "sequence": struct.pack("<I", 0xffffffff - i)})
        for i in range(nout):
            tx["vout"].append({"value": struct.pack("<q", 5000 + i),
                               "script": b"\xa9\x14" + bytes([i + 1]) * 20 + b"\x87"})
        return B.serialize_tx(tx)

    def base_txs(self):
        m = self.script_of
        return [
            self.tx_of([m([0, 3, 15])]),
            self.tx_of([m([0, 0, 15]), m([0, 4, 3, 15])], nout=2, version=2),
            self.tx_of([m([15])], nout=0),
            self.tx_of([m([5, 7])], locktime=0xffffffff),
            self.tx_of([m([0, 1, 15]), m([11]), m([0, 2, 15])], nout=1),
            self.tx_of([m([9, 8, 6])], nout=2),
            self.tx_of([m([13, 14])], nout=1, version=2),
            self.tx_of([m([0, 16, 10])], nout=1),
        ]

    # -- running -------------------------------------------------------------
    def run_case(self, case, stats):
        if case["kind"] == "optimized":
            return optimized(self, case, stats)
        vs = []
        k = case["kind"]
        pairs = {}
        if k == "one":
            if case.get("sibling"):
                self.eval_tx(bytes.fromhex(case["sibling"]), (case.get("desc0", "replay"),), stats, [],
                             pairs, through=False)
            self.eval_tx(bytes.fromhex(case["tx"]), (case.get("desc0", "replay"),), stats, vs, pairs,
                         through=True)
            if not vs and case.get("before"):
                # alone it is fine: with the transactions the recording run had evaluated just before
                for h in case["before"]:
                    self.eval_tx(bytes.fromhex(h), ("before",), stats, [], {}, through=True)
                self.eval_tx(bytes.fromhex(case["tx"]), (case.get("desc0", "replay"),), stats, vs, {},
                             through=True)
            return vs
        n = len(self.menu)
        if k == "scripts":
            first = case["first"]
            for depth in range(len(first), self.kmax + 1):
                for rest in itertools.product(range(n), repeat=depth - len(first)):
                    idxs = list(first) + list(rest)
                    raw = self.tx_of([self.script_of(idxs)])
                    self.eval_tx(raw, ("s", tuple(idxs)), stats, vs, pairs, through=True)
        elif k == "scripts-short":
            for a in range(n):
                raw = self.tx_of([self.script_of([a])])
                self.eval_tx(raw, ("s", (a,)), stats, vs, pairs, through=True)
        elif k == "multi2":
            subs = [[i] for i in SUB] + [[i, j] for i in SUB for j in SUB]
            s1 = [s for s in subs if s[0] == SUB[case["a"]]]
            for a in s1:
                for b in subs:
                    raw = self.tx_of([self.script_of(a), self.script_of(b)])
                    self.eval_tx(raw, ("m2", tuple(a), tuple(b)), stats, vs, pairs, through=True)
        elif k == "multi3":
            sub3 = [0, 4, 15]
            subs = [[i] for i in sub3] + [[i, j] for i in sub3 for j in sub3]
            for a in subs:
                for b in subs:
                    for c in subs:
                        raw = self.tx_of([self.script_of(a), self.script_of(b), self.script_of(c)])
                        self.eval_tx(raw, ("m3", tuple(a), tuple(b), tuple(c)), stats, vs, pairs,
                                     through=(len(a) + len(b) + len(c)) % 2 == 0 or self.thorough)
        elif k == "shapes":
            for ver in (0x20, 0x0a, 0x0d0a, 0x20202020):
                for idxs in ([0, 3, 15], [15]):
                    raw = self.tx_of([self.script_of(idxs)], 1, ver, 0x0a000000)
                    self.eval_tx(raw, ("shape-ws", ver, tuple(idxs)), stats, vs, pairs, through=True)
                    self.eval_tx(b"\x20" + raw, ("lead-ws", ver, tuple(idxs)), stats, vs, pairs, through=True)
            for nout in (0, 1, 2):
                for ver in (1, 2):
                    for lt in (0, 1, 0xffffffff, 0x20000000, 0x0a000000, 0x0d000000, 0x09000020):
                        for idxs in ([0, 3, 15], [15], [0, 0, 0, 15], [5, 14]):
                            raw = self.tx_of([self.script_of(idxs)], nout, ver, lt)
                            self.eval_tx(raw, ("shape", nout, ver, lt, tuple(idxs)), stats, vs,
                                         pairs, through=True)
        elif k == "trunc":
            base = self.base_txs()[case["base"]]
            for cut in range(len(base)):
                self.eval_tx(base[:cut], ("trunc", case["base"], cut), stats, vs, pairs,
                             through=True)
            tail = Rng("c14-tail").nz_bytes(3)
            for extra in (1, 2, 3):
                # (bytes a text-minded clean-up would take for blanks included)
                for tb in (tail[:extra], b"\x00" * extra, b"\x0a\x20\x0d"[:extra], b"\x20" * extra):
                    self.eval_tx(base + tb, ("trail", case["base"], extra), stats, vs, pairs,
                                 through=True)
        elif k == "empty":
            m = self.script_of
            for scripts in ([b""], [m([0, 15]), b""], [b"", m([15])], [m([15]), m([0, 15]), b""]):
                raw = self.tx_of(scripts)
                self.eval_tx(raw, ("empty", len(scripts)), stats, vs, pairs, through=True)
            # scripts whose last push runs past the end / missing length
            for bad in (b"\x05\x01\x02", b"\x4c", b"\x4d\x01", b"\x4e\x01\x00\x00", b"\x00\x4c\x05\x01"):
                raw = self.tx_of([bad])
                self.eval_tx(raw, ("badscript", bad.hex()), stats, vs, pairs, through=True)
        return vs

    def viol(self, vs, clause, detail, raw, desc, observed, expected):
        # the transactions evaluated just before in this process are part of the history (a memo or
        # scratch object kept by the code under test between calls)
        hist = [h.hex() for h in getattr(self, "_recent", [])[-40:] if h != raw]
        vs.append(Violation("C14", "C14:%s:%s" % (clause, detail),
                            {"kind": "one", "tx": raw.hex(), "desc": repr(desc), "desc0": desc[0],
                             "before": hist}, None,
                            observed, expected, clause))

    def eval_tx(self, raw, desc, stats, vs, pairs, through):
        import comm.bitcoin as CB
        stats.evaluations += 1
        if not hasattr(self, "_recent"):
            self._recent = []
        self._recent.append(raw)
        del self._recent[:-60]
        # reference verdict
        ref_err = None
        try:
            canon, ok = B.blank_tx(raw)
            tx = B.parse_tx(raw)
            dont_care = tx["segwit"] or len(tx["vin"]) == 0
        except B.RefError as e:
            ref_err = str(e)
            dont_care = False
        if dont_care:
            stats.dont_care += 1
            return
        # implementation: direct function
        try:
            out = bytes.fromhex(CB.get_unsigned_tx(raw.hex()))
            impl_err = None
        except Exception as e:   # noqa
            out, impl_err = None, type(e).__name__
        shape = None
        if ref_err is None:
            shape = tuple((len(B.parse_ops(i["script"])),
                           B.parse_ops(i["script"])[-1][0]) for i in tx["vin"])
        stats.observe(("fn", shape, len(raw) if ref_err else None, impl_err is None,
                       ref_err is None, desc[0]))
        stats.sample({"tx": raw.hex()[:160], "desc": repr(desc), "decodable": ref_err is None})
        if ref_err is not None:
            if impl_err is None:
                self.viol(vs, "undecodable-transformed", desc[0], raw, desc,
                          {"output": out}, {"error": ref_err})
        else:
            if impl_err is not None:
                self.viol(vs, "decodable-refused", desc[0], raw, desc,
                          {"error": impl_err}, {"image": canon})
            else:
                if not ok(out):
                    self.viol(vs, "image", desc[0], raw, desc, {"output": out}, {"image": canon})
                try:
                    again = bytes.fromhex(CB.get_unsigned_tx(out.hex()))
                except Exception as e:   # noqa
                    again = repr(e)
                if again != out:
                    self.viol(vs, "idempotence", desc[0], raw, desc, {"f(f(x))": again},
                              {"f(x)": out})
                # independence of non-final pushes: same skeleton => same image
                key = (tx["version"], tx["locktime"], tuple(o["value"] + o["script"] for o in tx["vout"]),
                       tuple((i["outpoint"], i["sequence"], len(B.parse_ops(i["script"])),
                              B.parse_ops(i["script"])[-1][1] if B.parse_ops(i["script"])[-1][1] is not None
                              else B.parse_ops(i["script"])[-1][2]) for i in tx["vin"]))
                if key in pairs and pairs[key][0] != out:
                    self.viol(vs, "pair", desc[0], raw, desc, {"image": out},
                              {"image_of_sibling": pairs[key][0]})
                    vs[-1].d["case"]["sibling"] = pairs[key][1].hex()
                pairs.setdefault(key, (out, raw))
        if not through:
            return
        # whole path: sign request -> conforming device
        stats.evaluations += 1
        dev = PowHsm(seed=b"c14")
        w = World(dev)
        proto = harness.make_protocol(w)
        if ref_err is not None:
            # non-initial state: a reconnection is pending; a transaction that cannot be decoded
            # must still be answered without contacting the device (not even to reconnect)
            proto.report_comm_issue()
        base_log = len(w.log)
        if len(raw) == 0:
            return   # empty "tx" is a request-shape defect (C02), not a transaction
        self.through_mode(raw, desc, "legacy", proto, dev, w, base_log, ref_err, shape, stats, vs,
                          canon if ref_err is None else None, ok if ref_err is None else None)
        # the same transaction asked for in the segwit sub-format (its own extra fields): the
        # transformation is the same
        dev = PowHsm(seed=b"c14")
        w = World(dev)
        proto = harness.make_protocol(w)
        if ref_err is not None:
            proto.report_comm_issue()
        self.through_mode(raw, desc, "segwit", proto, dev, w, len(w.log), ref_err, shape, stats, vs,
                          canon if ref_err is None else None, ok if ref_err is None else None)

    def through_mode(self, raw, desc, mode, proto, dev, w, base_log, ref_err, shape, stats, vs, canon, ok):
        if mode == "legacy":
            req = reqs.sign_request(reqs.PATHS[0], raw.hex(), 0, "legacy", self.receipt, self.proof)
        else:
            req = reqs.sign_request(reqs.PATHS[0], raw.hex(), 0, "segwit", self.receipt, self.proof,
                                    witness_script="51" * 30, outpoint_value=12345)
            desc = tuple(desc) + ("segwit",)
        reply, exc = harness.handle_request(proto, req)
        contacted = len(w.log) > base_log
        code = reply.get("errorcode") if isinstance(reply, dict) else None
        stats.observe(("path", shape, code, contacted, exc is not None, desc[0]))
        if ref_err is not None:
            if exc is not None or code != -102:
                self.viol(vs, "undecodable-code", desc[0], raw, desc, {"reply": reply, "exc": exc},
                          {"errorcode": -102})
            if contacted:
                self.viol(vs, "undecodable-device-contact", desc[0], raw, desc,
                          {"apdus": [a.hex() for a in w.apdus()][:4]}, {"apdus": []})
            return
        held = [h for h in dev.held if h[0] == "sign-auth"]
        refused = [e for e in w.log if e[0] == "x" and isinstance(e[3], tuple) and e[3][:1] == ("sw",)]
        if exc is None and code in (-101, -102, -103) and refused and mode == "segwit" or \
                exc is None and code in (-101, -102, -103) and refused and desc[0] in ("shape-ws", "lead-ws"):
            # the conforming device has its own opinion of this transaction (version, script form of
            # the segwit sub-format): what reached it until then must still be the image
            got = b"".join(bytes(e[2][3:]) for e in w.log if e[0] == "x" and e[2][1] == 0x02 and e[2][2] == 0x02)
            part = got[7:7 + len(canon)]
            stats.dont_care += 1
            if part and part != canon[:len(part)] and not ok(part + canon[len(part):]):
                self.viol(vs, "relay-image", desc[0], raw, desc, {"device_received": part}, {"prefix_of": canon})
            return
        if exc is not None or code != 0 or len(held) != 1:
            self.viol(vs, "relay-failed", desc[0], raw, desc,
                      {"reply": reply, "exc": exc, "log": [repr(e)[:120] for e in w.log[-3:]]},
                      {"errorcode": 0})
            return
        if not ok(held[0][4]):
            self.viol(vs, "relay-image", desc[0], raw, desc, {"device_holds": held[0][4]},
                      {"image": canon})


CHECK = C14
