"""C07 - an SGX (version 2) attestation is accepted only if the whole quote-to-root chain verifies.

Fresh hierarchies (root certificate -> 0..2 CA certificates -> leaf certificate ->
sgx_attestation_key element -> sgx_quote element) whose private keys the harness owns, a fixed
clock at every validity-window boundary, every single-point corruption, re-parenting, foreign
keys and curves; verdict by construction for genuine chains, independent verifier
(`cryptography` + own DER walker) for the rest.
"""
import base64
import hashlib
import itertools
from collections.abc import Mapping
import json
import multiprocessing
import os
import re
from datetime import datetime, timedelta, timezone

from ..framework import Check, Violation
from ..xplore import HarnessError
from .. import env
from ..refs import certref as R
from ..gen import certs as G
from ..certharness import verdict, same_hex

# process time zones put in force while the code under test runs (POSIX TZ strings; sign inverted)
ZONES = [None, "VRF3", "VRF-5:30"]          # UTC, UTC-3, UTC+5:30
ZONE_NAMES = {None: "utc", "VRF3": "utc-3", "VRF-5:30": "utc+5:30"}
HOUR = timedelta(hours=1)
SEC = timedelta(seconds=1)
DAY = timedelta(days=1)


def iso(dt):
    return dt.strftime("%Y-%m-%dT%H:%M:%S+00:00")


def from_iso(s):
    return datetime.strptime(s, "%Y-%m-%dT%H:%M:%S+00:00").replace(tzinfo=timezone.utc)


def root_element(pem):
    b = "".join(l for l in pem.strip().split("\n") if not l.startswith("-----"))
    return R.V2Element({"name": G.V2_ROOT, "type": "x509_pem", "message": b, "signed_by": G.V2_ROOT})


def v2_structure(doc):
    els = {e["name"]: e for e in doc["elements"]}
    for t in doc["targets"]:
        if t not in els:
            return "target-missing"
        seen, cur = set(), t
        while True:
            if cur in seen:
                return "cycle"
            seen.add(cur)
            sb = els[cur]["signed_by"]
            if sb == G.V2_ROOT:
                break
            if sb not in els:
                return "dangling"
            cur = sb
    return None


def read_quote(q, signed, order):
    """Read a reported sgx_quote object in the given order of accesses and compare every reading with
    an independent parse of the signed bytes (unsigned little-endian integers, byte arrays as bytes
    through attributes and as hex through to_dict).  -> None or the failing clause."""
    want_typed = R.quote_fields(signed)
    want_hex = R.quote_dict(signed)

    def attrs(obj, want, path):
        for k, v in want.items():
            got = getattr(obj, k)
            if isinstance(v, dict):
                r = attrs(got, v, path + k + ".")
                if r:
                    return r
            elif isinstance(v, bytes):
                # the tools call .hex() on these: any bytes-like object of the signed content will do
                if not isinstance(got, (bytes, bytearray, memoryview)) or bytes(got) != v:
                    return "value:field:" + path + k
            elif not isinstance(got, int) or isinstance(got, bool) or got != v:
                return "value:field:" + path + k
        return None

    def dict_diff(got, want, path):
        """documented keys only (extra keys are not the property's business); hex compared as bytes"""
        if not isinstance(got, dict):
            return [path or "?"]
        out = []
        for k, v in want.items():
            g = got.get(k)
            if isinstance(v, dict):
                out += dict_diff(g, v, path + k + ".")
            elif isinstance(v, str):
                if not isinstance(g, str) or not same_hex(g, v):
                    out.append(path + k)
            elif not isinstance(g, int) or isinstance(g, bool) or g != v:
                out.append(path + k)
        return out

    try:
        for i, step in enumerate(order):
            if step == "attrs":
                r = attrs(q, want_typed, "")
                if r:
                    return r + (":after-" + "-".join(order[:i]) if i else "")
            elif step == "dict":
                diff = dict_diff(q.to_dict(), want_hex, "")
                if diff:
                    return "value:to_dict:%s" % "+".join(diff[:2]) + (":after-" + "-".join(order[:i]) if i else "")
            elif step == "repr":
                if not isinstance(repr(q), str):
                    return "value:repr"
            elif step == "raw":
                if bytes(q.get_raw_data()) != signed:
                    return "value:raw-data"
    except Exception as e:   # noqa
        return "value:reading-raises:%s:%s" % (type(e).__name__, "-".join(order))
    return None


CHAINS = [(d, n) for d in (1, 2, 3) for n in ("wide-top", "narrow-top")]
FLIP_CHUNKS = 4


class _Enough(Exception):
    """The loader ran out of budget: the case is cut short."""


class C07(Check):
    id = "C07"
    level = "exploration"
    rule = ("chains root -> 0..2 CA certificates -> leaf certificate -> attestation key -> quote with "
            "harness-owned keys; (a) clock fixed at nb-1s, nb, nb+1s, na-1s, na, na+1s of every X.509 "
            "element, validity windows nested both ways; (b) auth data / custom data lengths; (c) one "
            "bit in every byte (thorough: every bit) of quote message, custom data, attestation report "
            "body, key, auth data, both DER signatures, and of every byte of every certificate (TBS, "
            "signature; unsigned bytes are dont_care); (d) every single re-parenting, every permutation "
            "of the signed_by values, every signed_by function (quick: 4-element chain only); (e) every element signed by "
            "every other key of the hierarchy and by a stranger; (f) P-384 / secp256k1 keys and SHA-384 "
            "at every level incl. the root; (g) wrong / expired / not self-consistent / renamed roots; "
            "(h) element kinds chained out of order, the attestation key in every point encoding the loader "
            "accepts (uncompressed, raw, compressed, hybrid) and every hex / base64 field in the other "
            "spellings the decoders accept, all on genuine chains; over/under-long messages; "
            "(i) two quotes whose chains share the first 0..all elements, one own or shared non-leaf "
            "element of the second expired / not yet valid / signed by a stranger / bit-flipped, or its "
            "quote corrupted, or nothing, with the target lists [a, b], [b, a], [a, b, a], [b, a, b], [a], [b]; "
            "(j) boundary values (0, 1, 2^(w-1)-1, 2^(w-1), 2^w-1) in all / each integer field of the signed "
            "quote; (k) elements named like the root word (harmless extras beside a genuine chain; whole chains "
            "really signed under an in-file pseudo-root of that name, alone and beside a genuine chain), "
            "near-misses of the root word, names differing only in case; (l) genuine chains whose derived "
            "values have a leading zero byte (key coordinates, binding hashes, message digests, signature "
            "r and s; found by search); (m) correctly signed quotes / report bodies with the binding hash at "
            "every offset 1..32 of report data, split, after another hash, reversed, and at offset 0 with "
            "other tails; (n) every binary field followed / preceded by bytes that belong to nothing. "
            "Every reported quote is read through attributes, to_dict, repr and get_raw_data in "
            "several orders (on one object and on fresh ones) and each reading compared, value and type, "
            "with an independent unsigned little-endian parse of the signed bytes. "
            "An execution is distinct by (part, corrupted element and field, verdict, failing element).")
    assumptions = [
        "key and payload bytes are seeded; ECDSA signatures are deterministic (RFC 6979 via OpenSSL); "
        "DER lengths of signatures and certificates (70..72 / ~330 bytes) depend on the seeded values, so "
        "the number of byte positions, not the rule, varies by a few executions between seeds",
        "clock: when the code under test demonstrably reads a clock the harness owns, instants are exact "
        "(fixed reference instant in 2031); otherwise the reference instant is the real present and "
        "validity periods begin / end at that second or two hours from it",
        "the root of trust is not an element: its own validity period and self-signature do not "
        "enter the verdict (the statement's iff lists conditions on elements only)",
        "X.509 links between certificates are not restricted to P-256 by the statement; only the "
        "certifier of an attestation-key / quote element must carry a P-256 key",
        "dont_care: bit flips in unsigned bytes of a certificate, signatures verifying only under a "
        "non-strict DER reading, a bit flip in the encoding tag of the attestation key, messages "
        "longer than the documented struct, quote certified by something else than an attestation key",
        "X.509 parsing of the oracle: own DER walker for TBS / validity / SPKI / signature; the SPKI "
        "key loader and the ECDSA primitive are `cryptography`'s (OpenSSL), as in the code under test "
        "for certificates",
    ]
    trusted_base = ["cryptography/OpenSSL ECDSA and SPKI loading", "verif/refs/certref.py",
                    "verif/gen/certs.py"]

    # ---------------------------------------------------------------------------------
    def prepare(self):
        from ..certharness import CertImpl
        self.impl = CertImpl()
        self.world = G.V2World("c07")
        self.step = 1
        self._chains = {}
        # does the code under test read a clock the harness owns?  (see CertImpl.settle_clock)
        G.set_reference_instant(G.T0_FIXED)
        doc, pem, _ = self.world.chain(2, "wide-top")
        self.owned = self.impl.settle_clock(doc, pem, G.T0)
        if not self.owned:
            G.set_reference_instant(self.impl.fresh_reference_instant())
            self.world = G.V2World("c07")
        self.hangs = multiprocessing.get_context("fork").Value("i", 0)
        # disagreements on the recorded / documented samples are violations like any other
        self.pre_violations = self.calibrate()

    def chain(self, depth, nest, **kw):
        k = (depth, nest, tuple(sorted((a, repr(b)) for a, b in kw.items())))
        c = self._chains.get(k)
        if c is None:
            c = self.world.chain(depth, nest, **kw)
            self._chains[k] = c
        return G.clone(c[0]), c[1], c[2]

    # ---- calibration on the recorded real-world certificate --------------------------------
    def calibrate(self, only=None):
        """Recorded real-world certificates: tests/admin/test_certificate_v2_resources.py (its quote
        does not match its custom data: a test fixture) and the sample of docs/attestation.md.  The
        Intel root is not in the repository, so platform_ca acts as root of trust, which leaves the
        links quoting_enclave <- platform_ca, attestation <- quoting_enclave, quote <- attestation.
        Every link, intact and with one corruption each, must be judged the same by the reference
        verifier and by the implementation; the documented sample must be valid for both."""
        vs = []
        self.calibration_samples = []
        rec = None
        try:
            path = os.path.join(env.MIDDLEWARE, "tests/admin/test_certificate_v2_resources.py")
            m = re.search(r'json\.loads\("""(.*?)"""\)', open(path).read(), re.S)
            rec = json.loads(m.group(1))
        except Exception:   # noqa  (fixture moved or reshaped: nothing to calibrate on)
            rec = None
        if rec is not None:
            self.calibration_samples.append("recorded")
            vs += self.calibrate_on("recorded", rec, None, only)
        docs = []
        try:
            txt = open(os.path.join(env.REPO, "docs/attestation.md")).read()
            for block in re.findall(r"```json\n(.*?)```", txt, re.S):
                try:
                    d = json.loads(block)
                except ValueError:
                    continue
                if isinstance(d, dict) and d.get("version") == 2:
                    docs.append(d)
        except OSError:
            pass
        if docs:
            self.calibration_samples.append("documented")
            vs += self.calibrate_on("documented", docs[0], R.OK, only)
        return vs

    def calibrate_on(self, what, rec, presume, only=None):
        els = {e["name"]: e for e in rec["elements"]}
        qe = dict(els["quoting_enclave"], signed_by=G.V2_ROOT)
        base = {"version": 2, "targets": ["quote"], "elements": [els["quote"], els["attestation"], qe]}
        root_pem = G.pem_of(base64.b64decode(els["platform_ca"]["message"]))
        inside = datetime(2026, 1, 1, tzinfo=timezone.utc)
        probes = [("intact", base, inside)]

        def mut(name, field, fn):
            d = G.clone(base)
            e = G.element_of(d, name)
            e[field] = fn(e[field])
            return d

        def hexflip(pos):
            return lambda h: G.flip(bytes.fromhex(h), pos, 0).hex()

        def derflip(back):
            return lambda b: base64.b64encode(G.flip(base64.b64decode(b), len(base64.b64decode(b)) - back,
                                                     0)).decode()
        probes.append(("quote-sig", mut("quote", "signature", hexflip(20)), inside))
        probes.append(("quote-msg", mut("quote", "message", hexflip(100)), inside))
        probes.append(("quote-custom", mut("quote", "custom_data", hexflip(5)), inside))
        probes.append(("att-sig", mut("attestation", "signature", hexflip(20)), inside))
        probes.append(("att-auth", mut("attestation", "auth_data", hexflip(3)), inside))
        probes.append(("att-key", mut("attestation", "key", hexflip(40)), inside))
        probes.append(("att-msg", mut("attestation", "message", hexflip(7)), inside))
        probes.append(("qe-sig", mut("quoting_enclave", "message", derflip(10)), inside))
        probes.append(("qe-tbs", mut("quoting_enclave", "message", derflip(300)), inside))
        probes.append(("qe-expired", base, datetime(2031, 3, 24, tzinfo=timezone.utc)))
        probes.append(("qe-early", base, datetime(2024, 3, 22, tzinfo=timezone.utc)))
        # quote <- attestation alone: quote re-parented onto the certificate must fail at the quote
        probes.append(("quote-under-qe", mut("quote", "signed_by", lambda s: "quoting_enclave"), inside))
        # clock at the boundaries of the recorded leaf certificate's validity period
        qv = R.X509View(base64.b64decode(els["quoting_enclave"]["message"]))
        for lab, now in (("qe-nb-1s", qv.not_before - SEC), ("qe-nb", qv.not_before),
                         ("qe-na", qv.not_after), ("qe-na+1s", qv.not_after + SEC)):
            probes.append((lab, base, now))
        vs = []
        for label, doc, now in probes:
            if only is not None and only != (what, label):
                continue
            if not self.owned:
                if now != inside:
                    continue          # other instants cannot be visited without owning the clock
                now = self.impl.present()
            exp = R.v2_validate(doc, root_element(root_pem), now)["quote"]
            if label == "intact" and presume is not None and exp[0] != presume:
                raise HarnessError("calibration %s/%s: reference verifier says %r"
                                   % (what, label, exp[:2]))
            if exp[0] == R.OPEN:
                raise HarnessError("calibration %s/%s: reference verifier leaves the verdict open" % (what, label))
            for tz in ZONES:
                got = self.impl.run_v2(doc, root_pem, now, tz=tz)
                if got[0] != "result" or self.mismatch(doc, {"quote": exp}, got[1]):
                    vs.append(Violation("C07", "C07:calibration:%s:%s" % (what, label),
                                        {"kind": "calibration", "sample": what, "probe": label}, None,
                                        {"outcome": got[0], "result": repr(got[1]), "zone": ZONE_NAMES[tz]},
                                        {"verdict": exp[:2] if exp[0] != R.OK else "ok"}, "recorded sample"))
                    break
        return vs

    # ---------------------------------------------------------------------------------
    def bounds(self):
        return {"clock": "owned (fixed reference instant, exact boundary probes)" if self.owned else
                "not owned: real present as reference instant, two-hour margins",
                "calibration_samples": list(getattr(self, "calibration_samples", [])), "x509_depth": "1..3", "window_nesting": 2, "clock_points_per_certificate": 6,
                "bit_positions": "every bit of every byte" if self.thorough else "one bit in every byte",
                "flip_chains": len(self.flip_chains()),
                "reparenting": "single moves, permutations, all signed_by functions (quick: on the 4-element chain only)",
                "auth_data_lengths": self.auth_lengths()}

    def alphabets(self):
        return {"curves": ["p256", "p384", "secp256k1"], "hashes": ["sha256", "sha384"],
                "fields": ["quote.message", "quote.custom_data", "quote.signature", "attestation.message",
                           "attestation.key", "attestation.auth_data", "attestation.signature",
                           "<certificate>.tbs", "<certificate>.signature", "<certificate>.unsigned"]}

    def auth_lengths(self):
        return [1, 2, 31, 32, 33, 64, 255, 256, 1000] if self.thorough else [1, 31, 33, 256, 1000]

    def flip_chains(self):
        if self.thorough:
            return [(1, "wide-top"), (2, "wide-top"), (2, "narrow-top"), (3, "wide-top"), (3, "narrow-top")]
        return [(2, "wide-top"), (3, "narrow-top")]

    def cases(self):
        cs = []
        for d, n in self.flip_chains():
            doc, _, _ = self.chain(d, n)
            for e in doc["elements"]:
                fields = {"sgx_quote": ["message", "custom_data", "signature"],
                          "sgx_attestation_key": ["message", "key", "auth_data", "signature"],
                          "x509_pem": ["der"]}[e["type"]]
                for f in fields:
                    for ch in range(FLIP_CHUNKS):
                        cs.append({"kind": "flip", "depth": d, "nest": n, "element": e["name"],
                                   "field": f, "chunk": ch})
        for d, n in CHAINS:
            cs.append({"kind": "clock", "depth": d, "nest": n})
        for a in self.auth_lengths():
            cs.append({"kind": "auth", "len": a})
        for d in (2, 3):
            cs.append({"kind": "reparent-single", "depth": d})
            nel = d + 2
            for first in range(nel):
                cs.append({"kind": "reparent-perm", "depth": d, "first": first})
            if self.thorough or d == 2:
                for a in range(nel + 1):
                    for b in range(nel + 1):
                        cs.append({"kind": "reparent-all", "depth": d, "a": a, "b": b})
        for d in (1, 2, 3):
            for i in range(d + 2):
                cs.append({"kind": "otherkey", "depth": d, "element": i})
            for lvl in range(-1, d):
                cs.append({"kind": "curves", "depth": d, "level": lvl})
            cs.append({"kind": "roots", "depth": d})
        cs.append({"kind": "kinds"})
        for part in range(4):
            cs.append({"kind": "reserved", "part": part})
        cs.append({"kind": "zeros"})
        for part in range(4):
            cs.append({"kind": "binding", "part": part})
        cs.append({"kind": "extra"})
        for b in range(5):
            cs.append({"kind": "ints", "boundary": b})
        for d in (1, 2, 3):
            for share in range(d + 2):
                cs.append({"kind": "multi", "depth": d, "share": share})
        return cs

    # ---------------------------------------------------------------------------------
    def run_case_single(self, case, choices, stats):
        return self.run_case(case, stats)

    def run_case(self, case, stats):
        vs = []
        k = case["kind"]
        if k == "calibration":
            return self.calibrate(only=(case["sample"], case["probe"]))
        if self.hangs.value >= 4:
            stats.bump("capped")       # a loader that does not return was reported: stop early
            return vs
        if k == "one":
            try:
                self.evaluate(case["doc"], case["root_pem"], from_iso(case["now"]), case.get("label", "replay"),
                              stats, vs, open_=case.get("open", False), target=case.get("target", "quote"),
                              tz=case.get("tz"))
            except _Enough:
                pass
            return vs
        try:
            getattr(self, "run_" + k.replace("-", "_"))(case, stats, vs)
        except _Enough:
            stats.bump("capped")
        return vs

    def genuine(self, doc, root_pem, now, label, stats, vs):
        exp = self.evaluate(doc, root_pem, now, label, stats, vs)
        if exp is None or exp["quote"][0] != R.OK:
            raise HarnessError("genuine chain (%s) not valid for the reference verifier: %r"
                               % (label, exp and exp["quote"][:2]))

    # ---- (c) bit flips --------------------------------------------------------------------
    def bits(self, i):
        return list(range(8)) if self.thorough else [(i * 3 + 1) % 8]

    def run_flip(self, case, stats, vs):
        doc, root_pem, meta = self.chain(case["depth"], case["nest"])
        name, field = case["element"], case["field"]
        if case["chunk"] == 0 and field in ("message", "der") and name == "quote":
            self.genuine(doc, root_pem, G.T0, "genuine", stats, vs)
        e = G.element_of(doc, name)
        if field == "der":
            raw = base64.b64decode(e["message"])
            view = R.X509View(raw)
        else:
            raw = bytes.fromhex(e[field])
        pos = list(range(0, len(raw), self.step))
        if len(raw) - 1 not in pos:
            pos.append(len(raw) - 1)
        pos = pos[case["chunk"]::FLIP_CHUNKS]
        for i, bit in [(i, b) for i in pos for b in self.bits(i)]:
            nb = G.flip(raw, i, bit)
            d = G.clone(doc)
            e2 = G.element_of(d, name)
            open_ = False
            if field == "der":
                e2["message"] = base64.b64encode(nb).decode()
                if view.tbs_span[0] <= i < view.tbs_span[1]:
                    region = "tbs"
                elif view.sig_span[0] <= i < view.sig_span[1]:
                    region = "sig"
                else:
                    region = "unsigned"
                    open_ = True
                label = "flip:x509:" + region
            else:
                e2[field] = nb.hex()
                label = "flip:%s:%s" % (e["type"], field)
                if field == "key" and i == 0:
                    open_ = True         # encoding tag of the point, not the point
            self.evaluate(d, root_pem, G.T0, label, stats, vs, open_=open_)

    # ---- (a) validity windows x clock ---------------------------------------------------------
    def run_clock(self, case, stats, vs):
        doc, root_pem, meta = self.chain(case["depth"], case["nest"])
        self.genuine(doc, root_pem, G.T0, "genuine", stats, vs)
        if not self.owned:
            return self.run_clock_present(case, stats, vs)
        for tz in ZONES:
            for name, nb, na in meta["x509"]:
                for lab, now in (("nb-1s", nb - SEC), ("nb", nb), ("nb+1s", nb + SEC),
                                 ("na-1s", na - SEC), ("na", na), ("na+1s", na + SEC)):
                    self.evaluate(doc, root_pem, now, "clock:" + lab, stats, vs, tz=tz)
            # far outside everything
            self.evaluate(doc, root_pem, G.T0 + 3000 * DAY, "clock:far-after", stats, vs, tz=tz)
            self.evaluate(doc, root_pem, G.T0 - 3000 * DAY, "clock:far-before", stats, vs, tz=tz)
            # validity periods that begin / end within hours of the reference instant
            for lab, win in (("expired-90min-ago", (G.T0 - 10 * DAY, G.T0 - 90 * 60 * SEC)),
                             ("valid-1h-either-side", (G.T0 - HOUR, G.T0 + HOUR)),
                             ("valid-in-1h", (G.T0 + HOUR, G.T0 + 10 * DAY)),
                             ("valid-since-10min", (G.T0 - 600 * SEC, G.T0 + 10 * DAY)),
                             ("valid-for-10min", (G.T0 - 10 * DAY, G.T0 + 600 * SEC)),
                             ("expired-7h-ago", (G.T0 - 10 * DAY, G.T0 - 7 * HOUR)),
                             ("valid-in-7h", (G.T0 + 7 * HOUR, G.T0 + 10 * DAY))):
                d2, rp2, _ = self.chain(case["depth"], case["nest"], leaf_window=win)
                self.evaluate(d2, rp2, G.T0, "clock:leaf-" + lab, stats, vs, tz=tz)

    def run_clock_present(self, case, stats, vs):
        """Clock part when the clock of the code under test cannot be owned: the real present is the
        reference instant (a second that began after the tree under test was imported); each X.509
        element in turn gets a validity period that began at that very second, began / begins /
        ended / ends two hours from it; the three process time zones are put in force for real."""
        depth = case["depth"]
        t0 = G.T0
        for tz in ZONES:
            for lvl in range(depth):
                for lab, win in (("began-this-second", (t0, t0 + 10 * DAY)),
                                 ("began-2h-ago", (t0 - 2 * HOUR, t0 + 10 * DAY)),
                                 ("begins-in-2h", (t0 + 2 * HOUR, t0 + 10 * DAY)),
                                 ("ends-in-2h", (t0 - 10 * DAY, t0 + 2 * HOUR)),
                                 ("ended-2h-ago", (t0 - 10 * DAY, t0 - 2 * HOUR)),
                                 ("ended-10d-ago", (t0 - 20 * DAY, t0 - 10 * DAY)),
                                 ("begins-in-10d", (t0 + 10 * DAY, t0 + 20 * DAY))):
                    d2, rp2, _ = self.chain(depth, case["nest"], windows={lvl: win})
                    self.evaluate(d2, rp2, G.T0, "clock:present:" + lab, stats, vs, tz=tz)

    # ---- (b) lengths -----------------------------------------------------------------------
    def run_auth(self, case, stats, vs):
        n = case["len"]
        auth = G.Rng("c07-auth-%d" % n).bytes(n)
        doc, root_pem, _ = self.chain(2, "wide-top", auth=auth)
        self.genuine(doc, root_pem, G.T0, "genuine:auth-len", stats, vs)
        custom = G.Rng("c07-custom-%d" % n).bytes(n)
        doc, root_pem, _ = self.chain(2, "wide-top", custom=custom)
        self.genuine(doc, root_pem, G.T0, "genuine:custom-len", stats, vs)
        # auth data one byte longer / shorter than what was hashed
        doc, root_pem, _ = self.chain(2, "wide-top", auth=auth)
        e = G.element_of(doc, "attestation")
        e["auth_data"] = (auth + b"\x00").hex()
        self.evaluate(doc, root_pem, G.T0, "auth-extended", stats, vs)
        if n > 1:
            e["auth_data"] = auth[:-1].hex()
            self.evaluate(doc, root_pem, G.T0, "auth-truncated", stats, vs)
        doc, root_pem, _ = self.chain(2, "wide-top", custom=custom)
        e = G.element_of(doc, "quote")
        e["custom_data"] = (custom + b"\x00").hex()
        self.evaluate(doc, root_pem, G.T0, "custom-extended", stats, vs)

    # ---- (d) re-parenting ------------------------------------------------------------------
    def run_reparent_single(self, case, stats, vs):
        doc, root_pem, _ = self.chain(case["depth"], "wide-top")
        names = [e["name"] for e in doc["elements"]]
        for e in doc["elements"]:
            for parent in names + [G.V2_ROOT, "nobody"]:
                if parent == e["signed_by"]:
                    continue
                d = G.clone(doc)
                G.element_of(d, e["name"])["signed_by"] = parent
                self.evaluate(d, root_pem, G.T0, "reparent:single", stats, vs)

    def run_reparent_perm(self, case, stats, vs):
        doc, root_pem, _ = self.chain(case["depth"], "wide-top")
        parents = [e["signed_by"] for e in doc["elements"]]
        first = parents[case["first"]]
        rest = parents[:case["first"]] + parents[case["first"] + 1:]
        for perm in itertools.permutations(rest):
            d = G.clone(doc)
            for e, p in zip(d["elements"], (first,) + perm):
                e["signed_by"] = p
            self.evaluate(d, root_pem, G.T0, "reparent:perm", stats, vs)

    def run_reparent_all(self, case, stats, vs):
        doc, root_pem, _ = self.chain(case["depth"], "wide-top")
        names = [e["name"] for e in doc["elements"]] + [G.V2_ROOT]
        n = len(doc["elements"])
        for rest in itertools.product(range(len(names)), repeat=n - 2):
            d = G.clone(doc)
            for e, p in zip(d["elements"], (case["a"], case["b"]) + rest):
                e["signed_by"] = names[p]
            self.evaluate(d, root_pem, G.T0, "reparent:function", stats, vs)

    # ---- (e) signed by another key --------------------------------------------------------
    def run_otherkey(self, case, stats, vs):
        w = self.world
        depth = case["depth"]
        doc, root_pem, meta = self.chain(depth, "wide-top")
        e = doc["elements"][case["element"]]
        x = [m[0] for m in meta["x509"]]
        keys = ["root"] + x + ["attkey", "stranger"]
        for signer in keys:
            d = G.clone(doc)
            if e["type"] == "sgx_quote":
                right = "attkey"
                ne = w.quote_element("quote", e["signed_by"], signer)
            elif e["type"] == "sgx_attestation_key":
                right = x[-1]
                ne = w.att_element("attestation", e["signed_by"], signer)
            else:
                i = x.index(e["name"])
                right = "root" if i == 0 else x[i - 1]
                _, nb, na = meta["x509"][i]
                ne = w.x509_element(e["name"], e["signed_by"], w.cert(e["name"], signer, nb, na,
                                                                      issuer_cn=right))
            if signer == right:
                continue
            d["elements"][case["element"]] = ne
            self.evaluate(d, root_pem, G.T0, "otherkey:" + e["type"], stats, vs)

    # ---- (f) other curves / hashes -----------------------------------------------------------
    def run_curves(self, case, stats, vs):
        depth, lvl = case["depth"], case["level"]
        for curve in ("p384", "k1"):
            for hash_name in ("sha256", "sha384"):
                if lvl < 0:
                    doc, root_pem, _ = self.chain(depth, "wide-top", root_curve=curve,
                                                  hashes_=[hash_name] + ["sha256"] * (depth - 1))
                    label = "curve:root"
                else:
                    curves = ["p256"] * depth
                    curves[lvl] = curve
                    hashes_ = ["sha256"] * depth
                    if lvl + 1 < depth:
                        hashes_[lvl + 1] = hash_name
                    elif hash_name != "sha256":
                        continue
                    doc, root_pem, _ = self.chain(depth, "wide-top", curves=curves, hashes_=hashes_)
                    label = "curve:leaf" if lvl == depth - 1 else "curve:ca"
                self.evaluate(doc, root_pem, G.T0, label, stats, vs)
        # P-256 throughout, SHA-384 signatures
        if lvl >= 0:
            hashes_ = ["sha256"] * depth
            hashes_[lvl] = "sha384"
            doc, root_pem, _ = self.chain(depth, "wide-top", hashes_=hashes_)
            self.genuine(doc, root_pem, G.T0, "genuine:sha384", stats, vs)

    # ---- (g) roots of trust ------------------------------------------------------------------
    def run_roots(self, case, stats, vs):
        w = self.world
        doc, root_pem, meta = self.chain(case["depth"], "wide-top")
        rd = meta["root_der"]
        view = R.X509View(rd)
        # another authority altogether
        other = w.cert("stranger", "stranger", G.T0 - 4000 * DAY, G.T0 + 4000 * DAY)
        self.evaluate(doc, G.pem_of(other), G.T0, "root:wrong", stats, vs)
        # same name, other key
        other = w.cert("root", "stranger", G.T0 - 4000 * DAY, G.T0 + 4000 * DAY, subject_key="stranger")
        self.evaluate(doc, G.pem_of(other), G.T0, "root:wrong-same-name", stats, vs)
        # right key, certificate issued by somebody else / renamed / expired / not yet valid
        for label, der in (
            ("root:cross-signed", w.cert("root", "stranger", G.T0 - 4000 * DAY, G.T0 + 4000 * DAY)),
            ("root:renamed", w.cert("renamed", "root", G.T0 - 4000 * DAY, G.T0 + 4000 * DAY,
                                    subject_key="root")),
            ("root:expired", w.cert("root", "root", G.T0 - 4000 * DAY, G.T0 - 1 * DAY)),
            ("root:not-yet-valid", w.cert("root", "root", G.T0 + 1 * DAY, G.T0 + 4000 * DAY)),
        ):
            self.evaluate(doc, G.pem_of(der), G.T0, label, stats, vs)
        # self-signature broken by a bit in the signature value (key intact)
        s0, s1 = view.sig_span
        self.evaluate(doc, G.pem_of(G.flip(rd, s1 - 5, 1)), G.T0, "root:self-signature-broken", stats, vs)
        # key bytes of the root damaged
        p0, p1 = view.spki_span
        for i in range(p1 - 65, p1, self.step):
            self.evaluate(doc, G.pem_of(G.flip(rd, i, (i * 3 + 1) % 8)), G.T0, "root:key-bit", stats, vs,
                          open_=(i == p1 - 65))
        # an element of the chain handed in as root of trust
        for e in doc["elements"]:
            if e["type"] == "x509_pem":
                self.evaluate(doc, G.pem_of(base64.b64decode(e["message"])), G.T0, "root:is-an-element",
                              stats, vs)

    # ---- (m) the binding hash anywhere but at the start of report data -------------------------------
    def run_binding(self, case, stats, vs):
        _, root_pem, _ = self.chain(2, "wide-top")
        for label, d in G.displaced_binding_docs(self.world)[case["part"]::4]:
            if label.startswith("genuine"):
                self.genuine(d, root_pem, G.T0, label, stats, vs)
            else:
                self.evaluate(d, root_pem, G.T0, label, stats, vs)

    # ---- (n) binary fields followed / preceded by bytes that belong to nothing ---------------------
    def run_extra(self, case, stats, vs):
        doc, root_pem, _ = self.chain(2, "wide-top")
        for e in doc["elements"]:
            for fld in ("message", "custom_data", "key", "auth_data", "signature"):
                if fld not in e:
                    continue
                x509 = e["type"] == "x509_pem"
                raw = base64.b64decode(e[fld]) if x509 else bytes.fromhex(e[fld])
                for lab, nb in G.extra_bytes_variants(raw):
                    d = G.clone(doc)
                    G.element_of(d, e["name"])[fld] = base64.b64encode(nb).decode() if x509 else nb.hex()
                    # bytes after a certificate are unsigned bytes of it: the statement leaves them open
                    self.evaluate(d, root_pem, G.T0, "extra-bytes:%s:%s" % (e["type"], fld), stats, vs,
                                  open_=x509 and lab.startswith("+"))

    # ---- (l) derived values with leading zero bytes -----------------------------------------------
    def run_zeros(self, case, stats, vs):
        _, root_pem, _ = self.chain(2, "wide-top")
        for label, d in G.zero_value_docs(self.world):
            self.genuine(d, root_pem, G.T0, "genuine:" + label, stats, vs)

    # ---- (k) element names colliding with reserved words of the format ---------------------------
    def run_reserved(self, case, stats, vs):
        """The root of trust is the one the operator gives: an in-file element named like the root
        word certifies nothing, and is harmless next to a genuine chain."""
        docs = G.reserved_name_docs(self.world)
        _, root_pem, _ = self.chain(2, "wide-top")
        for label, d, target in docs[case["part"]::4]:
            exp = self.evaluate(d, root_pem, G.T0, label, stats, vs, target=target)
            if label.startswith("reserved:extra-named-root") and (exp is None or exp["quote"][0] != R.OK):
                raise HarnessError("genuine chain with an extra element named like the root word is "
                                   "not valid for the reference verifier")

    # ---- (j) boundary values in every integer field of the signed quote ------------------------------
    def run_ints(self, case, stats, vs):
        """Per width w: 0, 1, 2^(w-1)-1, 2^(w-1), 2^w-1; in all integer fields at once and in one
        field at a time (the others keep their distinct values); the reported fields must be the
        unsigned little-endian reading of the signed bytes."""
        w = self.world
        b = case["boundary"]

        def val(width):
            bits = 8 * width
            return [0, 1, (1 << (bits - 1)) - 1, 1 << (bits - 1), (1 << bits) - 1][b]
        doc, root_pem, _ = self.chain(2, "wide-top")
        plans = [{spec: val(spec[1]) for spec in R.QUOTE_INT_FIELDS.values()}]
        plans += [{spec: val(spec[1])} for spec in R.QUOTE_INT_FIELDS.values()]
        for ints in plans:
            d = G.clone(doc)
            d["elements"][0] = w.quote_element("quote", "attestation", "attkey", ints=ints)
            self.genuine(d, root_pem, G.T0, "ints:all" if len(ints) > 1 else "ints:one", stats, vs)

    # ---- (i) several targets: each verdict is independent of the others -----------------------
    def run_multi(self, case, stats, vs):
        """Branch `old` (old_quote) shares the first `share` elements of the main chain
        (certificates top first, then the attestation key) and owns the rest."""
        w = self.world
        depth, share = case["depth"], case["share"]
        doc, root_pem, meta = self.chain(depth, "wide-top")
        x = [m[0] for m in meta["x509"]]

        def branch(bad=None, how=None):
            """elements of the old branch; element `bad` (an own one) spoiled in the way `how`"""
            els = []
            parent_name, parent_key = G.V2_ROOT, "root"
            for i, n in enumerate(x):
                if i < share:
                    parent_name, parent_key = n, n
                    continue
                name = n + "_old"
                nb, na = meta["x509"][i][1], meta["x509"][i][2]
                issuer = parent_key
                if bad == name:
                    if how == "expired":
                        nb, na = G.T0 - 90 * DAY, G.T0 - 50 * DAY
                    elif how == "not-yet-valid":
                        nb, na = G.T0 + 50 * DAY, G.T0 + 90 * DAY
                    elif how == "stranger":
                        issuer = "stranger"
                der = w.cert(name, issuer, nb, na, issuer_cn=parent_key)
                if bad == name and how == "sig-bit":
                    der = G.flip(der, len(der) - 9, 2)
                if bad == name and how == "tbs-bit":
                    der = G.flip(der, 40, 2)
                els.append(w.x509_element(name, parent_name, der))
                parent_name, parent_key = name, name
            if share <= depth:
                signer = "stranger" if (bad == "attestation_old" and how == "stranger") else parent_key
                att = w.att_element("attestation_old", parent_name, signer, key_name="attkey_old")
                if bad == "attestation_old" and how == "sig-bit":
                    att["signature"] = G.flip(bytes.fromhex(att["signature"]), 30, 1).hex()
                if bad == "attestation_old" and how == "auth-bit":
                    att["auth_data"] = G.flip(bytes.fromhex(att["auth_data"]), 3, 1).hex()
                els.append(att)
                att_name, att_key = "attestation_old", "attkey_old"
            else:
                att_name, att_key = "attestation", "attkey"
            custom = b"POWHSM:5.4::sgx" + G.Rng("c07-old-custom").bytes(112)
            q = w.quote_element("old_quote", att_name, att_key, custom=custom)
            if bad == "old_quote":
                q["signature"] = G.flip(bytes.fromhex(q["signature"]), 30, 1).hex()
            els.append(q)
            return els

        own = [e["name"] for e in branch() if e["name"] != "old_quote"]
        plans = [(None, None, "multi:both-genuine"), ("old_quote", "sig-bit", "multi:leaf-corrupted")]
        for name in own:
            hows = ["sig-bit", "stranger"] + (["expired", "not-yet-valid", "tbs-bit"] if name != "attestation_old"
                                              else ["auth-bit"])
            for how in hows:
                plans.append((name, how, "multi:own-nonleaf-" + how))
        tlists = [["old_quote", "quote"], ["quote", "old_quote"], ["old_quote", "quote", "old_quote"],
                  ["quote", "old_quote", "quote"], ["old_quote"], ["quote"]]
        for bad, how, label in plans:
            els = branch(bad, how)
            for tl in tlists:
                d = G.clone(doc)
                d["elements"] = els + d["elements"]
                d["targets"] = list(tl)
                exp = self.evaluate(d, root_pem, G.T0, label, stats, vs, target=tl[0])
                if bad is None and (exp is None or any(v[0] != R.OK for v in exp.values())):
                    raise HarnessError("genuine two-branch certificate not valid for the reference verifier")
        # a shared element spoiled: both targets fail at it
        shared = (x + ["attestation"])[:share]
        for name in shared:
            for tl in tlists[:4]:
                d = G.clone(doc)
                d["elements"] = branch() + d["elements"]
                e = G.element_of(d, name)
                if e["type"] == "x509_pem":
                    der = base64.b64decode(e["message"])
                    e["message"] = base64.b64encode(G.flip(der, len(der) - 9, 2)).decode()
                else:
                    e["signature"] = G.flip(bytes.fromhex(e["signature"]), 30, 1).hex()
                d["targets"] = list(tl)
                self.evaluate(d, root_pem, G.T0, "multi:shared-nonleaf-sig-bit", stats, vs, target=tl[0])
        # the main branch spoiled at a non-leaf own element, old branch intact (roles swapped)
        mains = (x + ["attestation"])[share:]
        for name in mains:
            for tl in tlists[:4]:
                d = G.clone(doc)
                d["elements"] = branch() + d["elements"]
                e = G.element_of(d, name)
                if e["type"] == "x509_pem":
                    der = base64.b64decode(e["message"])
                    e["message"] = base64.b64encode(G.flip(der, len(der) - 9, 2)).decode()
                else:
                    e["signature"] = G.flip(bytes.fromhex(e["signature"]), 30, 1).hex()
                d["targets"] = list(tl)
                self.evaluate(d, root_pem, G.T0, "multi:main-nonleaf-sig-bit", stats, vs, target=tl[0])

    # ---- (h) kinds out of order, encodings, lengths --------------------------------------------
    def run_kinds(self, case, stats, vs):
        w = self.world
        for depth in (1, 2):
            doc, root_pem, meta = self.chain(depth, "wide-top")
            leaf = meta["x509"][-1][0]
            top, nb, na = meta["x509"][0]

            def with_(name, ne, **more):
                d = G.clone(doc)
                for i, e in enumerate(d["elements"]):
                    if e["name"] == name:
                        d["elements"][i] = ne
                for k2, v in more.items():
                    G.element_of(d, k2)["signed_by"] = v
                return d
            # certificate certified (and really signed) by the attestation key element
            d = G.clone(doc)
            d["elements"].append(w.x509_element("odd", "attestation", w.cert("odd", "attkey", nb, na)))
            d["elements"].append(w.quote_element("quote2", "odd", "odd"))
            d["targets"] = ["quote2"]
            self.evaluate(d, root_pem, G.T0, "kinds:x509-under-attkey", stats, vs, target="quote2")
            # quote certified directly by the leaf certificate (signed by its key)
            self.evaluate(with_("quote", w.quote_element("quote", leaf, leaf)), root_pem, G.T0,
                          "kinds:quote-under-x509", stats, vs)
            # attestation key certified by another attestation key element
            d = G.clone(doc)
            d["elements"].append(w.att_element("attestation2", "attestation", "attkey", key_name="attkey2"))
            d["elements"][0] = w.quote_element("quote", "attestation2", "attkey2")
            self.evaluate(d, root_pem, G.T0, "kinds:attkey-under-attkey", stats, vs)
            # quote certified by a quote
            d = G.clone(doc)
            d["elements"].append(w.quote_element("quote2", "quote", "attkey"))
            d["targets"] = ["quote2"]
            self.evaluate(d, root_pem, G.T0, "kinds:quote-under-quote", stats, vs, target="quote2")
            # attestation key certified by a quote (which has no key to certify with)
            d = G.clone(doc)
            d["elements"].append(w.att_element("attestation2", "quote", "stranger", key_name="attkey2"))
            d["elements"].append(w.quote_element("quote2", "attestation2", "attkey2"))
            d["targets"] = ["quote2"]
            self.evaluate(d, root_pem, G.T0, "kinds:attkey-under-quote", stats, vs, target="quote2")
            # quote certified directly by a leaf certificate that holds no P-256 key (really signed by it)
            for curve in ("p384", "k1"):
                d2, rp2, m2 = self.chain(depth, "wide-top", curves=["p256"] * (depth - 1) + [curve])
                leaf2 = m2["x509"][-1][0]
                d2["elements"][0] = w.quote_element("quote", leaf2, leaf2, signer_curve=curve)
                self.evaluate(d2, rp2, G.T0, "kinds:quote-under-nonp256-x509", stats, vs)
            # attestation key directly under the root of trust
            d = G.clone(doc)
            d["elements"] = [d["elements"][0], w.att_element("attestation", G.V2_ROOT, "root")]
            self.evaluate(d, root_pem, G.T0, "kinds:attkey-under-root", stats, vs)
            # key encodings
            for fmt in ("raw", "compressed", "hybrid"):
                self.genuine(with_("attestation", w.att_element("attestation", leaf, leaf, key_fmt=fmt)),
                             root_pem, G.T0, "genuine:key-" + fmt, stats, vs)
                # the binding hashes the point (x || y), not the spelling of the key field
                ne = w.att_element("attestation", leaf, leaf, key_fmt=fmt)
                msg = bytearray(bytes.fromhex(ne["message"]))
                msg[320:352] = hashlib.sha256(bytes.fromhex(ne["key"]) + bytes.fromhex(ne["auth_data"])).digest()
                ne["message"] = bytes(msg).hex()
                ne["signature"] = w.ec_sign(leaf, bytes(msg)).hex()
                if fmt != "raw":
                    self.evaluate(with_("attestation", ne), root_pem, G.T0, "binding:attkey-hash-of-spelling",
                                  stats, vs)
            # every hex / base64 field of the genuine chain in the other spellings the loader accepts
            for e in doc["elements"]:
                flds = [k2 for k2 in ("message", "custom_data", "key", "auth_data", "signature") if k2 in e]
                for fld in flds:
                    table = G.B64_SPELLINGS if e["type"] == "x509_pem" else G.HEX_SPELLINGS
                    for sp, fn in table.items():
                        d = G.clone(doc)
                        G.element_of(d, e["name"])[fld] = fn(e[fld])
                        self.genuine(d, root_pem, G.T0, "genuine:spelling:" + fld, stats, vs)
            # attestation key is a point of another curve
            for curve in ("k1", "p384"):
                ne = w.att_element("attestation", leaf, leaf)
                ne["key"] = w.point("attkey", curve).hex()
                d = with_("attestation", ne)
                d["elements"][0] = w.quote_element("quote", "attestation", "attkey", signer_curve=curve)
                self.evaluate(d, root_pem, G.T0, "curve:attkey", stats, vs)
            # message lengths
            self.evaluate(with_("attestation", w.att_element("attestation", leaf, leaf, extra=b"\x00")),
                          root_pem, G.T0, "length:report-body+1", stats, vs)
            self.evaluate(with_("quote", w.quote_element("quote", "attestation", "attkey", extra=b"\x00")),
                          root_pem, G.T0, "length:quote+1", stats, vs)
            for cut in (1, 33, 64):
                ne = w.att_element("attestation", leaf, leaf)
                msg = bytes.fromhex(ne["message"])[:-cut]
                ne["message"] = msg.hex()
                ne["signature"] = w.ec_sign(leaf, msg).hex()
                self.evaluate(with_("attestation", ne), root_pem, G.T0, "length:report-body-short", stats, vs)
                ne = w.quote_element("quote", "attestation", "attkey")
                msg = bytes.fromhex(ne["message"])[:-cut]
                ne["message"] = msg.hex()
                ne["signature"] = w.ec_sign("attkey", msg).hex()
                self.evaluate(with_("quote", ne), root_pem, G.T0, "length:quote-short", stats, vs)
            # binding present but not at the start of report data (shifted by one byte)
            ne = w.quote_element("quote", "attestation", "attkey")
            msg = bytearray(bytes.fromhex(ne["message"]))
            msg[368:432] = b"\x00" + msg[368:431]
            ne["message"] = bytes(msg).hex()
            ne["signature"] = w.ec_sign("attkey", bytes(msg)).hex()
            self.evaluate(with_("quote", ne), root_pem, G.T0, "binding:quote-shifted", stats, vs)
            ne = w.att_element("attestation", leaf, leaf)
            msg = bytearray(bytes.fromhex(ne["message"]))
            msg[320:384] = b"\x00" + msg[320:383]
            ne["message"] = bytes(msg).hex()
            ne["signature"] = w.ec_sign(leaf, bytes(msg)).hex()
            self.evaluate(with_("attestation", ne), root_pem, G.T0, "binding:attkey-shifted", stats, vs)
            # binding hashes the key in another encoding (uncompressed incl. 0x04)
            ne = w.att_element("attestation", leaf, leaf)
            msg = bytearray(bytes.fromhex(ne["message"]))
            msg[320:352] = hashlib.sha256(w.point("attkey") + bytes.fromhex(ne["auth_data"])).digest()
            ne["message"] = bytes(msg).hex()
            ne["signature"] = w.ec_sign(leaf, bytes(msg)).hex()
            self.evaluate(with_("attestation", ne), root_pem, G.T0, "binding:attkey-hash-of-04-form", stats, vs)
            # only the first 16 bytes of the binding hash are right
            ne = w.quote_element("quote", "attestation", "attkey")
            msg = bytearray(bytes.fromhex(ne["message"]))
            msg[368 + 16] ^= 0x40
            ne["message"] = bytes(msg).hex()
            ne["signature"] = w.ec_sign("attkey", bytes(msg)).hex()
            self.evaluate(with_("quote", ne), root_pem, G.T0, "binding:quote-half", stats, vs)
            ne = w.att_element("attestation", leaf, leaf)
            msg = bytearray(bytes.fromhex(ne["message"]))
            msg[320 + 31] ^= 0x01
            ne["message"] = bytes(msg).hex()
            ne["signature"] = w.ec_sign(leaf, bytes(msg)).hex()
            self.evaluate(with_("attestation", ne), root_pem, G.T0, "binding:attkey-last-byte", stats, vs)
            # high-S twin of the SGX signatures (valid ECDSA, both libraries accept)
            for nm in ("quote", "attestation"):
                d = G.clone(doc)
                e = G.element_of(d, nm)
                e["signature"] = G.high_s(bytes.fromhex(e["signature"]), P256_N).hex()
                self.evaluate(d, root_pem, G.T0, "sig:twin-s", stats, vs)
                d = G.clone(doc)
                e = G.element_of(d, nm)
                e["signature"] = G.padded_der(bytes.fromhex(e["signature"])).hex()
                self.evaluate(d, root_pem, G.T0, "sig:padded-der", stats, vs)

    # ---- one execution -----------------------------------------------------------------------
    def mismatch(self, doc, exp, got, fresh=None):
        out = []
        if not isinstance(got, Mapping) or set(got) != set(doc["targets"]):
            return [("targets", None)]
        for t, ev in exp.items():
            g = got[t]
            if ev[0] == R.OPEN:
                continue
            g = verdict(g)
            if g is None:
                out.append(("result-shape", t))
                continue
            if ev[0] == R.OK:
                if g[0] != "ok":
                    out.append(("rejected-valid", t))
                    continue
                signed = bytes.fromhex(G.element_of(doc, t)["message"])[:R.QUOTE_LEN]
                bad = None
                if not (g[2] is None and isinstance(g[1], dict)
                        and same_hex(g[1].get("message"), ev[1]["message"])):
                    bad = "value"
                else:
                    # one reported object read in a sequence, then fresh objects read in other orders
                    bad = read_quote(g[1].get("sgx_quote"), signed,
                                     ("attrs", "dict", "attrs", "raw", "dict", "repr", "attrs", "dict"))
                    if bad is None and fresh is not None:
                        for order in (("dict", "attrs", "dict"), ("repr", "attrs", "dict"),
                                      ("dict", "dict", "attrs"), ("raw", "repr", "dict", "attrs")):
                            r2 = fresh()
                            try:
                                q2 = verdict(r2[1][t])[1]["sgx_quote"]
                            except Exception:   # noqa
                                bad = "value-not-reproducible"
                                break
                            bad = read_quote(q2, signed, order)
                            if bad is not None:
                                break
                if bad is not None:
                    out.append((bad, t))
            else:
                if g[0] == "ok":
                    out.append(("accepted-invalid", t))
                elif g[1] != ev[1]:
                    out.append(("first-failing-name", t))
        return out

    def evaluate(self, doc, root_pem, now, label, stats, vs, open_=False, target="quote", tz="rotate"):
        stats.evaluations += 1
        if tz == "rotate":
            # every execution runs under one of the zones, in turn: the verdict must not depend on it
            tz = ZONES[stats.evaluations % len(ZONES)]
        case = {"kind": "one", "doc": doc, "root_pem": root_pem, "now": iso(now), "label": label,
                "open": open_, "target": target, "tz": tz}
        reason = v2_structure(doc)
        if not self.owned:
            if now != G.T0:
                return None           # only the present can be visited
            before = self.impl.present()
        got = self.impl.run_v2(doc, root_pem, now, guarded=reason is not None, tz=tz,
                               repeats=2 if (self.thorough or not label.startswith("flip")) else 1)
        if not self.owned:
            now = self.impl.present()
        if got[0] == "unstable":
            stats.observe((label, "unstable"))
            vs.append(Violation("C07", "C07:repeated-validation-differs:" + label, case, None, got[1],
                                {"every call": "the same result"}, "verdicts do not depend on earlier calls"))
            return None
        if got[0] == "budget":
            with self.hangs.get_lock():
                self.hangs.value += 1
            stats.observe(("budget", reason))
            vs.append(Violation("C07", "C07:load-does-not-return:%s" % reason, case, None,
                                {"budget": got[1]}, {"error": reason}, "structure"))
            raise _Enough()
        if reason is not None:
            stats.observe((label, "structure", reason, got[0]))
            if got[0] != "loaderr":
                vs.append(Violation("C07", "C07:no-path-to-root-accepted:" + reason, case, None,
                                    {"outcome": got[0]}, {"error": reason}, "structure"))
            return None
        exp = R.v2_validate(doc, root_element(root_pem), now)
        if not self.owned:
            # the code ran somewhere between `before` and `now`: the reference must not depend on where
            exp0 = R.v2_validate(doc, root_element(root_pem), before)
            if any(exp0[t][:2] != exp[t][:2] for t in exp):
                open_ = True
        ev = exp[target]
        kinds = {e["name"]: e["type"] for e in doc["elements"]}
        stats.observe((label, tuple((exp[t][0], kinds.get(exp[t][1]) if exp[t][0] != R.OK else None)
                                    for t in doc["targets"]), got[0]))
        stats.sample({"label": label, "now": iso(now), "expected": ev[:2] if ev[0] != R.OK else "ok",
                      "chain": [(e["name"], e["type"], e["signed_by"]) for e in doc["elements"]]})
        if open_ or ev[0] == R.OPEN:
            stats.dont_care += 1
            return exp
        short = label.split(":")[0] + ":" + label.split(":")[1] if ":" in label else label
        if got[0] == "raise":
            cls, frame = self.impl.where(got[1])
            vs.append(Violation("C07", "C07:validate-raises:%s:%s:%s" % (type(got[1]).__name__, cls, frame),
                                case, None, {"raised": repr(got[1])}, {"verdict": ev[:2]},
                                "validation gives a verdict"))
            return exp
        if got[0] != "result":
            vs.append(Violation("C07", "C07:%s:%s" % ("refused" if got[0] == "loaderr" else "raised", short),
                                case, None, {"outcome": got[0], "error": repr(got[1])},
                                {"verdict": ev[:2]}, "outcome"))
            return exp
        fresh = None
        if label.startswith(("genuine", "ints", "multi:both-genuine")):
            def fresh():
                return self.impl.run_v2(doc, root_pem, now, tz=tz)
        for clause, t in self.mismatch(doc, exp, got[1], fresh):
            et = exp.get(t, ev)
            fk = kinds.get(et[1], "") if et[0] == R.FAIL else ""
            vs.append(Violation("C07", "C07:%s:%s:%s" % (clause, label, fk), case, None,
                                {"target": t, "result": repr(got[1].get(t)) if isinstance(got[1], dict)
                                 else repr(got[1])},
                                {"target": t, "verdict": et[:2] if et[0] != R.OK else ("ok", et[1]["message"])},
                                clause))
        return exp


P256_N = 0xFFFFFFFF00000000FFFFFFFFFFFFFFFFBCE6FAADA7179E84F3B9CAC2FC632551

CHECK = C07
