"""C19 - app hashing and one-time signing bind to the application's actual code.

Bounded-exhaustive enumeration of Intel-HEX images (own writer): all layouts of 1..3 (thorough:
..5) data areas over a length menu, a gap menu and four placements around a 64 KiB zone border,
written with every record-length policy and in every emission order of the areas, through
``admin.ledger_utils.compute_app_hash`` and ``signapp hash`` (main() with argv, stdout
captured); ``signonetime`` main() with 1..4 images, twice with two different randomness
streams.  Oracle: hashlib SHA-256 over the generator's own area bytes in address order; own
strict DER parser and libsecp256k1 (plus the ecdsa package as second opinion) verification of
every signature file under the key in the public-key file; key freshness; key-leak scan of
every file written and of stdout; nonce-reuse recovery of the private key from the signature
files (positive oracle).
"""
import itertools
import os

from ..framework import Check, Violation
from ..env import Rng
from ..xplore import HarnessError
from ..refs import ecsig
from ..gen import ihex
from .. import opstub

SUB4 = [1, 16, 17, 300]
SUB3 = [1, 17, 300]
PLACEMENTS = ["low", "cross", "gap", "end"]


# area lengths at the edges of the block sizes of this code base and its libraries: SHA-256
# block (64) and padding edges (55/56), 32, 128, ledgerblue's load chunk (224), 255/256 record and
# APDU limits, 448, 512, 1024, 4096: k * block for k = 1..3, each -1 / +0 / +1
BLOCKS = [32, 55, 56, 64, 128, 224, 255, 256, 448, 512, 1024, 4096]
BLOCK_LENGTHS = sorted({b * k + d for b in BLOCKS for k in (1, 2, 3) for d in (-1, 0, 1)})


def order_kind(order):
    o = list(order)
    if o == sorted(o):
        return "address-order"
    if o == sorted(o, reverse=True):
        return "reverse-order"
    return "shuffled"


def pol_name(p):
    return "mixed" if not isinstance(p, int) else "len%d" % p


class Args(dict):
    __getattr__ = dict.get


class C19(Check):
    id = "C19"
    level = "exploration"
    rule = ("every layout of n data areas (n = 1..3 over lengths {1,15,16,17,255,256,300}; thorough "
            "n = 4 over {1,16,17,300} and n = 5 over {1,17,300}) x gaps {0,1,4096} x placements "
            "{inside one zone, last area straddling the 64 KiB border, border between areas, area "
            "ending at the border}; each written with record lengths {1,2,16,32,255,mixed} and area "
            "emission orders (quick: every length with address order + every order with 16-byte "
            "records + reversed/mixed; thorough: the full product for n <= 3, all 24 orders for n = 4, "
            "rule-built orders for n = 5); single areas and pairs with lengths k*B-1, k*B, k*B+1 for "
            "B in {32,55,56,64,128,224,255,256,448,512,1024,4096}, k = 1..3; a sweep of single-area "
            "images of every length 1..600 (quick: every 7th and all multiples of 16) through "
            "`signapp hash`; images whose path as given looks like another kind of argument (64 hex "
            "digits, 0x + 64 hex, a number, a key, an operation name), for hash / message / message -o; "
            "images ground so that their SHA-256 starts with 2, 3, 4 zero digits, through hash / message / "
            "message -o / key; images given to signonetime through symbolic links; format variants (CRLF, lower case, redundant upper-address "
            "records, start-address record, records of an area in reverse, per-area lengths); each "
            "file through compute_app_hash, each layout through `signapp hash`; signonetime with "
            "1..4 images x 2 runs (file names with non-ASCII letters, blanks, no extension); `signapp "
            "message -o OUT` over an output path that is absent / holds an authorization of another "
            "image (0 or 2 signatures) / garbage / nothing, and after the histories message(A), "
            "message(A)+key, message(A)+key+key, followed by `key` (what is embedded and what gets "
            "signed is the hash of the image given now).  Distinct = (areas, placement, record policy, order kind, "
            "variant, verdict).")
    assumptions = [
        "area contents are seeded bytes; addresses sit around zone 0xC0D0/0xC0D1 (and 0x0000/0x0001 "
        "for the segment-addressed and implicit-zone variants)",
        "images using extended *segment* address records (type 02) or data records before any "
        "upper-address record are legal Intel HEX but explicitly refused by the parser the tooling "
        "uses (ledgerblue): a refusal is counted as dont_care, a wrong hash would be a violation",
        "ledgerblue.hexParser is third-party code exercised as part of the tooling",
        "os.urandom is a recorded seeded stream during signonetime; the private scalar is "
        "recovered from that stream and confirmed against the written public key",
        "high-S signatures are accepted (normalised before libsecp256k1 verification)",
    ]
    trusted_base = ["verif/gen/ihex.py (own Intel-HEX writer)", "hashlib.sha256", "libsecp256k1",
                    "verif/refs/ecsig.py (own DER codec)"]

    def prepare(self):
        from .. import harness  # noqa: F401
        opstub.init_session("c19")
        import admin.ledger_utils as LU
        import signapp
        import signonetime
        self.LU, self.signapp, self.signonetime = LU, signapp, signonetime
        # writer self-test: checksum and layout of a record from the format specification
        if ihex.record(0x00, 0x0100, bytes.fromhex("214601360121470136007EFE09D21901")) != \
                ":10010000214601360121470136007EFE09D2190140":
            raise HarnessError("Intel-HEX writer self-test failed")
        if ihex.record(0x01, 0) != ":00000001FF" or ihex.record(0x04, 0, b"\xff\xff") != ":02000004FFFFFC":
            raise HarnessError("Intel-HEX writer self-test failed (EOF / ELA records)")

    def zero_images(self):
        """single-area images whose SHA-256 starts with 2, 3 and 4 zero hex digits (ground)"""
        import hashlib
        if not hasattr(self, "_zero_images"):
            base = Rng("c19-zero").bytes(12)
            found = {}
            i = 0
            while len(found) < 3 and i < 5000000:
                data = base + i.to_bytes(4, "big")
                hx = hashlib.sha256(data).hexdigest()
                for z in (2, 3, 4):
                    if z not in found and hx.startswith("0" * z) and hx[z] != "0":
                        found[z] = data
                i += 1
            self._zero_images = found
        return self._zero_images

    def bounds(self):
        return {"areas": "1..5" if self.thorough else "1..3", "lengths": ihex.LENGTHS, "block_edge_lengths": BLOCK_LENGTHS, "sweep": "1..600",
                "gaps": ihex.GAPS, "record_lengths": [pol_name(p) for p in ihex.POLICIES],
                "placements": PLACEMENTS, "images_per_signing_run": "1..4", "runs": 2}

    def alphabets(self):
        return {"record_types": ["00", "01", "04", "05", "02 (dont_care)"],
                "variants": ["crlf", "lower", "redundant-zone", "start-record", "reverse-records",
                             "per-area-lengths", "blank-lines", "no-final-eol", "segment",
                             "implicit-zone0"],
                "output_path_history": ["absent", "old0", "old2", "garbage", "empty", "message-old",
                                        "message-old+key", "message-old+key+key"]}

    # -- cases ---------------------------------------------------------------
    def cases(self):
        cs = [{"kind": "layouts", "n": 1, "first": None}]
        for a in ihex.LENGTHS:
            cs.append({"kind": "layouts", "n": 2, "first": [a]})
        for a in ihex.LENGTHS:
            for b in ihex.LENGTHS:
                cs.append({"kind": "layouts", "n": 3, "first": [a, b]})
        if self.thorough:
            for a in SUB4:
                for b in SUB4:
                    for c in SUB4:
                        cs.append({"kind": "layouts", "n": 4, "first": [a, b, c]})
            for a in SUB3:
                for b in SUB3:
                    for c in SUB3:
                        for d in SUB3:
                            cs.append({"kind": "layouts", "n": 5, "first": [a, b, c, d]})
        for n in (1, 2, 3, 4):
            for v in range(8 if self.thorough else 4):
                cs.append({"kind": "onetime", "n": n, "v": v})
        cs.append({"kind": "variants"})
        for new in range(8):
            cs.append({"kind": "embed", "new": new})
        cs.append({"kind": "namelike"})
        cs.append({"kind": "zerohash"})
        for part in range(12):
            cs.append({"kind": "blocks", "part": part})
        for part in range(4):
            cs.append({"kind": "sweep", "part": part})
        return cs

    def run_case_single(self, case, choices, stats):
        return self.run_case(case, stats)

    def run_case(self, case, stats):
        vs = []
        with opstub.TempDir("c19") as td:
            self.td = td
            k = case["kind"]
            if k == "one":
                getattr(self, "x_" + case["route"])(Args(case["args"]), stats, vs)
            elif k == "layouts":
                self.case_layouts(case, stats, vs)
            elif k == "onetime":
                self.case_onetime(case, stats, vs)
            elif k == "variants":
                self.case_variants(case, stats, vs)
            elif k == "embed":
                self.case_embed(case, stats, vs)
            elif k == "blocks":
                self.case_blocks(case, stats, vs)
            elif k == "namelike":
                self.case_namelike(case, stats, vs)
            elif k == "zerohash":
                self.case_zerohash(case, stats, vs)
            elif k == "sweep":
                self.case_sweep(case, stats, vs)
        return vs

    def viol(self, vs, clause, detail, route, args, observed, expected):
        vs.append(Violation("C19", "C19:%s:%s" % (clause, detail),
                            {"kind": "one", "route": route, "args": dict(args)}, None,
                            observed, expected, clause))

    # -- image construction -----------------------------------------------------
    def image(self, ls, gs, pl, zone=None):
        r = Rng("c19-img-%r-%r-%s" % (tuple(ls), tuple(gs), pl))
        return ihex.build(tuple(ls), tuple(gs), pl, r.bytes, zone if zone is not None else ihex.ZONE)

    def combos(self, n):
        """(policy, order) pairs for a layout of n areas"""
        orders = list(itertools.permutations(range(n)))
        pols = list(ihex.POLICIES)
        if n <= 3 and (self.thorough or n <= 2):
            return [(p, o) for p in pols for o in orders]
        if n <= 3:
            ident, rev = orders[0], orders[-1]
            out = [(p, ident) for p in pols] + [(16, o) for o in orders[1:]]
            out += [(1, rev), (255, rev), (pols[5], rev), (pols[5], orders[2]), (2, orders[3])]
            return out
        if n == 4:
            return [(pols[i % len(pols)], o) for i, o in enumerate(orders)] + \
                   [(p, orders[-1]) for p in pols]
        # n = 5: rule-built orders
        ident = tuple(range(n))
        rule = [ident, ident[::-1], ident[1:] + ident[:1], ident[-1:] + ident[:-1],
                (0, 2, 4, 1, 3), (3, 1, 4, 2, 0), (4, 0, 3, 1, 2)]
        return [(pols[i % len(pols)], o) for i, o in enumerate(rule)] + [(255, ident[::-1]), (1, rule[4])]

    # -- route hash ---------------------------------------------------------------
    def x_hash(self, a, stats, vs):
        """args: ls, gs, pl, policy (int | list), order, fmt {}, zone, via: fn | main"""
        stats.evaluations += 1
        img = self.image(a.ls, a.gs, a.pl, a.zone)
        pol = a.policy
        if isinstance(pol, list):
            pol = tuple(pol) if not a.per_area else [tuple(p) if isinstance(p, list) else p for p in pol]
        fmt = dict(a.fmt or {})
        text = ihex.write(img, policy=pol, order=a.order, **fmt)
        path = self.td.write("app.hex", text)
        want = ihex.reference_hash(img)
        open_ = fmt.get("addressing") == "segment" or fmt.get("implicit_zone0")
        vname = "+".join(sorted(k if v is True else "%s=%s" % (k, v) for k, v in fmt.items()
                                if v not in (False, "\n"))) or "plain"
        if a.per_area:
            vname += "+per-area-lengths"
        okind = order_kind(a.order or range(len(img)))
        got, err = None, None
        if a.via == "main":
            r = opstub.run_main(self.signapp.main, ["signapp.py", "hash", "-a", path] +
                                (["-v"] if a.verbose else []))
            if r.exc:
                err = r.exc
            elif r.code != 0:
                err = "exit %r: %s" % (r.code, r.out[-200:])
            else:
                # whatever the wording: the 64-digit hexadecimal value the tool reports
                import re
                toks = re.findall(r"(?<![0-9a-fA-F])[0-9a-fA-F]{64}(?![0-9a-fA-F])", r.out)
                want_cmp = want.hex()
                got = want_cmp if want_cmp in [t.lower() for t in toks] else (toks[-1].lower() if toks else r.out)
        else:
            try:
                got = self.LU.compute_app_hash(path)
            except Exception as e:   # noqa
                err = "%s: %s" % (type(e).__name__, str(e)[:200])
            want_cmp = want
        pname = "per-area" if a.per_area else pol_name(pol)
        stats.observe((a.via, len(img), a.pl, pname, okind, vname, err is None, got == want_cmp if err is None else None))
        stats.sample({"route": a.via, "areas": [(hex(s), len(d)) for s, d in img], "policy": pname,
                      "order": a.order, "variant": vname, "hash": want.hex()})
        detail = "%s:areas%d:%s%s" % (a.via, len(img), okind, "" if vname == "plain" else ":variant")
        if err is not None:
            if open_:
                stats.dont_care += 1
                return
            self.viol(vs, "image-refused", detail, "hash", a, {"error": err}, {"hash": want.hex()})
            return
        if got != want_cmp:
            self.viol(vs, "hash", detail, "hash", a,
                      {"hash": got.hex() if isinstance(got, bytes) else got}, {"hash": want.hex()})

    def case_layouts(self, case, stats, vs):
        n = case["n"]
        first = case["first"] or []
        lens = ihex.LENGTHS if n <= 3 else (SUB4 if n == 4 else SUB3)
        combos = self.combos(n)
        ctr = 0
        for rest in itertools.product(lens, repeat=n - len(first)):
            ls = list(first) + list(rest)
            for gs in itertools.product(ihex.GAPS, repeat=n - 1):
                for pl in PLACEMENTS:
                    if pl == "cross" and ls[-1] < 2:
                        continue
                    main_at = ctr % len(combos)
                    ctr += 1
                    for i, (pol, order) in enumerate(combos):
                        a = Args(ls=ls, gs=list(gs), pl=pl, policy=list(pol) if isinstance(pol, tuple) else pol,
                                 order=list(order), fmt={}, via="fn")
                        self.x_hash(a, stats, vs)
                        if i == main_at:
                            a2 = Args(a)
                            a2["via"] = "main"
                            a2["verbose"] = ctr % 2 == 0
                            self.x_hash(a2, stats, vs)

    # -- route namelike: image paths that look like other kinds of argument ---------------
    def x_namelike(self, a, stats, vs):
        """args: name (file name of the image, given relative to the working directory), pool
        (image), op: hash | message | message-o, sub (put the image in a sub-directory)"""
        import json
        td = self.td
        td.clear()
        ls, gs, pl, pol, od = self.pool()[a.pool]
        img = self.image(ls, gs, pl)
        want = ihex.reference_hash(img)
        rel = ("dir/" + a.name) if a.sub else a.name
        td.write_in(rel, ihex.write(img, policy=pol, order=od)) if a.sub else \
            td.write(rel, ihex.write(img, policy=pol, order=od))
        argv = {"hash": ["hash", "-a", rel], "message": ["message", "-a", rel, "-i", "7"],
                "message-o": ["message", "-a", rel, "-i", "7", "-o", "auth.json"]}[a.op]
        stats.evaluations += 1
        r = opstub.run_main(self.signapp.main, ["signapp.py"] + argv, cwd=td.path,
                            patches=opstub.seam_urandom(opstub.ByteStream("c19-namelike")))
        text = "RSK_powHSM_signer_%s_iteration_7" % want.hex()
        ok = False
        if r.code == 0 and not r.exc:
            if a.op == "hash":
                ok = want.hex() in r.out.lower()
            elif a.op == "message":
                ok = text in r.out
            else:
                try:
                    ok = json.loads(td.read("auth.json"))["signer"] == {"hash": want.hex(), "iteration": 7}
                except Exception:   # noqa
                    ok = False
        stats.observe(("namelike", a.kind, a.op, bool(a.sub), r.code, ok))
        stats.sample({"route": "namelike", "name": rel, "op": a.op, "exit": r.code})
        if not ok:
            self.viol(vs, "hash" if r.code == 0 else "image-refused", "namelike:%s:%s" % (a.kind, a.op),
                      "namelike", a, {"exit": r.code, "exc": r.exc, "out": r.out[-300:],
                                      "file": td.read("auth.json")},
                      {"hash_of_the_file_named": rel, "hash": want.hex()})

    # -- route zerohash: leading zeros of the hash survive every conversion -----------------
    def x_zerohash(self, a, stats, vs):
        """args: zeros (2 | 3 | 4 leading zero hex digits), op: hash | message | message-o |
        message-o+key, policy, placement"""
        import json
        from ..refs.keccak import keccak256
        td = self.td
        td.clear()
        data = self.zero_images()[a.zeros]
        addr = (ihex.ZONE << 16) + (0x0100 if a.pl == "low" else 0xFFF8)
        img = [(addr, data)]
        want = ihex.reference_hash(img)
        path = td.write("zero.hex", ihex.write(img, policy=a.policy))
        out = td.file("auth.json")
        text = "RSK_powHSM_signer_%s_iteration_9" % want.hex()
        key = ecsig.seeded_scalar(Rng("c19-zero-key"))
        patches = opstub.seam_urandom(opstub.ByteStream("c19-zero"))
        argv = {"hash": ["hash", "-a", path], "message": ["message", "-a", path, "-i", "9"],
                "message-o": ["message", "-a", path, "-i", "9", "-o", out],
                "message-o+key": ["message", "-a", path, "-i", "9", "-o", out],
                "key": ["key", "-a", path, "-i", "9", "-o", out, "-k", key.hex()]}[a.op]
        stats.evaluations += 1
        r = opstub.run_main(self.signapp.main, ["signapp.py"] + argv, patches=patches)
        if a.op == "message-o+key" and r.code == 0:
            stats.evaluations += 1
            r = opstub.run_main(self.signapp.main, ["signapp.py", "key", "-o", out, "-k", key.hex()],
                                patches=patches)
        ok, seen = False, None
        if r.code == 0 and not r.exc:
            if a.op == "hash":
                ok, seen = want.hex() in r.out.lower(), r.out[-200:]
            elif a.op == "message":
                ok, seen = text in r.out, r.out[-200:]
            else:
                try:
                    d = json.loads(td.read("auth.json"))
                    seen = d
                    ok = d["signer"] == {"hash": want.hex(), "iteration": 9}
                    if ok and a.op != "message-o":
                        dg = keccak256(b"\x19Ethereum Signed Message:\n" + str(len(text)).encode() +
                                       text.encode())
                        ok = ecsig.verify_libsecp(ecsig.pub_of_libsecp(key), dg,
                                                  bytes.fromhex(d["signatures"][-1]))
                except Exception:   # noqa
                    ok = False
        stats.observe(("zerohash", a.zeros, a.op, a.pl, r.code, ok))
        stats.sample({"route": "zerohash", "hash": want.hex(), "op": a.op, "exit": r.code})
        if not ok:
            self.viol(vs, "hash" if a.op == "hash" else "embedded-hash", "zerohash:%s" % a.op, "zerohash", a,
                      {"exit": r.code, "exc": r.exc, "seen": seen},
                      {"hash": want.hex(), "text": text})

    def case_zerohash(self, case, stats, vs):
        for zeros in sorted(self.zero_images()):
            for op in ("hash", "message", "message-o", "message-o+key", "key"):
                for pl, policy in (("low", 16), ("cross", 1), ("low", 255)):
                    self.x_zerohash(Args(zeros=zeros, op=op, pl=pl, policy=policy), stats, vs)

    def case_namelike(self, case, stats, vs):
        import hashlib
        other = hashlib.sha256(b"c19 some other content").hexdigest()
        key = ecsig.seeded_scalar(Rng("c19-namelike-key")).hex()
        names = [("hex64", other), ("0x-hex64", "0x" + other), ("HEX64", other.upper()),
                 ("number", "65535"), ("zero", "0"), ("hex-number", "0x10"), ("keylike", key),
                 ("hex64.hex", other + ".hex"), ("operation", "hash"), ("operation-message", "message"),
                 ("der-like", "3044" + other[:60]), ("dashdash", "--app"), ("path-like", "m")]
        for kind, name in names:
            for op in ("hash", "message", "message-o"):
                for sub in (False, True):
                    if kind == "dashdash" and not sub:
                        continue           # a bare option-like value is the option parser's business
                    self.x_namelike(Args(name=name, kind=kind, pool=(len(name) + sub) % 8, op=op, sub=sub),
                                    stats, vs)

    def case_blocks(self, case, stats, vs):
        """areas whose length sits at a block-size edge: alone, before and after a small area"""
        for n, ln in enumerate(BLOCK_LENGTHS):
            if n % 12 != case["part"]:
                continue
            for pl in ("low", "cross"):
                for pol in (16, 255, 224 if ln % 2 else 32):
                    self.x_hash(Args(ls=[ln], gs=[], pl=pl, policy=pol, order=[0], fmt={}, via="fn"),
                                stats, vs)
                self.x_hash(Args(ls=[ln], gs=[], pl=pl, policy=32, order=[0], fmt={}, via="main",
                                 verbose=n % 2 == 0), stats, vs)
            for ls, order in (([ln, 17], [0, 1]), ([ln, 17], [1, 0]), ([17, ln], [0, 1]), ([ln, ln], [1, 0])):
                self.x_hash(Args(ls=ls, gs=[1], pl="low", policy=64, order=order, fmt={}, via="fn"),
                            stats, vs)

    def case_sweep(self, case, stats, vs):
        """one single-area image per length, through `signapp hash` only"""
        if self.thorough:
            lengths = list(range(1, 601))
        else:
            lengths = sorted(set(range(1, 601, 7)) | set(range(16, 601, 16)))
        for n, ln in enumerate(lengths):
            if n % 4 == case["part"]:
                self.x_hash(Args(ls=[ln], gs=[], pl="low", policy=32, order=[0], fmt={}, via="main"),
                            stats, vs)

    def case_variants(self, case, stats, vs):
        fmts = [{"eol": "\r\n"}, {"lower": True}, {"redundant_zone": True}, {"start_record": True},
                {"reverse_records": True}, {"eol": "\r\n", "lower": True, "redundant_zone": True},
                {"blank_lines": True}, {"no_final_eol": True}]
        lays = [([300], [], pl) for pl in PLACEMENTS] + \
               [([17, 300], [g], pl) for g in ihex.GAPS for pl in PLACEMENTS] + \
               [([256, 1, 300], [0, 4096], pl) for pl in PLACEMENTS] + \
               [([16, 255, 15], [1, 0], pl) for pl in PLACEMENTS]
        for ls, gs, pl in lays:
            n = len(ls)
            for order in itertools.permutations(range(n)):
                for fmt in fmts:
                    for pol in (1, 16, 255):
                        if fmt.get("reverse_records") and pol == 1 and sum(ls) > 600:
                            continue
                        for via in ("fn", "main"):
                            self.x_hash(Args(ls=ls, gs=gs, pl=pl, policy=pol, order=list(order),
                                             fmt=fmt, via=via), stats, vs)
                # per-area record lengths
                for pols in ([1, 255, 16], [(16, 1), 2, (255, 32)], [32, (1, 2, 3), 255]):
                    self.x_hash(Args(ls=ls, gs=gs, pl=pl, policy=[list(p) if isinstance(p, tuple) else p
                                                                  for p in pols[:n]],
                                     per_area=True, order=list(order), fmt={}, via="fn"), stats, vs)
                # legal Intel HEX the parser declares unsupported: refusal = dont_care
                for fmt in ({"addressing": "segment"}, {"implicit_zone0": True}):
                    for pol in (16, 255):
                        self.x_hash(Args(ls=ls, gs=gs, pl=pl, policy=pol, order=list(order), fmt=fmt,
                                         zone=0, via="fn"), stats, vs)

    # -- route embed: the hash embedded in authorization messages / files ------------------
    def write_pool_image(self, pi, name, policy=None, order=None):
        ls, gs, pl, pol, od = self.pool()[pi]
        img = self.image(ls, gs, pl)
        self.td.write(name, ihex.write(img, policy=policy or pol, order=order or od))
        return ihex.reference_hash(img)

    def x_embed(self, a, stats, vs):
        """args: new, old (pool indices), pre: absent|old0|old2|garbage|empty (what the output
        path holds from an earlier step), it (iteration string), seq: steps run through main()
        before the judged `message` call: [] | ["message-old"] | ["message-old", "key"] ...,
        policy (record length for the NEW image file)"""
        import json
        td = self.td
        td.clear()
        want_new = self.write_pool_image(a.new, "new.hex", policy=a.policy)
        want_old = self.write_pool_image(a.old, "old.hex")
        out = td.file("auth.json")
        key = ecsig.seeded_scalar(Rng("c19-embed-key"))
        if a.pre in ("old0", "old2"):
            from ..refs.keccak import keccak256
            text = "RSK_powHSM_signer_%s_iteration_%d" % (want_old.hex(), 77)
            dg = keccak256(b"\x19Ethereum Signed Message:\n" + str(len(text)).encode() + text.encode())
            sigs = [ecsig.sign_libsecp(ecsig.seeded_scalar(Rng("c19-embed-k%d" % i)), dg).hex()
                    for i in range(2 if a.pre == "old2" else 0)]
            td.write("auth.json", json.dumps({"version": 1, "signer": {"hash": want_old.hex(),
                                                                    "iteration": 77},
                                              "signatures": sigs}, indent=2) + "\n")
        elif a.pre == "garbage":
            td.write("auth.json", "{ this is not an authorization\n")
        elif a.pre == "empty":
            td.write("auth.json", "")
        patches = opstub.seam_urandom(opstub.ByteStream("c19-embed"))
        for step in a.seq or []:
            stats.evaluations += 1
            if step == "message-old":
                argv = ["message", "-a", td.file("old.hex"), "-i", "77", "-o", out]
            elif step == "key":
                argv = ["key", "-o", out, "-k", key.hex()]
            else:
                raise AssertionError(step)
            r0 = opstub.run_main(self.signapp.main, ["signapp.py"] + argv, patches=patches)
            if r0.code != 0:
                self.viol(vs, "history-step-failed", "embed:%s" % step, "embed", a,
                          {"exit": r0.code, "out": r0.out[-300:]}, {"exit": 0})
                return
        stats.evaluations += 1
        held = td.read("auth.json")
        r = opstub.run_main(self.signapp.main, ["signapp.py", "message", "-a", td.file("new.hex"),
                                                "-i", a.it, "-o", out], patches=patches)
        after = td.read("auth.json")
        try:
            d = json.loads(after)
        except Exception:   # noqa
            d = None
        n_it = int(a.it, 16) if a.it.startswith("0x") else int(a.it)
        want = {"hash": want_new.hex(), "iteration": n_it}
        hist = "+".join(a.seq or []) or a.pre
        stats.observe(("embed", a.pre, tuple(a.seq or []), a.new == a.old, r.code,
                       isinstance(d, dict) and d.get("signer") == want))
        stats.sample({"route": "embed", "pre": a.pre, "seq": a.seq, "exit": r.code, "file": (after or "")[:200]})
        if r.exc:
            self.viol(vs, "tool-crash", "embed", "embed", a, {"exc": r.exc}, {"exit": "0 or 1"})
            return
        if r.code != 0:
            # refusing to overwrite is not what the tool documents; the statement only binds
            # what is embedded, so a refusal must at least leave the earlier file alone
            if after != held:
                self.viol(vs, "embedded-hash", "embed:refused-but-changed:%s" % hist, "embed", a,
                          {"exit": r.code, "file": after}, {"file": held})
            elif a.pre == "absent" and not a.seq:
                self.viol(vs, "image-refused", "embed:message-to-new-file", "embed", a,
                          {"exit": r.code, "out": r.out[-300:]}, {"exit": 0, "signer": want})
            else:
                stats.dont_care += 1      # declining to overwrite, file left alone: not pinned
            return
        if not isinstance(d, dict) or d.get("signer") != want:
            self.viol(vs, "embedded-hash", "embed:message-over-%s" %
                      ("history" if a.seq else "existing-file" if a.pre != "absent" else "new-file"),
                      "embed", a, {"exit": r.code, "file": d if d is not None else after,
                                   "held_before": held},
                      {"signer": want, "is": "SHA-256 of the image given with -a"})
            return
        # later steps sign what the file says: a key signature added now is over the NEW text
        stats.evaluations += 1
        r2 = opstub.run_main(self.signapp.main, ["signapp.py", "key", "-o", out, "-k", key.hex()],
                             patches=patches)
        try:
            d2 = json.loads(td.read("auth.json"))
            sig = bytes.fromhex(d2["signatures"][-1])
        except Exception:   # noqa
            d2, sig = None, b""
        from ..refs.keccak import keccak256
        text = "RSK_powHSM_signer_%s_iteration_%d" % (want_new.hex(), n_it)
        dg = keccak256(b"\x19Ethereum Signed Message:\n" + str(len(text)).encode() + text.encode())
        if r2.code != 0 or d2 is None or d2.get("signer") != want or \
                not ecsig.verify_libsecp(ecsig.pub_of_libsecp(key), dg, sig):
            self.viol(vs, "embedded-hash", "embed:key-after-message", "embed", a,
                      {"exit": r2.code, "file": d2}, {"signer": want, "last_signature_over": text})

    def case_embed(self, case, stats, vs):
        new = case["new"]
        npool = len(self.pool())
        for old in sorted({(new + 1) % npool, (new + 3) % npool, new}):
            for pre in ("absent", "old0", "old2", "garbage", "empty"):
                for it in ("5", "0x1f4", "65535"):
                    self.x_embed(Args(new=new, old=old, pre=pre, it=it, seq=[],
                                      policy=[16, 1, 255][int(it, 0) % 3]), stats, vs)
            for seq in (["message-old"], ["message-old", "key"], ["message-old", "key", "key"]):
                for pre in ("absent", "old2"):
                    self.x_embed(Args(new=new, old=old, pre=pre, it="78", seq=seq, policy=32), stats, vs)

    # -- route onetime ----------------------------------------------------------------
    def pool(self):
        P = ihex.POLICIES
        specs = [([300, 17], [4096], "cross", P[2], [1, 0]), ([16], [], "low", P[0], [0]),
                 ([255, 1, 256], [0, 1], "gap", P[5], [2, 0, 1]), ([1], [], "gap", P[4], [0]),
                 ([15, 300], [0], "end", P[1], [0, 1]), ([256, 256, 17], [4096, 0], "cross", P[3], [1, 2, 0]),
                 ([17], [], "cross", P[0], [0]), ([300, 300], [1], "low", P[4], [1, 0])]
        return specs

    def x_onetime(self, a, stats, vs):
        """args: images [pool indices], sep (separator used in --app), streams [labelA, labelB]"""
        pool = self.pool()
        td = self.td
        td.clear()
        names, wants = [], []
        for j, pi in enumerate(a.images):
            ls, gs, pl, pol, order = pool[pi]
            img = self.image(ls, gs, pl)
            nm = ["app%d_%d.hex", "aplicaci\u00f3n%d_%d.hex", "app %d %d.hex", "app%d_%d"][(j + pi) % 4] % (j, pi)
            if j in (a.links or []):
                # the image is given through a symbolic link: its signature belongs next to the
                # path as given (<link>.sig), whatever the link points to
                td.write_in("store/real%d.bin" % j, ihex.write(img, policy=pol, order=order))
                td.symlink("store/real%d.bin" % j, nm)
            else:
                td.write(nm, ihex.write(img, policy=pol, order=order))
            names.append(nm)
            wants.append(ihex.reference_hash(img))
        names_ok, wants_ok = list(names), list(wants)
        if a.missing:
            names.insert(a.missing - 1, "missing.hex")
            wants.insert(a.missing - 1, None)
        names_bad, wants_bad = names, wants
        # missing_in: the runs in which the unreadable image is part of the list (default: both);
        # [1] = a good run first, then a failing run over the files the good run left
        missing_in = a.missing_in if a.missing_in is not None else [0, 1]
        pkpath = td.file("pub.key")
        pubs, scalars = [], []
        allsigs = []            # (run, file, r, s, z, public key) of every signature that verified
        args = dict(a)
        for run, label in enumerate(a.streams):
            stats.evaluations += 1
            bad_run = bool(a.missing) and run in missing_in
            names, wants = (names_bad, wants_bad) if bad_run else (names_ok, wants_ok)
            app_arg = a.sep.join(td.file(n) for n in names)
            stream = opstub.ByteStream(label)
            inputs = {n: td.read(n, binary=True) for n in td.walk() if n in names}
            before = {n: td.read(n, binary=True) for n in td.walk()}

            def stat_of(n):
                st = os.stat(td.file(n))
                return (st.st_ino, st.st_mtime_ns, st.st_size)
            stat_before = {n: stat_of(n) for n in td.walk()}
            r = opstub.run_main(self.signonetime.main,
                                ["signonetime.py", "-a", app_arg, "-p", pkpath + (" " if a.pad else "")] +
                                (["-v"] if a.verbose else []),
                                patches=opstub.seam_urandom(stream))
            files = {n: td.read(n, binary=True) for n in td.walk()}
            # written in this run: new or changed content, or rewritten with the same content
            written = {n: c for n, c in files.items()
                       if before.get(n) != c or stat_before.get(n) != stat_of(n)}
            failed = r.code != 0
            stats.observe(("onetime", len(a.images), a.sep, a.missing, bad_run, run, r.code, len(written)))
            stats.sample({"route": "onetime", "images": a.images, "run": run, "exit": r.code,
                          "files": sorted(written)})
            if r.exc:
                self.viol(vs, "tool-crash", "onetime", "onetime", args, {"exc": r.exc}, {"exit": "0 or 1"})
                return
            for n, c in inputs.items():
                if files.get(n) != c:
                    self.viol(vs, "image-modified", "onetime", "onetime", args, {"file": n}, {"unchanged": True})
            # the key of this run: public key file, private scalar recovered from the owned stream
            pub = None
            raw_pk = files.get("pub.key")
            if raw_pk is not None:
                try:
                    pub = bytes.fromhex(raw_pk.decode("ascii").strip())
                except Exception:   # noqa
                    pub = None
            expect_ok = not bad_run
            if failed and "pub.key" in written and (pub is None or not ecsig.on_curve(pub)):
                # a failing run owes no file, but what it leaves is complete or was there before
                self.viol(vs, "public-key-file", "onetime:half-written-after-failure", "onetime", args,
                          {"exit": r.code, "file": raw_pk}, {"file": "as before, or a complete public key"})
            if expect_ok and (r.code != 0 or pub is None or not ecsig.on_curve(pub)):
                self.viol(vs, "public-key-file", "onetime:run%d" % run, "onetime", args,
                          {"exit": r.code, "file": raw_pk, "out": r.out[-300:]},
                          {"exit": 0, "file": "uncompressed secp256k1 public key in hex"})
                return
            if not expect_ok:
                stats.dont_care += 1          # the statement is silent about unreadable images
            scalar, entropy = None, None
            if pub is not None and ecsig.on_curve(pub):
                for out in stream.calls:
                    for cand in self.scalar_candidates(out):
                        if ecsig.pub_of_libsecp(cand) == pub:
                            scalar, entropy = cand, out
                            break
                    if scalar:
                        break
            # freshness is about keys this run wrote, not about a file an earlier run left
            pubs.append(pub if "pub.key" in written else None)
            scalars.append(scalar)
            # signatures
            for nm, want in zip(names, wants):
                sig_raw = files.get(nm + ".sig")
                if want is None:
                    continue
                if failed and (nm + ".sig") not in written:
                    # a run that ends with an error owes no file; what it DID write is judged
                    continue
                if failed and (pub is None or not ecsig.on_curve(pub)):
                    continue
                ok, why = False, None
                try:
                    der = bytes.fromhex(sig_raw.decode("ascii").strip())
                    if not ecsig.is_strict_der(der):
                        why = "not a DER signature"
                    elif not ecsig.verify_libsecp(pub, want, der):
                        why = "does not verify (libsecp256k1)"
                    elif not ecsig.verify_ecdsa_pkg(pub, want, der):
                        why = "does not verify (ecdsa package)"
                    else:
                        ok = True
                        r_, s_ = ecsig.der_decode(der)
                        allsigs.append((run, nm + ".sig", r_, s_, int.from_bytes(want, "big"), pub))
                        if ecsig.der_decode(der)[1] > ecsig.N // 2:
                            stats.dont_care += 1
                except Exception as e:   # noqa
                    why = "unreadable: %s" % type(e).__name__
                if not ok:
                    self.viol(vs, "signature-verifies", "onetime:%s" % why.split(":")[0], "onetime", args,
                              {"file": nm + ".sig", "content": sig_raw, "why": why,
                               "public_key": pub.hex() if pub else None},
                              {"verifies_for_hash": want.hex()})
            # nothing else is written
            allowed = {"pub.key"} | {n + ".sig" for n in names}
            extra = sorted(set(written) - allowed)
            if extra:
                self.viol(vs, "unexpected-file", "onetime", "onetime", args, {"files": extra},
                          {"files": sorted(allowed)})
            # the private key is written nowhere
            secrets = []
            if scalar is not None:
                d = int.from_bytes(scalar, "big")
                secrets += [("scalar-raw", scalar), ("scalar-hex", scalar.hex().encode()),
                            ("scalar-HEX", scalar.hex().upper().encode()),
                            ("scalar-hex-stripped", ("%x" % d).encode()), ("scalar-decimal", str(d).encode())]
            elif expect_ok:
                # the key does not come out of the owned randomness in a way known here (another
                # constructor, another library's generator): freshness is then judged on the two
                # runs' public keys only, the leak by the generic scan below
                stats.dont_care += 1
                stats.bump("key_not_recovered_from_owned_randomness")
            if entropy is not None:
                secrets += [("entropy-raw", entropy[:32]), ("entropy-hex", entropy[:32].hex().encode())]
            hay = dict(written)
            hay["<stdout>"] = r.out.encode("utf-8", "replace")
            hay["<stderr>"] = r.err.encode("utf-8", "replace")
            for sname, sec in secrets:
                for fname, content in hay.items():
                    if sec and sec in content:
                        self.viol(vs, "key-leak", "onetime:%s" % sname, "onetime", args,
                                  {"where": fname, "secret": sname}, {"private_key": "written nowhere"})
            # generic scan, independent of the randomness seam: nothing written or printed
            # contains a value (raw 32 bytes, 64 hex digits, decimal) that IS the private key
            if pub is not None and ecsig.on_curve(pub):
                for fname, content in hay.items():
                    form = self.find_private_key(content, pub)
                    if form:
                        self.viol(vs, "key-leak", "onetime:%s" % form, "onetime", args,
                                  {"where": fname, "secret": form}, {"private_key": "written nowhere"})
        # what the tool wrote must not GIVE the private key away either: signatures that share
        # their nonce (equal r) let anybody compute it (positive oracle: the recovered scalar is
        # checked against the public key; also across the two runs)
        for leak in self.nonce_reuse(allsigs):
            self.viol(vs, "key-leak", "onetime:recoverable-from-signatures", "onetime", args, leak,
                      {"private_key": "not computable from the files written"})
            break
        if len(pubs) == 2 and pubs[0] is not None and pubs[0] == pubs[1] and \
                a.streams[0] != a.streams[1]:
            self.viol(vs, "fresh-key", "onetime:same-key-in-two-runs", "onetime", args,
                      {"run1": pubs[0].hex(), "run2": pubs[1].hex()}, {"keys": "differ"})

    @staticmethod
    def nonce_reuse(sigs):
        """ECDSA: s = k^-1 (z + r d).  Two signatures with the same r were made with the same
        nonce k (or its negative): from two of them under one key, k = (z1 - z2) / (s1 -+ s2) and
        d = (s1 k - z1) / r; a k found that way also opens every other signature with that r."""
        N = ecsig.N
        inv = lambda x: pow(x % N, -1, N)      # noqa: E731
        known_k = {}
        out = []
        by_r = {}
        for sg in sigs:
            by_r.setdefault(sg[2], []).append(sg)
        for r, group in by_r.items():
            if len(group) < 2:
                continue
            for i in range(len(group)):
                for j in range(i + 1, len(group)):
                    a, b = group[i], group[j]
                    if a[5] != b[5] or a[4] == b[4]:
                        continue
                    for s2 in (b[3], N - b[3]):
                        if (a[3] - s2) % N == 0:
                            continue
                        k = (a[4] - b[4]) * inv(a[3] - s2) % N
                        d = (a[3] * k - a[4]) * inv(r) % N
                        if 0 < d < N and ecsig.pub_of_libsecp(d.to_bytes(32, "big")) == a[5]:
                            known_k[r] = k
                            out.append({"files": [a[:2], b[:2]], "shared_r": "%064x" % r,
                                        "recovered_private_key_matches_public_key": True})
                            break
            if r in known_k:
                for sg in group:
                    for k in (known_k[r], N - known_k[r]):
                        d = (sg[3] * k - sg[4]) * inv(r) % N
                        if 0 < d < N and ecsig.pub_of_libsecp(d.to_bytes(32, "big")) == sg[5] and \
                                not any(sg[:2] in o["files"] for o in out):
                            out.append({"files": [sg[:2]], "shared_r": "%064x" % r,
                                        "recovered_private_key_matches_public_key": True})
        return out

    @staticmethod
    def find_private_key(content, pub):
        import re
        N = ecsig.N

        def hit(d):
            return 0 < d < N and ecsig.pub_of_libsecp(d.to_bytes(32, "big")) == pub
        for m in re.finditer(rb"[0-9a-fA-F]{64,}", content):
            run = m.group(0)
            for i in range(len(run) - 63):
                if hit(int(run[i:i + 64], 16)):
                    return "scalar-hex"
        for m in re.finditer(rb"(?<![0-9])[0-9]{60,78}(?![0-9])", content):
            if hit(int(m.group(0))):
                return "scalar-decimal"
        if len(content) <= 4096 and not content.isascii():
            for i in range(len(content) - 31):
                if hit(int.from_bytes(content[i:i + 32], "big")):
                    return "scalar-raw"
        return None

    @staticmethod
    def scalar_candidates(out):
        cands = []
        for chunk in (out[:32], out[-32:]):
            if len(chunk) == 32:
                v = int.from_bytes(chunk, "big")
                for d in (v, v + 1, v % ecsig.N, (v % (ecsig.N - 1)) + 1):
                    if 0 < d < ecsig.N:
                        cands.append(d.to_bytes(32, "big"))
        return cands

    def case_onetime(self, case, stats, vs):
        n, v = case["n"], case["v"]
        npool = len(self.pool())
        images = [(v * 3 + j * (v + 1)) % npool for j in range(n)]
        images = list(dict.fromkeys(images))
        while len(images) < n:
            images.append(next(i for i in range(npool) if i not in images))
        sep = [",", ", ", " ,", " , "][v % 4]
        self.x_onetime(Args(images=images, sep=sep, pad=v % 2 == 1, verbose=v % 4 >= 2,
                            links=[[], [0], [n - 1], list(range(n))][v % 4],
                            streams=["c19-run-%d-%d-a" % (n, v), "c19-run-%d-%d-b" % (n, v)]), stats, vs)
        if v == 0:
            # an unreadable image at each position of the list, in both runs or only in the second
            # (then over the files a good run left): the failing run owes nothing, but every file
            # it leaves is as before or complete (and the leak / freshness clauses apply)
            for pos in range(1, n + 2):
                for missing_in in ([0, 1], [1]):
                    self.x_onetime(Args(images=images, sep=",", missing=pos, missing_in=missing_in,
                                        streams=["c19-miss-%d-%d-a" % (n, pos), "c19-miss-%d-%d-b" % (n, pos)]),
                                   stats, vs)


CHECK = C19
