"""C09 - bring-up never endangers the device and never serves from an unsafe state.

Model checking: the full lazy choice tree of device configurations (no deviation bound)
through the real entry point ManagerRunner.run with the real load_pin of manager_ledger /
manager_sgx, real HSM2Dongle / HSM2DongleSGX / HSM2DongleTCP and real FileBasedPin on an
in-memory file; socketserver.TCPServer is replaced by a recorder of serve_forever.
Oracle: reference automaton of the property statement."""
import types

from ..framework import Check, Violation
from ..xplore import explore, run_once
from .. import env, fakeserver, harness, memfs
from ..simdev.base import World
from ..simdev.bringup import BringUpDevice, Lazy, version_grid
from ledgerblue.commException import CommException

PIN_DIR = "/nonexistent-verif-dir/"
PIN_FILE = PIN_DIR + "pin.txt"   # never a real path: the file lives in memfs only
GOOD_PIN = b"a1b2a3c1"       # characters that occur more than once: their positions matter
DEFAULT_PIN = b"12d4a2cd"


def supports(ver):
    """statement: same major version, minor.patch not newer than the manager's 5.4.1"""
    return ver[0] == 5 and (ver[1], ver[2]) <= (4, 1)


class DetRandom:
    """deterministic stand-in for the ``random`` name inside ledger.pin"""

    def __init__(self):
        self.n = 0

    def seed(self, *a):
        pass

    def choice(self, seq):
        self.n += 1
        if self.n > 20000:
            raise RuntimeError("PIN generator does not terminate")
        return seq[(self.n * 7) % len(seq)]

    def index(self, n):
        self.n += 1
        if self.n > 20000:
            raise RuntimeError("PIN generator does not terminate")
        return (self.n * 7) % n


class C09(Check):
    id = "C09"
    level = "model_checking"
    rule = ("full lazy choice tree of: platform {Ledger, SGX, TCP} x PIN-file state {valid file, "
            "absent (change needed), valid file + forced change} x connect {ok, fails} x onboarded "
            "{yes, no, status error in/out of range, link error} x mode {bootloader, signer, "
            "ui-heartbeat, 0xFF, undefined byte, status error in/out of range} x UI version and "
            "signer version (3x3x3 grid around 5.4.1 + extremes) x echo {ok, bad} x retries x "
            "unlock {accepted, refused} x new PIN {accepted, refused, status errors, timeout, link "
            "error} x reconnect {ok, fails} x post-unlock mode. A dimension is chosen only when "
            "the code asks for it. Classes = (platform, path through the bring-up, served).")
    assumptions = [
        "device model read off the UI firmware sources; GET_PARAMETERS always succeeds",
        "'serving' = socketserver.TCPServer.serve_forever reached (the class is replaced by a recorder)",
        "an exception leaving ManagerRunner.run counts as 'stops without serving'",
    ]
    trusted_base = ["verif/simdev/bringup.py", "verif/memfs.py"]

    def prepare(self):
        self.opts = {
            "versions": version_grid(self.thorough),
            "retries": list(range(256)) if self.thorough else [3, 0, 1, 2, 255],
            "newpin": ["accept", "refuse", "sw-in", "sw-out", "timeout", "link"],
            "post_modes": [3, 2, 4, 0xFF, 7, "sw-out", "sw-in"],
        }

    def bounds(self):
        return {"tree": "full (no deviation bound)", "versions": len(self.opts["versions"]),
                "retries": len(self.opts["retries"])}

    def cases(self):
        base = self._base_cases()
        # a sample of them also under `python -O` (assert statements compiled away)
        return base + [{"kind": "optimized", "sub": c} for c in [c for c in base if not c.get('relink')][::max(1, len(base) // 5)][:5]]

    def _base_cases(self):
        cs = []
        for platform in ("ledger", "sgx", "tcp"):
            for pinstate in ("file", "absent", "forced", "file-is-default", "file-noenv"):
                if platform == "tcp" and pinstate != "file":
                    continue
                for first in range(5):            # shard on the onboarded answer
                    for v1 in (False, True):
                        cs.append({"platform": platform, "pin": pinstate, "onb": first, "v1": v1})
        # the bring-up repeated in the middle of a manager's life (reconnection after a link failure):
        # the device comes back with an obstacle the bring-up must stop at; the client that triggered it
        # may be gone when the reply is written
        for platform in ("ledger", "sgx"):
            for v1 in (False, True):
                for obstacle in ("retries-1", "retries-0", "not-onboarded", "none"):
                    for client in ("present", "reset", "closed"):
                        cs.append({"relink": obstacle, "platform": platform, "v1": v1, "client": client})
        return cs

    def driver(self, case):
        import ledger.pin as LPIN
        import mgr.runner as RUN
        import comm.server as SRV
        import manager_ledger
        import manager_sgx
        from sgx.hsm2dongle import HSM2DongleSGX
        from ledger.hsm2dongle import HSM2Dongle
        from ledger.hsm2dongle_tcp import HSM2DongleTCP
        from comm.platform import Platform
        platform = case["platform"]
        onb = ["yes", "no", "sw-out", "sw-in", "link"][case["onb"]]

        def run(ctx):
            cfg = Lazy(ctx, free=True, fixed={"onboarded": onb})
            dev = BringUpDevice(cfg, platform, self.opts)
            w = World(dev)
            orig = w.get_dongle
            nconn = [0]

            def get_dongle(*a, **k):
                nconn[0] += 1
                if cfg.get("connect-%d" % min(nconn[0], 2), ["ok", "fail"]) == "fail":
                    w.log.append(("open-fail",))
                    raise CommException("No dongle found")
                return orig()
            w.get_dongle = get_dongle
            harness.bind_world(w)
            fs = memfs.MemFS()
            if case["pin"] in ("file", "forced", "file-noenv"):
                fs.files[PIN_FILE] = GOOD_PIN
            elif case["pin"] == "file-is-default":
                fs.files[PIN_FILE] = DEFAULT_PIN      # the file holds the very PIN of the environment
            environ = {} if case["pin"] == "file-noenv" else {"PIN": DEFAULT_PIN.decode()}
            record = []
            seams = fakeserver.ManagerSeams(fs, record, DetRandom(), environ, PIN_DIR)
            seams.install()
            options = types.SimpleNamespace(
                pin_file=PIN_FILE, force_pin_change=case["pin"] == "forced",
                logconfigfilepath="x", version_one=case["v1"], host="localhost", port=9999,
                io_debug=False, tcpconn_host="h", tcpconn_port=1)
            crashed = None
            try:
                if platform == "ledger":
                    Platform.set(Platform.LEDGER)
                    runner = RUN.ManagerRunner("m", lambda o: HSM2Dongle(o.io_debug),
                                               manager_ledger.load_pin)
                elif platform == "sgx":
                    Platform.set(Platform.SGX)
                    runner = RUN.ManagerRunner(
                        "m", lambda o: HSM2DongleSGX(o.tcpconn_host, o.tcpconn_port, o.io_debug),
                        manager_sgx.load_pin)
                else:
                    Platform.set(Platform.X86)
                    runner = RUN.ManagerRunner(
                        "m", lambda o: HSM2DongleTCP(o.tcpconn_host, o.tcpconn_port, o.io_debug),
                        lambda o: None)
                runner.run(options)
            except BaseException as e:   # noqa
                crashed = type(e).__name__
            finally:
                seams.restore()
            return dev, w, cfg, record, crashed, fs
        return run

    def relink(self, case, stats):
        import json
        import mgr.runner as RUN
        import manager_ledger
        import manager_sgx
        from sgx.hsm2dongle import HSM2DongleSGX
        from ledger.hsm2dongle import HSM2Dongle
        from comm.platform import Platform
        from .c10 import PinDevice
        vs = []
        stats.evaluations += 1
        platform, v1, obstacle, client = case["platform"], case["v1"], case["relink"], case["client"]
        dev = PinDevice(platform, GOOD_PIN)
        dev.mode, dev.unlocked = 3, True          # serving manager: the signer is running
        w = World(dev)
        harness.bind_world(w)
        fs = memfs.MemFS()
        fs.files[PIN_FILE] = GOOD_PIN

        class Rec(list):
            pass
        record = Rec()
        out = {"served": False, "o": []}
        req = json.dumps({"command": "getPubKey", "version": 1 if v1 else 5,
                          "keyId": "m/44'/137'/0'/0/0"}).encode()

        def on_serve(server):
            out["served"] = True
            base = w.seq
            w.inject = lambda world, i, apdu: ("read",) if i == base else None
            out["o"].append(fakeserver.serve_line(server, req))
            w.inject = None
            dev.power_cycle()                      # back locked, in the bootloader
            if obstacle == "retries-1":
                dev.retries = 1
            elif obstacle == "retries-0":
                dev.retries = 0
            elif obstacle == "not-onboarded":
                dev.wiped = True
            out["mark"] = len(w.log)
            out["o"].append(fakeserver.serve_line(server, req, client=client))
            out["mark2"] = len(w.log)
            if not out["o"][-1].shutdown:
                out["o"].append(fakeserver.serve_line(server, req))
        record.on_serve = on_serve
        seams = fakeserver.ManagerSeams(fs, record, DetRandom(), {"PIN": DEFAULT_PIN.decode()}, PIN_DIR)
        seams.install()
        options = types.SimpleNamespace(
            pin_file=PIN_FILE, force_pin_change=False, logconfigfilepath="x", version_one=v1,
            host="localhost", port=9999, io_debug=False, tcpconn_host="h", tcpconn_port=1)
        crashed = None
        try:
            if platform == "ledger":
                Platform.set(Platform.LEDGER)
                runner = RUN.ManagerRunner("m", lambda o: HSM2Dongle(o.io_debug), manager_ledger.load_pin)
            else:
                Platform.set(Platform.SGX)
                runner = RUN.ManagerRunner(
                    "m", lambda o: HSM2DongleSGX(o.tcpconn_host, o.tcpconn_port, o.io_debug), manager_sgx.load_pin)
            runner.run(options)
        except BaseException as e:   # noqa
            crashed = type(e).__name__
        finally:
            seams.restore()
        o = out["o"]
        stopped = len(o) >= 2 and o[1].shutdown
        pin_traffic = [e[2] for e in w.log[out.get("mark", 0):] if e[0] == "x"
                       and e[2][1] in (0x41, 0xFE, 0xA3, 0x08, 0xA5)]
        stats.observe(("relink", platform, v1, obstacle, client, stopped, bool(pin_traffic), crashed,
                       len(o)), nontrivial=True)

        def viol(clause, observed, expected):
            vs.append(Violation("C09", "C09:%s:relink-%s:%s" % (clause, obstacle, platform), dict(case), None,
                                observed, expected, clause))
        if not out["served"] or len(o) < 2:
            viol("relink-scenario-not-served", {"crashed": crashed, "served": out["served"]}, "served")
            return vs
        if obstacle == "none":
            # nothing in the way: unlock (once), go on serving
            if stopped or (len(o) > 2 and not isinstance(o[2].reply, dict)):
                viol("stops-without-reason", {"stopped": stopped, "replies": [x.reply for x in o]},
                     "the repaired manager goes on serving")
            return vs
        if pin_traffic:
            viol("pin-sent-to-unsafe-device", {"apdus": [a.hex() for a in pin_traffic[:4]]},
                 "no PIN / unlock traffic")
        derr = -2 if v1 else -905
        later = [e for e in w.log[out.get("mark", 0):] if e[0] == "x"]
        commands = [e for e in later if e[2][1] == 0x04]           # the request's own APDU (getPubKey)
        refused = all(isinstance(x.reply, dict) and x.reply.get("errorcode") == derr for x in o[2:]) and \
            (client != "present" or (isinstance(o[1].reply, dict) and o[1].reply.get("errorcode") == derr))
        if not stopped and (commands or not refused):
            # either the manager stops, or it keeps answering the device-error code without ever
            # sending a command to the device it refused
            viol("serves-iff-safe", {"client": client, "stopped": stopped, "command_apdus": len(commands),
                                     "replies": [x.reply for x in o], "exchanges_afterwards": len(later)},
                 "the manager stops: the bring-up refused the device")
        return vs

    def run_case(self, case, stats):
        if case.get("kind") == "optimized":
            from ..framework import optimized
            return optimized(self, case, stats)
        if case.get("relink"):
            return self.relink(case, stats)
        vs = []
        run = self.driver(case)

        def check(ctx, obs):
            c = dict(case, choices=list(ctx.choices))
            self.judge(case, c, ctx, obs, stats, vs)
        if "choices" in case:
            ctx, obs = run_once(run, case["choices"])
            check(ctx, obs)
            return vs
        explore(run, check, stats, bound=None)
        return vs

    def replay(self, case, choices):
        from ..xplore import Stats
        c = dict(case)
        c["choices"] = list(choices or case.get("choices") or [])
        return self.run_case(c, Stats())

    def judge(self, case, c, ctx, obs, stats, vs):
        dev, w, cfg, record, crashed, fs = obs
        platform = case["platform"]
        v = cfg.vals
        served = ("serve_forever",) in record
        path = tuple(cfg.order)
        stats.observe((platform, case["pin"], tuple((k, v[k]) for k in cfg.order
                                                    if k not in ("ui_version", "signer_version", "retries")),
                       supports(v["ui_version"]) if "ui_version" in v else None,
                       supports(v["signer_version"]) if "signer_version" in v else None,
                       served, crashed))
        if any(ctx.choices):
            stats.sample({"platform": platform, "pin_state": case["pin"],
                          "config": {k: v[k] for k in cfg.order}, "served": served,
                          "crashed": crashed}, cap=4)

        def viol(clause, observed, expected):
            vs.append(Violation("C09", "C09:%s:%s" % (clause, platform), c, list(ctx.choices),
                                observed, expected, clause))
        onboarded = v.get("onboarded") == "yes"
        boot = v.get("mode") == 2
        pins = dev.pins_sent
        # --- the PIN / unlock command goes out at most once and only when safe
        safe = (onboarded and boot and "ui_version" in v and supports(v["ui_version"])
                and v.get("echo") == "ok" and isinstance(v.get("retries"), int) and v["retries"] >= 2)
        unlock_pins = [p for kind, p in pins if kind == "unlock"]
        new_pins = [p for kind, p in pins if kind == "new"]
        apdus = w.apdus()
        pin_traffic = [a for a in apdus if a[1] in (0x41, 0xFE, 0xA3, 0x08, 0xA5)]
        if pin_traffic and not safe:
            viol("pin-sent-to-unsafe-device", {"config": {k: v[k] for k in cfg.order},
                                               "apdus": [a.hex() for a in pin_traffic[:4]]},
                 "no PIN / unlock traffic")
        if unlock_pins:
            held = GOOD_PIN if case["pin"] in ("file", "forced", "file-noenv") else DEFAULT_PIN
            if unlock_pins[0] != held:
                viol("unlock-pin-differs", {"device_received": unlock_pins[0]}, {"pin_the_manager_holds": held})
        if dev.unlock_cmds > 1 or len(unlock_pins) > 1:
            viol("unlock-sent-twice", {"unlock_cmds": dev.unlock_cmds}, "<= 1")
        if len(new_pins) > 1:
            viol("new-pin-sent-twice", {"new_pins": len(new_pins)}, "<= 1")
        if platform == "ledger":
            nchars = sum(1 for a in apdus if a[1] == 0x41)
            want = 0
            if unlock_pins:
                want += len(unlock_pins[0])
            if new_pins:
                want += len(new_pins[0]) + 1
            if nchars > want + (0 if not (pins == [] and nchars) else 0) and not (nchars and not pins):
                viol("pin-transmitted-more-than-once", {"pin_char_apdus": nchars}, {"at_most": want})
        if new_pins and not (unlock_pins and dev.unlocked):
            viol("new-pin-without-unlock", {"pins": [k for k, _ in pins]}, "new PIN only after an accepted unlock")
        # --- serving
        needs_change = case["pin"] in ("absent", "forced")
        if boot:
            after = (safe and v.get("unlock") == "ok" and not needs_change
                     and v.get("connect-2") == "ok" and v.get("post_mode") == 3
                     and "signer_version" in v and supports(v["signer_version"]))
            expect = onboarded and after
        else:
            expect = (onboarded and v.get("mode") == 3 and "signer_version" in v
                      and supports(v["signer_version"]))
        if (boot and onboarded and safe and v.get("unlock") == "ok" and not needs_change
                and v.get("connect-1") == "ok" and platform != "tcp"):
            # everything was fine so far and no PIN change is due: the manager has to go on (the
            # configuration is lazy: a dimension it never asked about is a step it never took)
            nxt = None
            if "connect-2" not in v:
                nxt = "reconnect after the unlock"
            elif v["connect-2"] == "ok" and "post_mode" not in v:
                nxt = "mode query after the reconnect"
            elif v.get("connect-2") == "ok" and v.get("post_mode") == 3 and "signer_version" not in v:
                nxt = "signer version query"
            if nxt is not None:
                viol("stops-without-reason", {"missing_step": nxt, "pins": [k for k, _ in pins],
                                              "crashed": crashed, "config": {k: v[k] for k in cfg.order}},
                     "the bring-up continues: " + nxt)
        if new_pins and not needs_change:
            viol("pin-changed-without-need", {"pins": [k for k, _ in pins], "pin_state": case["pin"]},
                 "no new PIN: the file exists and no change was forced")
        if platform == "tcp" and boot:
            expect = False if not served else expect
        if v.get("connect-1") != "ok":
            expect = False
        if served != expect:
            viol("serves-iff-safe", {"served": served, "crashed": crashed,
                                     "config": {k: v[k] for k in cfg.order}},
                 {"served": expect})
        if served and crashed:
            pass


CHECK = C09
